#!/usr/bin/env python3
"""Regenerates /verif/MANIFEST.json from the table below (edit the table, run this).
CLAIMED lists the properties whose check is registered; every other property goes to
not_applicable with its reason from PENDING."""
import json
import os
import subprocess

VERIF = os.path.dirname(os.path.dirname(os.path.abspath(__file__)))

COMMON_NOTE = ("Trusted: Coq 8.16.1 kernel (vm_compute used for finite sweeps/witnesses, no native_compute), "
               "extraction with ExtrOcamlBasic only (its Extract Inductive directives for bool, option, list, prod, unit, sumbool, sumor; "
               "no other Extract Inductive; ONE Extract Constant in the whole development, coq/pwm/Extract.v: see C09) + OCaml 4.13.1, "
               "Flocq 4.1 as the definition of binary32/binary64, the hand-written OCaml driver and Rust harness "
               "(generator, canonicalisation; hand-written PROPFAIL paths are listed per property in the SPEC trusted_base of props/*.py), "
               "the lane-wise semantics given to x86 intrinsics. The Rust code is "
               "modelled by hand (no verified Rust->Gallina path exists here); the model is tied to /repo's working "
               "tree on every run by the correspondence check (and by the translator where one is named). "
               "Source pins (DESIGN 8.8): pins/source.json holds a fingerprint (comments and white space removed) of every Rust source "
               "file; when the tree a quick check decides differs from it in a file of the property's crates, nothing is reported for that "
               "alone, but the quick tier draws its cases from the thorough-tier generator and 4 times as many (evidence notes say so). "
               "Theorem statement pins (pins/theorems.json, tools/repin.py --theorems): a pinned property theorem that disappears or whose "
               "statement changes is a broken obligation. Obligation counts below are the Theorem/Lemma/Corollary statements of the property "
               "files at /repo 3bcb63a; translation-tie statements are named as such. ")

P = {}

P["C01"] = dict(
    text="Coq theorems (coq/score) about a model following pli/mod.rs, avx2.rs, sse2.rs, neon.rs, dispatch.rs and scores.rs: every cell of "
         "every backend's score matrix is the left fold of the code's own addition over the M looked-up terms (any element type, any "
         "addition - hence IEEE addition as it is), unstripe yields exactly L-M+1 values (none when L<M), row sub-ranges (also reaching into "
         "the look-ahead rows: C01_score_rows_lookahead) equal the rows of the full scan, AVX2 permute/gather, SSE2 and every dispatcher arm "
         "(any arm table, incl. the Arm one with NEON; the NEON kernel by translator and proof only) equal the generic kernel for every row "
         "range, old buffer content and padding content, -inf absorption and the full summation error bound "
         "|fl(sum)-sum| <= ((1+2^-24)^n-1) sum|t| for binary32 (Flocq). 78 theorems in C01.v (58), C01History.v (9: the Striped / Padded "
         "hypotheses discharged after any history of the C04 model incl. StripedSequence::new and ::sample) and C01Scores.v (11: after ANY "
         "history of score_into / score_rows_into / resize / clone / Default calls on ONE reused StripedScores buffer a scoring call gives "
         "what the generic pipeline gives on a fresh buffer). Review wave: the kernel / wrapper / dispatcher equalities hold under mat_wf alone "
         "(*_eq_wf: any StripedSequence the API can build; the earlier names are corollaries); value theorems also for states with ARBITRARY "
         "padding (StripedSequence::new on any matrix, spare rows included): C01_score_unstripe_padded (exactly the L-M+1 defined scores), "
         "C01_score_cells_padded (what the cells past max_index hold, as coded), C01_every_backend_padded; L<M without any layout hypothesis "
         "(C01_scores_short_iter_index). Translators, re-run on every check: AVX2 shuffle masks / lane un-permutation / dispatcher tables (x86 "
         "and Arm) / presence, order and nesting depth of the wrappers' guards (translate/score_avx2.py, score_lane4.py) and the statement "
         "skeleton of scores.rs (translate/score_scores.py -> GenScores.v; C01_scores_skeleton_as_modelled). Tie: extracted model vs "
         "implementation, bit-exact binary32, DNA/protein, 16/32/48/64 columns, all arms, sub-ranges, 10 % histories on one reused score buffer, "
         "12 % of the classic cases on sequences built by StripedSequence::new (hand-made matrix, non-wildcard padding), 8 % by ::sample; the "
         "logical sequence is read off the observed matrix by the extracted logical_seq, the hypothesis decided by the extracted padded_b.",
    note=COMMON_NOTE + "Value statements (error bound) exclude NaN/+inf cells, sum|t| >= 2^126 and motifs wider than 2^23; the bit-for-bit "
         "backend equalities have no such restriction. The NEON kernel is never executed on this host (translator + proof only). Hand-written "
         "PROPFAIL paths of the driver are strictly additional to the extracted check_C01 / check_same_results / check_subrange (panics of calls "
         "that must not panic, Index / score_position / rev / len against unstripe). Proving the padded-state theorems found the "
         "StripedSequence::sample defect repaired in /repo 740d563 (C01 itself was not violated).",
    technique="Coq proof (induction over rows/positions and over op histories of one score buffer; reflection on translated lane tables) "
              "tied by three translators (lane tables + wrapper guards, scores.rs statement skeleton) and the extracted-model "
              "correspondence check (bit-exact binary32, incl. histories and StripedSequence::new / ::sample states with arbitrary padding)",
    design="DESIGN.md section 3, C01; as built: 8.5, 8.10 item 10")
P["C02"] = dict(
    text="Coq theorems (coq/scan) about a line-by-line model of Scanner::next (scan.rs): soundness (every hit is a valid position with its "
         "defined score >= threshold, no duplicates), completeness (the yielded multiset is exactly the positions at or above the threshold) "
         "for every block size, sequence length (incl. L<M, L=0, rows a multiple of the block size) and threshold; by induction over blocks. "
         "38 theorems: C02.v (17), C02Source.v (8 translation ties: the property restated for the scanner parameterised by the 22-field "
         "statement skeleton translate/scan_skel.py re-reads from scan.rs on every run; 13 single-field deviations violate it), C02Total.v "
         "(13, review wave): no panic / termination of next(), take(k) and exhaustion of the binary32 scanner under the layout hypotheses ONLY "
         "(C02_scan_total, C02_concrete_total - no hypothesis on the 8-bit pre-filter, so also on ill-conditioned matrices); a word-level "
         "model of the usize arithmetic (ScanWord.v: checked / wrapping / saturating addition) proved equal to the unbounded one for a block "
         "size set before the first call (C02_word_scanner_eq, C02_word_scan_complete) and sound after Scanner::block_size / threshold calls "
         "BETWEEN calls (C02_word_setters_between_calls_sound; C02_source_setters_between_calls_sound at the kind of addition read from the "
         "source: any new block size with the saturating_add of /repo 3bcb63a; C02_word_setters_any_block_size_refuted keeps the witness of "
         "the repaired overflow); every PROPFAIL decided by an extracted, proved function (check_c02, check_take, check_sw, gate pre_ok). "
         "Tie: extracted model, extracted skeleton scanner and word-level model vs Scanner on generated scans (bit-exact hits in yield order, "
         "all arms, take(k) prefixes, setters between calls, block sizes up to usize::MAX, overflow witnesses also through the release build). "
         "Thorough tier adds the 72 composed statements of coq/e2e (E2E.v 30: text -> encode -> stripe -> configure -> Scanner, bridges "
         "between the groups' models; E2EStat.v 21; E2EPyCore.v 13; E2EPadding.v 8) as obligations.",
    note=COMMON_NOTE + "PARTIAL for completeness in binary32: the 8-bit pre-filter's conservativeness is C08's theorem (exact arithmetic; binary32 under disc's executable "
         "conditioning predicate: C02_concrete_scan_wc_checked; C02_concrete_scan, _explicit, _c08 carry the C08 hypothesis; known finding F14 outside it); "
         "striping/scoring/max kernels are taken by their specifications proved in C01/C04/C07 (equality with those groups' kernel models: coq/e2e, "
         "thorough tier). The skeleton translator also fires on order-only edits (remove(0), tie-break) that the property tolerates: reported as a broken "
         "tie, no failing input. Block sizes above 10^7 are compared with the word-level model only. Hand-written in the driver: `panic => PROPFAIL when "
         "pre_ok`, more-hits-than-cells, wording of details.",
    technique="Coq proof (induction over blocks, invariant on buffered hits; word-level usize model with checked/wrapping/saturating add) + translated statement "
              "skeleton of scan.rs (GenScan.v) with the property theorems restated for it + extracted-model correspondence check with extracted judges",
    design="DESIGN.md section 3, C02; as built: 8.5, 8.10 items 5, 6")
P["C03"] = dict(
    text="Coq theorems (coq/scan) about the model of Scanner::max: None iff no unconsumed position reaches the threshold; otherwise the result's "
         "score is the maximum over unconsumed positions and >= threshold, independent of block size and after any prefix of next() calls. 28 theorems: "
         "C03.v (11), C03Source.v (5 translation ties on the statement skeleton re-read from scan.rs; 13 single-field deviations of max() violate the "
         "property, 3 order/pruning-only ones do not), C03Total.v (12, review wave): max() returns from every state under layout hypotheses only "
         "(C03_max_total, C03_concrete_max_total); the binary32 scanner gives the same answer, position included, for any two arms and block sizes "
         "(C03_concrete_max_block_independent, _wc_checked without numeric hypothesis), observed on every case (maxb=, PROPFAIL "
         "max-depends-on-block-size by the extracted same_answer); word-level model after setters (C03_word_setters_max_eq, "
         "C03_source_setters_max_eq, witness C03_word_setters_max_any_block_size_refuted of the overflow repaired in /repo 3bcb63a); the skeleton scanner's "
         "statement with the tie-break conjunct (C03_source_concrete_max_wc_checked_full); judge check_swmax proved (C03_check_swmax_sound). Tie: "
         "extracted model and extracted skeleton scanner vs Scanner::max on generated near-tie cases, all arms, prefixes at block boundaries, setters "
         "between next() and max(); consumed hits compared by position AND score bits. Thorough tier adds the 72 composed statements of coq/e2e.",
    note=COMMON_NOTE + "Pruning soundness uses C08 (conservative 8-bit scores) and monotonicity of scale in exact arithmetic; C03_concrete_max, _explicit, _c08 carry "
         "that hypothesis (PARTIAL; known finding F14 outside disc's conditioning predicate, also for a block-size dependent answer with wc=false). There is no "
         "nat-level soundness theorem for max() after setters (judge check_swmax + tie + word/nat equalities).",
    technique="Coq proof (invariant over blocks and consumed prefixes; word-level usize model) + translated statement skeleton of scan.rs (GenScan.v) with the "
              "property theorems restated for it + extracted-model correspondence check with extracted judges",
    design="DESIGN.md section 3, C03; as built: 8.5, 8.10 item 5")
P["C04"] = dict(
    text="Coq theorems (coq/stripe/C04.v, 57): generic striping into a reused buffer yields the Striped layout (cell (r,c) = symbol c*R+r, wildcard "
         "past L) for every sequence, column count and old buffer; the AVX2 32x32 transpose network - regenerated from avx2.rs on every run - "
         "transposes (reflection), and stripe_avx2 = generic for all inputs; configure_wrap keeps the invariant (incl. wrap > rows); every history of "
         "stripe/configure operations keeps it (fold_left), from any stale start; indexing and symbol counts equal the linear sequence. Round 3: seq.rs "
         "(new / configure / configure_wrap / Index / count_symbol(s)), the provided Stripe::stripe / stripe_into of pli/mod.rs, StripedSequence::sample (as "
         "repaired by /repo 740d563) and 15 forwarding facts (From / Clone / Default / AsRef / getters) are TRANSLATED on every run (GenSeq.v, GenPli.v) and "
         "proved equal to the hand model (C04_seq_translated, C04_pli_translated, C04_sample_translated); stripe_into overwrites everything "
         "(C04_stripe_into_overwrites_everything); conversions (C04_conversions_history); states with arbitrary padding (StripedSequence::new: "
         "C04_pad_history) and the padding mode as a theorem (C04_mode_history: which checker decides after each op is extracted code); the repaired "
         "sample yields a Striped state (C04_sample_striped; C04_sample_prefix_striped_refuted for the old one); full checker incl. Index in the padding "
         "(= wildcard) and beyond the matrix (= panic) (C04_check_full_sound); generic-versus-AVX2 agreement decided by the extracted check_agree on the two "
         "printed states (C04_check_agree_sound). Tie: extracted model vs implementation on op histories (incl. clone, From<EncodedSequence>, via DenseMatrix, "
         "reused destinations of every pair class, 571 committed histories), every arm, cell by cell.",
    note=COMMON_NOTE + "Translators: translate/stripe_net.py (unpack!/load/store order of stripe_avx2), stripe_seq.py (seq.rs), stripe_pli.py (pli/mod.rs trait Stripe, "
         "sample, forwarding facts). Vec capacity, Debug and the distribution of sample() are not modelled; the NEON arm cannot be replayed on this host. "
         "Hand-written PROPFAIL paths: a panic of any op, `new` rejecting a matrix that holds the sequence / accepting a smaller one, rows() printed against the "
         "rows listed, is_empty()/as_ref() inconsistency flagged by the harness, sample-stream comparisons.",
    technique="Coq proof (layout invariant by induction over op histories, reflection on the translated transpose network) + three translators (transpose network, "
              "seq.rs, pli/mod.rs statement skeletons) + correspondence check with extracted checkers (check_C04_full / check_C04_pad / check_agree, mode selection extracted)",
    design="DESIGN.md section 3, C04; as built: 8.5")
P["C05"] = dict(
    text="Coq theorems (coq/encode/C05.v, 19): for DNA and protein, on every pipeline (generic, SSE2, AVX2, every dispatcher arm) and every "
         "byte string, encoding returns Ok of the symbol indices iff all bytes are alphabet letters and otherwise the error of the "
         "FIRST offending byte; SIMD kernels (block loop, error mask, rescan, scalar tail) equal the generic encoder whatever the "
         "uninitialised buffer held; display inverts encode; lower case and bytes >= 0x80 are rejected; encode_into in a window of a larger buffer "
         "(C05_encode_into_window); NEON kernel by translator and proof (C05_encode_neon_eq_generic). Alphabet tables, dispatcher "
         "arm table and kernel loop bounds are regenerated from abc.rs/dispatch.rs/avx2.rs/sse2.rs on every run and the 256-value "
         "sweeps re-checked. Tie: extracted model and proved-sound-and-complete checker vs implementation on generated byte strings.",
    note=COMMON_NOTE + "Translator: translate/encode_abc.py. NEON arm not compiled on this host: translator + proof only, never observed. from_str = encode(as_bytes) by "
         "transcription (checked textually); `display missing`, `display of a rejected text` and the table case are hand-written PROPFAIL paths of the driver. "
         "Unchanged by the review wave (verdict: faithful).",
    technique="Coq proof (induction on blocks + finite 256-byte sweeps lifted by forallb_forall) + translator + extracted-model correspondence check",
    design="DESIGN.md section 3, C05")
P["C06"] = dict(
    text="PARTIAL by nature - the footprint model is machine-checked (Coq, 45 + 36 theorems: coq/footprint/C06.v, C06b.v), the run-time VERDICT is the "
         "sanitizers'. Proved: for every unsafe kernel (AVX2/SSE2/NEON scoring, striping, encoding, max/argmax, dense-matrix constructors) the list of "
         "memory accesses (buffer, byte offset, width, alignment requirement) as a function of the sizes is inside the owned rows of the dense layout "
         "(C19) and aligned, under exactly the guards the safe wrappers establish; the guards as computed in usize (overflow panic in dev, wrap in "
         "release) agree with the modelled integer guards (fp_usize_guard_*, fp_score_kernels_safe_under_usize_guards); an invariant (rows <= capacity "
         "for the sequence and both score matrices, shape of the sequence matrix) is preserved along every API history and every access is inside the "
         "allocation as it is at that step (C06_histories_invariant_partial, _from_fresh_partial; C06_histories_partial is the invariant-free conjunction, "
         "C06_histories_allocation_partial the weaker corollary); every readable cell is covered by a write (fp_init_*); the Python buffer-view extents "
         "lie inside the owned rows (fp_py_*). Run: five child processes per generated public-API history - AddressSanitizer at opt-level 0 and "
         "--release, two opt-level 0 guard-page / canary children (end- and start-aligned), MemorySanitizer; every run-time PROPFAIL is hand-written "
         "matching of their verdict strings and of harness records (damaged canary, rows() > capacity(), symbol code >= K, from_rows exposing unwritten "
         "rows); the extracted check_C06 decides a PROPFAIL only in the static source-footprint path (NEON wrappers). Tie of model and implementation (DIFF): "
         "guards, strides, post-states (also after a panic), capacities, 750 pinned statements of 69 functions, source-derived access sets of the kernels.",
    note=COMMON_NOTE + "Not verified: allocator, compiler; reads of uninitialised memory are covered at model level (C06b.v part B) and dynamically by the MemorySanitizer "
         "child, except cells written only by non-temporal stores (invisible to ASan and MSan: reported as a broken tie, covered by guard pages / canaries). A "
         "check_C06 rejection of a model access is `DIFF model-access-outside-owned-rows` (was printed OK before the review). No footprint theorem for Scanner, "
         "Sampler, threshold, count_symbols, iterators, clone (safe code over the kernels: sanitizer children only). Allocation failure is outside the model.",
    technique="Coq proof of in-bounds/alignment of a footprint model, capacity invariant over histories, usize-guard model + AddressSanitizer / MemorySanitizer / "
              "guard-page-allocator children + pinned source text (translate/footprint_src.py) + source interpreter of the kernels' pointer arithmetic",
    design="DESIGN.md section 3, C06; as built: 8.5, 8.10 item 11")
P["C07"] = dict(
    text="Coq theorems (coq/maxi, 54 + 10): max is the greatest cell, argmax designates an in-range cell holding it, threshold returns exactly the cells "
         ">= t without duplicates, None on empty matrices (C07_empty_matrix_any_index: without hypothesis for every entry point except the SSE2 / AVX2 f32 "
         "arg-maximum, which panics as coded when max_index > u32::MAX); each AVX2/SSE2 kernel and every dispatcher arm equals its specification "
         "(C07_dispatch_unguarded_arms: the Generic f32 arm and the non-AVX2 u8 arms without row-count hypotheses). Order facts discharged for binary32 "
         "(Flocq) and u8. REUSED buffers: after every history of StripedScores::resize / DenseMatrix::resize and cell writes the default scans, offset and "
         "Index answer as on a fresh matrix of the logical rows, on every arm (C07_history_independent, C07_history_all_arms_f32/_u8; a grow-only resize "
         "is refuted). C07Source.v (10 translation ties: dispatcher / pipeline tables, permute2x128 operands, lane offsets, resize statements, Iter::new, "
         "default-scan loops, comparison predicates re-read by translate/maxi_tables.py). Review wave - the PADDING clause end to end: in the thorough tier "
         "the 8 statements of coq/e2e/E2EPadding.v compose it with C01: from a configured Striped sequence and a matrix with a -inf wildcard column all "
         "scoring backends return ONE matrix whose cells past max_index are -inf (C07_padding_scored: the cell formula is discharged, not assumed) and "
         "max / argmax / threshold of every arm designate valid positions (C07_padding_answers); the premise `padding holds the wildcard` is needed "
         "(C07_padding_needs_wildcard_padding); first sentence for every padded state (C07_first_sentence_padded). Tie: extracted model and checker vs "
         "implementation on generated f32/u8 matrices (16/32/48/64 columns), all arms, 30 % on a reused buffer, Scanner-pattern ranges, and 5 % `k=pad` "
         "cases: sequence from StripedSequence::sample / to_striped / StripedSequence::new on a hand-filled matrix, scored by three pipelines and three "
         "forced arms, judged by the extracted check_C07 and check_padding / check_padding_max.",
    note=COMMON_NOTE + "NEON kernels are not compiled on this host (the Arm dispatcher tables are translated and proved, never executed); score_rows_into steps inside a "
         "history are not modelled. The `k=pad` cases guard the repair /repo 740d563 (StripedSequence::sample left random symbols in the padding: reverting it gives "
         "PROPFAIL on 8 of 11 sampled corpus lines). Hand-written PROPFAIL paths next to the extracted checkers: a panic where the model has no guard, max disagrees "
         "with the generic max, offset out of range, scores[argmax] differs from the designated cell, the premise test deciding whether a hand-filled matrix is "
         "judged by the padding clause. No k=pad variant for u8, Protein or 16-/64-column layouts.",
    technique="Coq proof (total-preorder section instantiated for binary32/u8, lane-wise kernel models, buffer-history invariant; padding clause composed with C01 in "
              "coq/e2e) + translator of the dispatcher / lane / resize / comparison tables + extracted-model correspondence check incl. reused buffers and sampled sequences",
    design="DESIGN.md section 3, C07; as built: 8.5, 8.7")
P["C08"] = dict(
    text="Coq theorems (coq/disc/C08.v, 45) on a model whose discretisation functions and u8 kernels are regenerated from the source on every run (two "
         "translators) and replayed bit-exactly. Exact arithmetic (extended rationals): for every matrix with finite non-wildcard cells and every window the "
         "saturating 8-bit score is >= scale(real score); as the byte a backend writes: for ANY alphabet size and column count on the generic kernel "
         "(C08_generic_backend_overestimates), K <= 16 and 32 columns on the AVX2 kernel and the x86 dispatcher (C08_backends_overestimate), K <= 16 and 16q "
         "columns on the NEON kernel and the Arm-host dispatcher (C08_arm_hosts_overestimate); on ONE reused StripedScores<u8> buffer after any history through "
         "mixed pipelines (C08_scores_history, C08_history_overestimates); scale monotone, threshold transfer, unscale (C08_unscale_scale, "
         "C08_unscale_bounds_real), factor 0 iff every row constant (C08_factor_positive_iff_nonconstant); to_discrete total. Binary32 (Flocq): the consequence "
         "clause unconditionally (C08_scale_monotone_f32, C08_threshold_transfer_f32 for every factor to_discrete can produce: C08_factor_sign_clear); the main "
         "clause under the executable predicate well_conditioned plus two side conditions (at most 16384 rows, cond_A <= 2^126: the `_partial` theorems); false "
         "on ill-conditioned matrices (C08_ieee_refuted: known finding F14). Tie: skeleton-driven to_discrete / scale / unscale / score_position and the u8 "
         "kernels vs implementation bit for bit (DNA and protein, 16/32 columns, histories on reused buffers, families tiny / hugecell / cpg); proved-sound "
         "checkers first_bad / first_bad_impl on the implementation's own scores and scale images.",
    note=COMMON_NOTE + "Partial: the binary32 main clause is proved only under the conditioning predicate + side conditions; otherwise checked by the correspondence run. "
         "max_score / min_score are a hand model; unscale has no binary32 theorem; the buffer state after a panicked call is not modelled; NEON never executed. A missing "
         "observation is `DIFF property-not-checked:..`, legitimate skips are printed (`OK skipped=..`) and counted. Hand-written PROPFAIL: the backend-mismatch family "
         "(string comparison of two observed score matrices; an arm that panicked where the generic pipeline did not).",
    technique="Coq proof over exact rationals (ceil/floor/saturation lemmas) and Flocq binary32 + two source translators (translate/disc_u8.py, disc_skel.py) + extracted "
              "checkers on the implementation's own numbers + bit-exact replay incl. histories on one reused buffer",
    design="DESIGN.md section 3, C08; as built: 8.5, 8.10 item 9")
P["C09"] = dict(
    text="Coq theorems (coq/pwm: C09.v 40, C09Stat.v 26, C09Log.v 14 = 80): counts from sequences = occurrence counts (unequal lengths rejected); frequency rows "
         "sum to one and frequency/weight/log-odds cells have their defining form (exact arithmetic; C09_freq_cell_nonzero_total under the explicit hypothesis "
         "total <> 0, NaN at total 0 pinned: C09_freq_zero_total_is_nan_f32; binary32 error bounds with the finiteness hypotheses discharged: C09_freq_finite_f32); "
         "one-step and two-step conversions perform the same operations (any number type, so for IEEE as is; compared bit for bit); rescale; every window score "
         "lies between min_score and max_score; Background::new / FrequencyMatrix::new accept exactly the documented inputs. Review wave (C09Log.v): `the score is the "
         "logarithm of the weight` has formal content - every observed score cell is checked against the REAL logarithm ln w / ln base (2^-20 relative) by an "
         "extracted interval-arithmetic checker proved sound (coq-interval; C09_score_cell_real_sound), no oracle in that verdict; the model's cells are logarithms "
         "for any functions validated on the arguments (C09_score_is_logarithm; closed instance for the table-sampled functions C09_score_is_logarithm_table), "
         "general-base quotient within 2^-18 + 2^-150 (C09_score_general_base_error), flog2 0 = -inf derived (C09_neg_inf_at_zero_validated); soundness lemmas "
         "for every checker (C09_freq_checker_sound, C09_close_checkers_sound, C09_judged_cells_sound); the judged domain of the frequency clause is a function "
         "of the input and comparisons not made are named by extracted *_skipped functions and counted per case. C09Stat.v: Correlation::*, "
         "CountMatrix::{new, entropy, consensus}, both information_content functions modelled as coded and specified over the reals; statement skeletons "
         "regenerated (translate/pwm_skel.py; C09_source_skeleton, the one translation tie). Tie: bit-exact binary32 model vs implementation; the libm oracle "
         "table only feeds the replay and is itself validated entry by entry by the extracted log_pair_ok. Thorough tier adds the 21 composed statements of "
         "coq/e2e/E2EStat.v.",
    note=COMMON_NOTE + "log2/log10/ln are parameters of the model; that they are logarithms (2^-20 relative, IEEE conventions) is validated for every table argument on every "
         "run by a sound extracted checker; that libm meets the bound for ALL arguments is sampled, not proved; bases NaN / inf / <= 0 / 1 are judged against the oracle value "
         "only; the 2^x table is still validated by hand-written double-precision code (DIFF path). The ONE `Extract Constant` of the development is here: "
         "coq/pwm/Extract.v realises ClassicalDedekindReals.sig_forall_dec by a function that raises (dead code of the Interval library; a call would abort the "
         "driver = DIFF, never a verdict). Hand-written PROPFAIL: panics of calls that must not panic, shape mismatches, guards of the stat checks. Documented, not "
         "violations of C09 as worded (DESIGN 8.3 R3-1..R3-5): WeightMatrix::information_content on the odds ratio, u32 row sums in entropy/consensus, "
         "CountMatrix::new never rejects, consensus keeps the last maximum, usize overflow of from_counts.",
    technique="Coq proof (exact rationals, reals for the statistics functions, number-type-generic operation equality, Flocq binary32 error bounds, verified interval "
              "arithmetic (coq-interval) for the logarithm clause) + translators (complement table, statement skeletons of pwm/mod.rs) + bit-exact correspondence check",
    design="DESIGN.md section 3, C09; as built: 8.5, 8.10 item 12")
P["C10"] = dict(
    text="Coq theorems (coq/pwm/C10.v, 20): the complement table (regenerated from abc.rs) is an involution; reverse complement is reversal "
         "plus complement and an involution on all four matrix kinds; it commutes with count->frequency->weight->scoring conversion under "
         "a strand-symmetric background - every scalar pseudocount is strand-symmetric, so no further hypothesis (C10_pseudo_scalar_symmetric, "
         "C10_revcomp_commutes_scalar_pseudo); scores of the reverse-complemented matrix on the reverse-complemented sequence mirror the "
         "original scores (terms exactly reversed; binary32 bound C10_revcomp_mirrors_scores_f32); what the passing commutation / mirror checks state "
         "(C10_commutation_check_sound, C10_check_mirror_sound2); overflow of one summation order only is legitimate (C10_mirror_overflow_example): such "
         "cases are counted, not judged. Tie: bit-exact model vs implementation on all widths incl. the wildcard column.",
    note=COMMON_NOTE + "Translator: complement table from abc.rs; the translate step also regenerates the pwm statement skeletons (GenPwmSkel.v) used by C09. Commutation is "
         "exact-arithmetic; the binary32 composite commutation count -> weight / score is CHECKED (1e-6 / 1e-5), not proved (only count -> frequency: "
         "C10_revcomp_commutes_to_freq_f32); a per-symbol pseudocount vector must be strand-symmetric itself. Background / sequence count unchanged by "
         "reverse_complement is decided by driver code over extracted comparisons. Same extracted binary as C09 (its Extract Constant is never on a C10 path).",
    technique="Coq proof (list reversal/permutation lemmas, finite sweep of the translated complement table) + translator + correspondence check",
    design="DESIGN.md section 3, C10")
P["C11"] = dict(
    text="Coq theorems (coq/dist/C11.v, 51) about the model of ScoreDistribution (dist.rs): the tabulated pdf is the exact distribution of the discretised "
         "score (induction on rows; literal sum over all K^M words), discretisation error bound, p-value brackets of the exact tail (d = (M+1)/2 steps: "
         "C11_pvalue_brackets_tight; the text's integer d: C11_pvalue_brackets_integer_d), monotonicity, score/p-value round trip, no word is lost "
         "(C11_no_word_lost), best word / min_pvalue; refuted-lemma with witness for the recorded known finding (f32 unscale). Binary64 ITSELF (Flocq), with NO "
         "hypothesis on the pdf since the review wave: every entry of the binary64 pdf is finite and >= 0 and the table non-increasing, in [0,1], finite for any "
         "background of finite doubles in [0,1] and c*M <= 1023 (C11_pdf_binary64, C11_table_binary64: M <= 341 DNA, 204 protein); p-values monotone for all "
         "doubles under hypotheses on the INPUTS only (C11_pvalue_monotone_binary64_f32: every NaN-free f32 matrix except constant ones with |cell| > 2^52, for "
         "which the claim is false - corpus x1 - and which fall back to C11_pvalue_monotone_binary64_built under the per-case evaluated scale predicate). "
         "Matrices without any finite cell (M = 0, only -inf) are outside the property and panic in the core constructor (C11_no_finite_cell_panics, "
         "C11_empty_matrix_panics; replayed). The bracket checker cannot fail open (check_C11_strict_fails: kind 8 = DIFF; C11_bracket_always_judged); a grid "
         "checker with one entry per distinct score proved equal to the word-table checker so that widths <= 48 are bracket-checked. CDF_RANGE and the statement "
         "skeleton of dist.rs re-read on every run (translate/dist_skel.py; C11_source_skeleton). Tie: bit-exact binary64 model of the table, pvalue, score, "
         "scale, unscale vs implementation; exact tails by enumeration or on the score grid; a per-case log of what each verdict rests on is summed into the "
         "evidence notes. Thorough tier adds the 21 composed statements of coq/e2e/E2EStat.v.",
    note=COMMON_NOTE + "Partial: bracket / round-trip theorems are exact-arithmetic + bit-exact replay; rounding of the f64 convolution itself is modelled, not bounded (checker "
         "tolerance 2^-30 relative; the round-trip tolerance branch is weaker than C11_roundtrip_binary64). Known finding: f32 unscale inexact for narrow ranges on large "
         "offsets (C11-unscale-inexact). Robustness remark, not a violation: to_score_distribution panics on matrices without a finite cell (lightmotif-py refuses them "
         "since /repo a1b1f91). Hand-written PROPFAIL: panics inside the domain (build / pvalue / score / sample).",
    technique="Coq proof (induction on matrix rows over exact rationals; Flocq binary64 for the pdf / table / monotonicity instances) + translated statement skeleton of dist.rs + "
              "bit-exact binary64 correspondence check with an extracted, proved-sound strict bracket checker",
    design="DESIGN.md section 3, C11; as built: 8.5, 8.10 item 13")
P["C12"] = dict(
    text="Coq theorems (coq/tfm: C12.v 14, C12Ext.v 19, C12Ext2.v 17, + C12Gen.v 2 translation ties = 52) about the model of TFM-PVALUE (lightmotif-tfmpvalue): "
         "integer-score error bound, the dynamic-programming table is the exact distribution of the integer score, lookup_pvalue brackets the exact tail "
         "probabilities within the stated granularity error, ranges ordered in [0,1]; no-overflow of the i64 geometry under a stated bound, the hash-map visiting "
         "order proved irrelevant in exact arithmetic, backgrounds with wildcard mass; 22 constants / loop bounds / comparison operators of lib.rs regenerated on "
         "every run (translate/tfm_const.py -> GenTfm.v). Review wave (C12Ext2.v): TOTALITY - on the property's domain only the i64 overflow sites are reachable at "
         "all and under the closed bound every next() returns an Iteration (C12_step_panic_sites, C12_pvalue_step_total, C12_pvalue_run_total, "
         "C12_pvalue_step_total_f64; any instance of the numbers); termination and a returned value for dyadic matrices / queries incl. exactly attainable ones "
         "(C12_run_converges_dyadic, C12_pvalue_returns_dyadic); the final value tied to its own granularity (C12_pvalue_final); binary64 tables NaN-free for "
         "strictly positive backgrounds (C12_range_in_unit_interval_f64_positive_bg); the checker's reference rows are extracted and specified "
         "(C12_reference_rows / _skips). Tie: the private state is read through verif-hooks accessors (/repo 86badd0) and the binary64 model is replayed in the "
         "hash-map iteration order the implementation reports: integer geometry, every Q-value row, ranges, converged and pvalue() compared bit for bit on every "
         "iteration; exact tails by enumeration / convolution. Thorough tier adds the 21 composed statements of coq/e2e/E2EStat.v.",
    note=COMMON_NOTE + "Partial: the five inequalities are theorems of the exact-rational instance; binary64 rounding of x/g, score/g and the sums is replayed bit for bit, "
         "not bounded (only steps with more than 6000 table entries fall back to a 1e-9 relative comparison); NaN-freedom with zero frequencies / wildcard mass stays a "
         "premise; non-convergence without integrality is a theorem (C12_tie_never_converges). Known findings: F35 huge-cell / huge-score (|x|/g >= 2^52: integer "
         "rescaling inexact in binary64; >= 2^63: i64 overflow, panic in debug / wrong converged value in release) and wildcard mass with a finite wildcard cell. "
         "Hand-written PROPFAIL: implementation panics, non-finite reported ranges / final values; the granularity at which the final value is judged.",
    technique="Coq proof (induction on rows over exact rationals; order-parameterised model; totality and dyadic-termination theorems; Flocq binary64 for the range / no-overflow / "
              "totality instances) + translator of the constants of lib.rs + bit-exact correspondence check in the reported hash-map order (verif-hooks accessors)",
    design="DESIGN.md section 3, C12; as built: 8.5, 8.10 item 4")
P["C13"] = dict(
    text="Coq theorems (coq/tfm: C13.v 16, C13Ext.v 13, C13Ext2.v 18, + C12Gen.v 2 translation ties = 49): for every iteration of approximate_score from its initial "
         "window the returned score brackets the exact tail (C13_approximate_score_bounds, no window hypothesis: window adequacy is a proved invariant since /repo "
         "6b0495b), lookup_score soundness, panic-site reachability, any hash-map visiting order, wildcard mass (p <= (1-b_N)^M). Review wave (C13Ext2.v): totality "
         "along approximate_score under a closed i64 bound kept by a window invariant (C13_step_panic_sites, C13_approximate_score_total, C13_run_no_overflow, "
         "C13_score_step_total_or_31(_f64)); convergence for integral granularities, dyadic matrices and M = 2 (C13_converged_if_integral, "
         "C13_score_returns_dyadic, C13_converged_two_rows) while termination under a mere separation hypothesis is REFUTED (C13_tie_never_converges); the final "
         "score tied to its iteration and granularity (C13_score_final, C13_score_value_final); the `Hence` sentence in the two-sided form that follows from the "
         "clauses (C13_threshold_sandwich, C13_score_hence); reference rows extracted (C13_reference_rows). Tie: as C12 (hooks, replay in the reported hash-map "
         "order, bit for bit) on every refinement step of approximate_score and the final score(). Thorough tier adds the 21 composed statements of E2EStat.v.",
    note=COMMON_NOTE + "Partial: see C12 (exact rationals for the probabilities; known findings F35 huge-cell and wildcard mass with a finite wildcard cell). A strict reading of "
         "clause 2 (`smallest score whose exact p-value does not exceed p`) does not follow from the property's own clauses.",
    technique="Coq proof (exact rationals, window-adequacy invariant; order-parameterised model; totality and dyadic-termination theorems) + translator of the constants of lib.rs + "
              "bit-exact correspondence check in the reported hash-map order (verif-hooks accessors)",
    design="DESIGN.md section 3, C13; as built: 8.5, 8.10 item 4")
P["C14"] = dict(
    text="Coq theorems (coq/io C14io.v 25, coq/transfac C14.v 21): std read_until/read_line over a list of chunks is independent of the chunking (induction on the "
         "chunk list); for each format every well-formed record list printed and read back under every chunking yields exactly those records then End - and End "
         "again at every further request (reader_roundtrip_polls_*, TRANSFAC reader_roundtrip_post). JASPAR / JASPAR 2016 round trips are proved for a GENERAL "
         "layout with its own blank string before every count and trailing blanks after a bare identifier (reader_roundtrip_jaspar_general / _jaspar16_general; "
         "right-aligned real files are instances; the one-separator style is a special case); for all three io formats and ANY input every request's outcome is "
         "independent of the chunking (reader_polls_chunk_independent_*). The six bundled files are recognised as instances of the extracted printers (an "
         "untrusted recogniser proposes layout and records, the extracted printer must re-print the file byte for byte and the extracted wf accept it) and the "
         "readers are judged by the extracted check_c14 against the records WRITTEN in them. TRANSFAC: Record::to_freq modelled; the chunking clause and the "
         "record count are decided by extracted checkers (check_same_chunkings, check_count: sound and complete); a stream is a partition of the bytes "
         "(empty_chunks_are_not_deliveries). Tie: extracted reader models vs the four readers on generated files and the bundled data bases through many "
         "BufReader capacities, random chunkings and an Interrupted-only chunking. Translators: translate/io_abc.py, io_reader.py, transfac_reader.py.",
    note=COMMON_NOTE + "TRANSFAC: decimal->f32 is NOT trusted to Rust (Dec2F32.f32_of_token, exact, compared bit for bit with str::parse::<f32>); nom combinators are modelled by hand. "
         "Outside the round-trip theorems (documented): UniPROBE last column line without final newline (accepted by the code since /repo 2d8f0f6, modelled), JASPAR `>` in a "
         "description, blank lines between records, trailing blanks on a raw count line (each an Err); TRANSFAC RT/RL/RN/DT lines with other blanks. Observation O-IO1 "
         "(truncated JASPAR16 record after an I/O error mid-record) violates neither C14 nor C15 as stated.",
    technique="Coq proof (induction over chunk lists and record lists, print/parse round trip for a per-token layout) + translators of the reader constants / skeletons + "
              "extracted-model correspondence check (all chunkings, polling consumer; untrusted recogniser validated by the extracted printer for bundled files; extracted "
              "checkers also for the chunking clause and the record count)",
    design="DESIGN.md section 3, C14; as built: 8.5, 8.10 item 3")
P["C15"] = dict(
    text="Coq theorems (coq/io C15io.v 42, coq/transfac C15.v 43 = 27 property + 7 instantiated with generated constants + 9 translation ties): for every byte "
         "list and every chunking each reader returns Record | Error | End - never Panic, never out of fuel - and consuming until the first error terminates. "
         "Both groups: a POLLING consumer (next() called again any number of times after an error or the end: reader_polls_total*, reader_end_is_final*) and "
         "streams whose fill_buf FAILS or is interrupted (event streams; reader_total_faults_*; Interrupted is invisible: reader_interrupted_invisible_*; capacity "
         "independence of the JASPAR readers). TRANSFAC: the reader model assigns `last = buffer.len()` like the source (fault_free_agree_any: without faults both "
         "assignments are the same function; reader_model_last_is_source_last re-checked on every run); transient ends of input (an empty fill_buf slice although "
         "data follows) are fault events. Static facts regenerated on every run: the statement skeleton of the three io Iterator::next and header literals "
         "(GenIoReader.v, reader_skeleton_is_modelled); every parse.rs uses complete nom combinators only, so the `unreachable!()` on nom Incomplete cannot be "
         "reached (io_parsers_are_complete; transfac parsers_are_complete, parse_streaming_is_modelled, error_from_incomplete_is_generated). Tie: outcome sequences "
         "of the extracted models vs the readers on mutated/truncated/random/UTF-8-damaged inputs (7 kinds of invalid UTF-8 at every offset) under catch_unwind, "
         "with polls after the first non-record outcome and scripted I/O fault streams (this found the defects repaired in /repo 23feb61 and df3a2dd).",
    note=COMMON_NOTE + "Fault-stream theorems exist for both groups. Allocation failure (DenseMatrix::new(rows) with rows from the input) and panics inside nom/std are not modelled; "
         "f32::from_str is assumed Ok on every token nom's float recogniser accepts. reader_end_is_final holds for plain byte strings (false with transient ends of input). "
         "Hand-written PROPFAIL: the harness watchdog (hang); transfac: none decides a verdict. Documented observations: O-IO1 (truncated JASPAR16 record after an I/O "
         "error mid-record), sticky JASPAR parse errors.",
    technique="Coq proof (totality + termination measure on unread bytes / line feeds + fault events, invariant on the line offset) + translators (reader skeletons, the `last` "
              "update, the streaming-combinator list of every parse.rs, the Incomplete arm of error.rs) + extracted-model correspondence check with a polling consumer and I/O fault scripts",
    design="DESIGN.md section 3, C15; as built: 8.5, 8.10 items 7, 8")
P["C16"] = dict(
    text="Coq theorems (coq/sampler: C16.v 19 + C16F.v 28 = 47 property theorems; SamplerSkel.v 17 translation ties; 64 obligations): for every data set meeting "
         "the constructor's guards and every choice list, by induction over steps, the motif counts equal the window counts of the active sequences at their "
         "starts, the background counts equal the remaining symbol counts, starts stay in range, no underflow; float-driven step function on Flocq (WeightedIndex "
         "never returns a zero-weight or out-of-range position, Zoops decision = information-content comparison). Review wave: DETERMINISM as a theorem about the "
         "sampler as a function of the generator's word stream - rand 0.8.8's integer and float sampling (Uniform<usize>, gen_index, index::sample Floyd / in-place, "
         "one u64 per WeightedIndex draw) is modelled (SamplerStream.v) and C16F.sampler_deterministic / initial_starts_deterministic say the trace and the initial "
         "starts depend only on the words consumed; closed no-panic theorems for Oops on the choice list and on every word stream (sampler_no_panic_oops, "
         "sampler_no_panic_oops_stream_closed: Ok, or the documented weight-overflow panic 8, or the stream ends); the exception cannot be dropped "
         "(sampler_no_panic_oops_unconditional_refuted; real input: corpus p16); the fuel of Uniform::new's scale loop proved sufficient "
         "(uniform_scale_fuel_suffices); index::sample yields a valid seed set (seed_set_from_stream_valid); sampler_inv_stream_closed. SamplerSkel.v: the "
         "statement lists of sampler.rs regenerated on every run (translate/sampler_skel.py) interpreted = the hand model. Tie: hook verif_starts; the harness "
         "records every word the generator hands out; the driver recomputes initial starts, Zoops seed order and the hold-out of EVERY call from them; first "
         "20/40 calls through the float model; an implementation panic is accepted only at a documented site whose message class matches.",
    note=COMMON_NOTE + "Hook: Sampler::verif_starts() (feature verif-hooks). Checked, not proved: rand's bit generator (StdRng = ChaCha12: seed -> words) and that the implementation "
         "draws from nothing but its generator (rerun = same trace). libm enters as re-validated oracle tables; only weights_support_partial is proved (not its converse); "
         "index::sample modelled for length < 500000 and amount < 163. Documented observation: the weight-overflow panic (site 8) is reachable on real data inside C16's "
         "quantifier as written (corpus p16) - the clause about the reported state holds up to it. Hand-written PROPFAIL (stricter than check_C16): nondeterministic-trace, "
         "index-range observations, the table of panic message classes.",
    technique="Coq proof (state invariant by induction over operation/choice lists; word-stream model of rand 0.8.8; Flocq binary64 for the weighted draw; fuel sufficiency) + "
              "translated statement lists of sampler.rs proved equal to the model + extracted-model correspondence check (word-stream replay on every call, float replay)",
    design="DESIGN.md section 3, C16; as built: 8.5, 8.10 item 15")
P["C17"] = dict(
    text="PARTIAL. Coq theorems (coq/pyglue/C17.v, 68; + 13 composed in coq/e2e/E2EPyCore.v, thorough tier) about a model of the PyO3 glue (argument handling, "
         "dispatch, conversions) parameterised over the core operations: each entry point passes exactly the right arguments to the core operation and returns its "
         "result; invalid arguments raise exceptions; lazy scanners over the LIVE sequence agree with the eager reading; faulty file objects: that very exception is "
         "raised; signatures, match arms and every new_err site regenerated from lib.rs / io.rs / pyfile.rs on every run (translate/pyglue_sig.py). Review wave: the "
         "no-panic theorems assume GUARDED totality of the core (core_guarded: each operation total exactly under the precondition the glue establishes; every guard "
         "shown necessary: py_no_panic_needs_every_guard_refuted) instead of the unsatisfiable unconditional totality; the core record is INSTANTIATED with the C04 / "
         "C01 / C02 models in coq/e2e (core_of_models): the five history hypotheses and scan_stable discharged without numeric hypothesis "
         "(pycore_history_depends_on_text_only, pycore_scanner_lazy_eq_eager), calculate = C01's score_def at every position (pycore_calculate_is_C01), scan = "
         "exactly C02's hit set (pycore_scan_is_C02); scanner-hit and iteration-item verdicts by extracted proved checkers (check_hits sound and complete, "
         "check_items); float(int) bound corrected to 2^1024 - 2^970. Tie: embedded CPython drives the freshly built module, the core library is called in the same "
         "process, results compared bit for bit; histories incl. threads, generator arguments, faulty file objects; every case in a child interpreter.",
    note=COMMON_NOTE + "CPython 3.11 and PyO3 0.22 run-time are trusted. The link from Python results to the C07 / C09-C14 definitions is by two test chains (Python = Rust core here; "
         "Rust core = Coq model in the owning property's check), not by a Coq instantiation; `st_typed` (alphabet labels agree with values) and `rest_total` (guarded totality of "
         "the 20 operations not instantiated) remain hypotheses of pycore_call_no_panic_partial; the instance is tied to the implementation by one captured example "
         "(pycore_readme_matches_python) plus the checks of C01 / C02 / C04. Hand-written in the driver: PanicException / abort / hang => PROPFAIL, the `mt` (thread) verdict "
         "(decided by the worker: concurrent == sequential), value rendering, the window of a continued iteration. Known finding left: F25 (tfmpvalue with "
         "|score|/granularity beyond i64: the core overflows, tfm F35).",
    technique="Gallina model of the PyO3 glue over an abstract core record with guarded-totality theorems; core record instantiated with the stripe / score / scan models in coq/e2e; "
              "translator of signatures / match arms / exception sites; in-process differential check Python vs Rust core through extracted checkers (check_C17 / check_hits / check_items)",
    design="DESIGN.md section 3, C17; as built: 8.5, 8.7, 8.10 items 1, 2")
P["C18"] = dict(
    text="Coq theorems (coq/pyidx/C18.v, 22): __getitem__ of every class returns the element for -len <= i < len and IndexError otherwise, never a panic, for every "
         "integer index; len is the logical length; for every buffer-exporting class the address of view element [i][j] is the address of the logical element in the "
         "padded dense layout (C19), inside the allocation, never padding; item format matches; buffer requests with every flag word; class/slot table, "
         "DEFAULT_EXTRA_ROWS, row alignment, lanes and the __getbuffer__ guards regenerated from lib.rs (translate/pyidx_slots.py; C18_model_matches_source). Review "
         "wave: the rows*32 - len() cells a StripedScores view shows beyond len() are NAMED (scores of windows running into the wildcard continuation; compared on "
         "every run: C18_scores_view_cells_named); views still exported while the sequence is reused read the logical symbols while the reuse stays within the "
         "capacity (C18_stale_view_reads_logical_within_capacity, C18_descriptor_is_history_independent; beyond it: known finding F24, C18_stale_view_refuted); "
         "the allocation verdict by the extracted check_alloc (C18_check_alloc_sound_complete). Tie: embedded CPython, all indices and full views compared, views "
         "kept exported across reconfigurations and re-observed.",
    note=COMMON_NOTE + "CPython 3.11 and PyO3 0.22 run-time are trusted. Single-threaded export assumed (the 2-D __getbuffer__ take PyRefMut); StripedSequence and ScoreDistribution "
         "define no __len__ / __getitem__ (index clause vacuous for them). The F24 probe runs in a sub-process and its verdict is hand-written in props/c18.py; the reference "
         "contents are computed by the Python driver. Known finding: F24 (stale view after a calculate() needing more look-ahead rows than the spare capacity).",
    technique="Coq proof (index normalisation, stride arithmetic on the dense layout, offset-level view model) + translator of the slot tables and constants + extracted-model "
              "correspondence check through CPython with extracted check_C18 / check_alloc",
    design="DESIGN.md section 3, C18; as built: 8.5")
P["C19"] = dict(
    text="Coq theorems (coq/dense/C19.v, 28): stride/alignment arithmetic, refinement of the storage model (rows with arbitrary padding, flat ravel view) "
         "to a rows x columns table for every operation and, by induction on the operation list, every operation sequence; resize (incl. C19_shrink_then_grow) / "
         "clone / eq / fill / iteration consequences. Review wave: EVERY PROPFAIL is `check_C19 = false` for the extracted checker proved sound and complete for "
         "trace_ok, which now includes the positional iterator calls (next / next_back / nth / nth_back / skip / step_by / last / count with len() after each: "
         "check_steps, C19_check_steps_sound_complete), observer panics (C19_check_rejects_observer_panic), the address of every row (alignment decided in Coq "
         "from raw addresses; derived in the struct-level model for every aligned base: C19_struct_model_meets_spec, C19_alignment_needs_the_rounding) and "
         "== / != as an arbitrary element relation next to the identity of cell values (f32 NaN / -0.0 / infinities generated: "
         "C19_f32_eq_is_partial_equivalence, C19_check_extracted_instance_f32); repr(align) 32/16 and stride() read from dense.rs on every run "
         "(translate/dense_layout.py; C19_model_matches_source). Tied to dense.rs by a correspondence check of the extracted model against DenseMatrix on random "
         "operation sequences over a register file of three matrices for 4 element types x 7 column counts + 309 directed corpus cases.",
    note=COMMON_NOTE + "Rust's repr(align) size rule and the allocator returning align-aligned buffers are assumptions (the buffer address is universally quantified over the "
         "multiples of the alignment). ravel consistency and the uniform flag after fill() are booleans computed by the harness; f32 == agrees with Flocq's comparison on a "
         "grid of codes only; only the x86_64 alignment is exercised.",
    technique="Coq proof (induction over op sequences and over iterator call lists, refinement) + sound and complete extracted checker for the whole observation trace + "
              "struct-level model as DIFF tie + translator of the layout constants",
    design="DESIGN.md section 3, C19; as built: 8.5, 8.10 item 14")

# properties whose check is registered (edit as groups are integrated)
CLAIMED = ["C%02d" % i for i in range(1, 20)]

PENDING_REASON = ("check not yet registered in this round: the model group is still being completed (plan in DESIGN.md "
                  "section 3; not a claim that the technique cannot apply)")

ENGINE_PROPS = sorted(CLAIMED)


def hook_commits():
    try:
        out = subprocess.check_output(["git", "-C", "/repo", "log", "--format=%h %s"], text=True)
        return [l.split()[0] for l in out.splitlines() if l.split(" ", 1)[-1].startswith("verif-hooks:")]
    except Exception:
        return ["86badd0", "a26a4d5", "d771cee"]


def main():
    ids = ["C%02d" % i for i in range(1, 20)]
    m = {
        "version": 1,
        "setup_cmd": "./check setup",
        "hooks": {
            "guard": "cargo feature `verif-hooks` of the crates lightmotif and lightmotif-tfmpvalue (off by default)",
            "enable": "the harness crates /verif/harness and /verif/pyharness depend on lightmotif with features=[\"verif-hooks\"] "
                      "(path dependency on /repo/lightmotif, rebuilt from the working tree by every check)",
            "baseline_off_cmd": "cd /repo && cargo test --workspace --no-fail-fast --offline",
            "source_commits": hook_commits(),
            "add_only": True,
        },
        "engines": [
            {"name": "coq", "path": "coq/", "serves_properties": ENGINE_PROPS,
             "kind_free_text": "Coq 8.16.1 developments: coq/base (shared), one directory per model group with Model/Proofs/Extract files; "
                               "property theorems in coq/<group>/Cnn.v; Gen*.v regenerated from /repo by translate/; coq/e2e composes the groups end to end (`./check e2e`, 72 statements: E2E.v 30, E2EStat.v 21 = obligations of C09/C11/C12/C13, E2EPyCore.v 13 = obligations of C17, E2EPadding.v 8 = obligations of C07, all four = obligations of C02/C03, each in the thorough tier); libraries: Flocq 4.1, coq-interval (group pwm only)"},
            {"name": "harness", "path": "harness/", "serves_properties": ENGINE_PROPS,
             "kind_free_text": "Rust crate with path dependencies on /repo (hooks on): generators and implementation drivers, one binary per model group"},
            {"name": "drivers", "path": "ocaml/", "serves_properties": ENGINE_PROPS,
             "kind_free_text": "OCaml drivers around the models extracted from Coq (ExtrOcamlBasic only): correspondence check and extracted, proved-sound property checkers; what each driver still decides by hand is listed in the SPEC trusted_base"},
        ],
        "checks": [],
        "notes": "Technique: machine-checked proof in Coq 8.16.1 about hand-written Gallina models, tied to /repo on every run by a "
                 "correspondence (differential) check of the extracted models against the implementation, and by translators for table-like "
                 "parts of the source (tables, constants, loop bounds, statement skeletons: translate/*.py -> coq/<group>/Gen*.v, regenerated on every run; "
                 "a source a translator cannot parse is a broken obligation). When the source differs from the pinned fingerprints (pins/source.json) the quick "
                 "tier escalates its search (DESIGN.md 8.8); the statements of the property theorems are pinned (pins/theorems.json). An independent review of the "
                 "audited statements (notes/review-round3.md) was acted on: DESIGN.md 8.10. See DESIGN.md section 8 for the state as built.",
        "not_applicable": [],
    }
    for i in ids:
        if i in CLAIMED:
            p = P[i]
            m["checks"].append({
                "property_id": i,
                "quick_cmd": "./check %s --tier quick" % i,
                "thorough_cmd": "./check %s --tier thorough" % i,
                "evidence_file": "evidence/%s.json" % i,
                "replay_cmd_template": "./check %s --replay {path}" % i,
                "engine": "coq",
                "level_claimed": {"category": "proof", "text": p["text"], "design_ref": p["design"]},
                "level_note": p["note"],
                "technique": p["technique"],
            })
        else:
            m["not_applicable"].append({"property_id": i, "reason": PENDING_REASON})
    json.dump(m, open(os.path.join(VERIF, "MANIFEST.json"), "w"), indent=1)
    print("claimed:", " ".join(CLAIMED))


if __name__ == "__main__":
    main()
