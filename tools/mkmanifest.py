#!/usr/bin/env python3
"""Regenerates /verif/MANIFEST.json from the table below (edit the table, run this).
CLAIMED lists the properties whose check is registered; every other property goes to
not_applicable with its reason from PENDING."""
import json
import os
import subprocess

VERIF = os.path.dirname(os.path.dirname(os.path.abspath(__file__)))

COMMON_NOTE = ("Trusted: Coq 8.16.1 kernel (vm_compute used for finite sweeps/witnesses, no native_compute), "
               "ExtrOcamlBasic extraction + OCaml 4.13.1, the hand-written OCaml driver and Rust harness "
               "(generator, canonicalisation), the lane-wise semantics given to x86 intrinsics. The Rust code is "
               "modelled by hand (no verified Rust->Gallina path exists here); the model is tied to /repo's working "
               "tree on every run by the correspondence check (and by the translator where one is named). ")

P = {}

P["C01"] = dict(
    text="Coq theorems (coq/score/C01.v) about a model following pli/mod.rs, avx2.rs, sse2.rs, dispatch.rs and scores.rs: "
         "every cell of every backend's score matrix is the left fold of the code's own addition over the M looked-up "
         "terms (any element type, any addition - hence IEEE addition as it is), unstripe yields exactly L-M+1 values "
         "(none when L<M), row sub-ranges equal the rows of the full scan, AVX2 permute/gather, SSE2 and every dispatcher "
         "arm equal the generic kernel, -inf absorption for binary32 (Flocq). The AVX2 shuffle masks / lane un-permutation "
         "are regenerated from avx2.rs by a translator on every run. Tie: extracted model vs implementation, bit-exact "
         "binary32, DNA/protein, 16/32 columns, all arms, sub-ranges.",
    note=COMMON_NOTE + "Floating-point summation error bound vs the exact sum: see evidence (partial where not proved).",
    technique="Coq proof (induction over rows/positions, reflection on translated lane tables) + translator + extracted-model correspondence check",
    design="DESIGN.md section 3, C01")
P["C02"] = dict(
    text="Coq theorems (coq/scan/C02.v) about a line-by-line model of Scanner::next (scan.rs): soundness (every hit is a valid "
         "position with its defined score >= threshold, no duplicates), completeness (the yielded multiset is exactly the "
         "positions at or above the threshold) for every block size, sequence length (incl. L<M, L=0, rows a multiple of the "
         "block size) and threshold, no panic, termination; by induction over blocks. Tie: extracted model vs Scanner on "
         "generated scans (bit-exact hits, all arms, take(k) prefixes). Thorough tier adds the 30 end-to-end composition theorems of coq/e2e (text -> encode -> stripe -> configure -> Scanner, bridges between the groups' models) as obligations.",
    note=COMMON_NOTE + "The 8-bit pre-filter's conservativeness is C08's theorem (exact arithmetic); striping/scoring/max kernels are taken by their specifications proved in C01/C04/C07.",
    technique="Coq proof (induction over blocks, invariant on buffered hits) + extracted-model correspondence check",
    design="DESIGN.md section 3, C02")
P["C03"] = dict(
    text="Coq theorems (coq/scan/C03.v) about the model of Scanner::max: None iff no unconsumed position reaches the threshold; "
         "otherwise the result's score is the maximum over unconsumed positions and >= threshold, independent of block size and "
         "after any prefix of next() calls. Tie: extracted model vs Scanner::max on generated near-tie cases, all arms.",
    note=COMMON_NOTE + "Pruning soundness uses C08 (conservative 8-bit scores) and monotonicity of scale in exact arithmetic.",
    technique="Coq proof (invariant over blocks and consumed prefixes) + extracted-model correspondence check",
    design="DESIGN.md section 3, C03")
P["C04"] = dict(
    text="Coq theorems (coq/stripe/C04.v): generic striping into a reused buffer yields the Striped layout (cell (r,c) = symbol c*R+r, "
         "wildcard past L) for every sequence, column count and old buffer; the AVX2 32x32 transpose network - regenerated from "
         "avx2.rs on every run - transposes (reflection), and stripe_avx2 = generic for all inputs; configure_wrap keeps the "
         "invariant (incl. wrap > rows); every history of stripe/configure operations keeps it (fold_left); indexing and symbol "
         "counts equal the linear sequence. Tie: extracted model vs implementation on op histories, every arm, cell by cell.",
    note=COMMON_NOTE + "Translator: translate/stripe_net.py (unpack!/load/store order of stripe_avx2).",
    technique="Coq proof (layout invariant by induction over op histories, reflection on the translated transpose network) + translator + correspondence check",
    design="DESIGN.md section 3, C04")
P["C05"] = dict(
    text="Coq theorems (coq/encode/C05.v): for DNA and protein, on every pipeline (generic, SSE2, AVX2, every dispatcher arm) and every "
         "byte string, encoding returns Ok of the symbol indices iff all bytes are alphabet letters and otherwise the error of the "
         "FIRST offending byte; SIMD kernels (block loop, error mask, rescan, scalar tail) equal the generic encoder whatever the "
         "uninitialised buffer held; display inverts encode; lower case and bytes >= 0x80 are rejected. Alphabet tables, dispatcher "
         "arm table and kernel loop bounds are regenerated from abc.rs/dispatch.rs/avx2.rs/sse2.rs on every run and the 256-value "
         "sweeps re-checked. Tie: extracted model and proved-sound-and-complete checker vs implementation on generated byte strings.",
    note=COMMON_NOTE + "Translator: translate/encode_abc.py. NEON arm not compiled on this host: not covered.",
    technique="Coq proof (induction on blocks + finite 256-byte sweeps lifted by forallb_forall) + translator + extracted-model correspondence check",
    design="DESIGN.md section 3, C05")
P["C06"] = dict(
    text="PARTIAL by nature. Coq theorems (coq/footprint/C06.v) about a footprint model: for every unsafe kernel (AVX2/SSE2 scoring, "
         "striping, encoding, max/argmax, dense-matrix constructors) the list of memory accesses (buffer, byte offset, width, "
         "alignment requirement) as a function of the sizes is inside the buffer extents of the dense layout (C19) and aligned, under "
         "exactly the guards the safe wrappers establish. Tie: per generated public-API history the model's verdict is compared with "
         "AddressSanitizer's verdict on the real code, and the observed access parameters with the model's.",
    note=COMMON_NOTE + "Not verified: allocator, compiler, reads of allocated-but-uninitialised capacity (ASan-invisible); ASan (nightly rustc -Zsanitizer=address) is part of the tie.",
    technique="Coq proof of in-bounds/alignment of a footprint model + ASan-backed correspondence check",
    design="DESIGN.md section 3, C06")
P["C07"] = dict(
    text="Coq theorems (coq/maxi/C07.v): max is the greatest cell, argmax designates an in-range cell holding it, threshold returns "
         "exactly the cells >= t without duplicates, None on empty matrices; each AVX2/SSE2 kernel and every dispatcher arm equals its "
         "specification; padding cells are -inf so the float maximum is the best valid score. Order facts discharged for binary32 "
         "(Flocq) and u8. Tie: extracted model and checker vs implementation on generated f32/u8 matrices, all arms.",
    note=COMMON_NOTE,
    technique="Coq proof (total-preorder section instantiated for binary32/u8, lane-wise kernel models) + extracted-model correspondence check",
    design="DESIGN.md section 3, C07")
P["C08"] = dict(
    text="Coq theorems (coq/disc/C08.v): in exact arithmetic (extended rationals), for every matrix with finite non-wildcard cells, "
         "every window and every backend, the saturating 8-bit score is >= scale(real score); scale is monotone; threshold transfer; "
         "AVX2 u8 kernel = generic saturating kernel = every dispatcher arm for all inputs; to_discrete total. For binary32 the "
         "statement is refuted for ill-conditioned matrices (C08_ieee_refuted: known finding F14, identified by the conditioning "
         "predicate). Tie: bit-exact binary32 model of to_discrete/scale/u8 kernels vs implementation; proved-sound checker on the "
         "implementation's own scores.",
    note=COMMON_NOTE + "Partial: the inequality is proved for exact arithmetic; for binary32 under the conditioning predicate it is checked by the correspondence run only.",
    technique="Coq proof over exact rationals (ceil/floor/saturation lemmas) + bit-exact Flocq model correspondence check",
    design="DESIGN.md section 3, C08")
P["C09"] = dict(
    text="Coq theorems (coq/pwm/C09.v): counts from sequences = occurrence counts (unequal lengths rejected); frequency rows sum to one "
         "and frequency/weight/log-odds cells have their defining form (exact arithmetic); one-step and two-step conversions perform "
         "the same operations (any number type, so for IEEE as is); rescale to another background; every window score lies between "
         "min_score and max_score; Background::new / FrequencyMatrix::new accept exactly the documented inputs. Tie: bit-exact binary32 "
         "model vs implementation up to the logarithm, logarithms through an oracle table from the implementation's libm.",
    note=COMMON_NOTE + "log2/log10/ln/powf are Section variables (no executable Coq logarithm); their assumed facts (log 0 = -inf, monotone) are re-validated on the observed table every run.",
    technique="Coq proof (exact rationals + number-type-generic operation equality) + bit-exact correspondence check",
    design="DESIGN.md section 3, C09")
P["C10"] = dict(
    text="Coq theorems (coq/pwm/C10.v): the complement table (regenerated from abc.rs) is an involution; reverse complement is reversal "
         "plus complement and an involution on all four matrix kinds; it commutes with count->frequency->weight->scoring conversion under "
         "a strand-symmetric background; scores of the reverse-complemented matrix on the reverse-complemented sequence mirror the "
         "original scores. Tie: bit-exact model vs implementation on all widths incl. the wildcard column.",
    note=COMMON_NOTE + "Translator: complement table from abc.rs. Commutation is exact-arithmetic (binary32 sums in another order are compared against the bit-exact model).",
    technique="Coq proof (list reversal/permutation lemmas, finite sweep of the translated complement table) + translator + correspondence check",
    design="DESIGN.md section 3, C10")
P["C11"] = dict(
    text="Coq theorems (coq/dist/C11.v) about the model of ScoreDistribution (dist.rs): the survival table is monotone and within [0,1], "
         "the tabulated pdf is the exact distribution of the discretised score (induction on rows), discretisation error bound, p-value "
         "brackets of the exact tail, monotonicity, score/p-value round trip; refuted-lemmas with witnesses for the recorded known findings. "
         "Tie: bit-exact binary64 model of the table vs implementation; exact tails by enumeration in the explorer.",
    note=COMMON_NOTE + "Partial: exact-arithmetic theorems + bit-exact replay; rounding of the f64 convolution itself is modelled, not bounded.",
    technique="Coq proof (induction on matrix rows over exact rationals) + bit-exact binary64 correspondence check",
    design="DESIGN.md section 3, C11")
P["C12"] = dict(
    text="Coq theorems (coq/tfm/C12.v) about the model of TFM-PVALUE (lightmotif-tfmpvalue): integer-score error bound, the dynamic-programming "
         "table is the exact distribution of the integer score, lookup_pvalue brackets the exact tail probabilities within the stated "
         "granularity error, ranges ordered in [0,1]. Tie: model vs implementation on every iteration of approximate_pvalue; exact tails by enumeration.",
    note=COMMON_NOTE + "Partial: probabilities proved over exact rationals; the implementation sums in hash-map order, compared with relative tolerance 1e-9.",
    technique="Coq proof (induction on rows over exact rationals) + correspondence check",
    design="DESIGN.md section 3, C12")
P["C13"] = dict(
    text="Coq theorems (coq/tfm/C13.v): lookup_score soundness under the exact-distribution invariant and the window predicate; initial window; "
         "refutation witness for the recorded window-exhaustion finding. Tie: model vs implementation on every refinement step of approximate_score.",
    note=COMMON_NOTE + "Partial: see C12.",
    technique="Coq proof (exact rationals) + correspondence check",
    design="DESIGN.md section 3, C13")
P["C14"] = dict(
    text="Coq theorems (coq/io, coq/transfac): std read_until/read_line over a list of chunks is independent of the chunking (induction on the "
         "chunk list); for each format every well-formed record list printed and read back under every chunking yields exactly those records "
         "then End. Tie: extracted reader models vs the four readers on generated files and the bundled data bases through many BufReader "
         "capacities and random chunkings.",
    note=COMMON_NOTE + "Decimal->f32 conversion is Rust's own str::parse (trusted); nom combinators are modelled by hand.",
    technique="Coq proof (induction over chunk lists and record lists, print/parse round trip) + extracted-model correspondence check",
    design="DESIGN.md section 3, C14")
P["C15"] = dict(
    text="Coq theorems (coq/io, coq/transfac): for every byte list and every chunking each reader returns Record | Error | End - never Panic, "
         "never out of fuel - and consuming until the first error terminates. Tie: outcome sequences of the extracted models vs the readers on "
         "mutated/truncated/random inputs under catch_unwind.",
    note=COMMON_NOTE,
    technique="Coq proof (totality + termination measure on unread bytes) + extracted-model correspondence check",
    design="DESIGN.md section 3, C15")
P["C16"] = dict(
    text="Coq theorems (coq/sampler/C16.v): for every data set meeting the constructor's guards and every choice list (the RNG replaced by an "
         "explicit choice list), by induction over steps, the motif counts equal the window counts of the active sequences at their starts, "
         "the background counts equal the remaining symbol counts, starts stay in range, no underflow; determinism. Tie: the choice list is read "
         "off the implementation's trace (seeded StdRng, hook verif_starts) and replayed through the extracted model.",
    note=COMMON_NOTE + "Hook: Sampler::verif_starts() (feature verif-hooks). rand's generators are trusted; panics on an empty active set are documented outside the quantifier.",
    technique="Coq proof (state invariant by induction over operation/choice lists) + extracted-model correspondence check",
    design="DESIGN.md section 3, C16")
P["C17"] = dict(
    text="PARTIAL. Coq theorems (coq/pyglue/C17.v) about a model of the PyO3 glue (argument handling, dispatch, conversions) parameterised over "
         "the core operations: each entry point passes exactly the right arguments to the core operation and returns its result; invalid arguments "
         "raise exceptions, never panic. Tie: embedded CPython drives the freshly built module, the core library is called in the same process, "
         "results compared bit for bit.",
    note=COMMON_NOTE + "CPython 3.11 and PyO3 0.22 run-time are trusted.",
    technique="Coq proof about the glue model + in-process differential check Python vs core",
    design="DESIGN.md section 3, C17")
P["C18"] = dict(
    text="Coq theorems (coq/pyidx/C18.v): __getitem__ of every class returns the element for -len <= i < len and IndexError otherwise, never a panic; "
         "len is the logical length; for every buffer-exporting class the address of view element [i][j] is the address of the logical element in the "
         "padded dense layout (C19), inside the allocation, never padding; item format matches. Tie: embedded CPython, all indices and full views compared.",
    note=COMMON_NOTE + "CPython 3.11 and PyO3 0.22 run-time are trusted.",
    technique="Coq proof (index normalisation, stride arithmetic on the dense layout) + extracted-model correspondence check through CPython",
    design="DESIGN.md section 3, C18")
P["C19"] = dict(
    text="Coq theorems (coq/dense/C19.v): stride/alignment arithmetic, refinement of the storage model (rows with arbitrary padding, flat ravel view) "
         "to a rows x columns table for every operation and, by induction on the operation list, every operation sequence; resize/clone/eq/fill/"
         "iteration consequences. Tied to dense.rs by a correspondence check of the extracted model against DenseMatrix on random operation "
         "sequences for 4 element types x 7 column counts.",
    note=COMMON_NOTE + "Rust's repr(align) size rule and allocator alignment are assumptions validated by the observed stride/addresses.",
    technique="Coq proof (induction over op sequences, refinement) + extracted-model correspondence check",
    design="DESIGN.md section 3, C19")

# properties whose check is registered (edit as groups are integrated)
CLAIMED = ["C%02d" % i for i in range(1, 20)]

PENDING_REASON = ("check not yet registered in this round: the model group is still being completed (plan in DESIGN.md "
                  "section 3; not a claim that the technique cannot apply)")

ENGINE_PROPS = sorted(CLAIMED)


def hook_commits():
    try:
        out = subprocess.check_output(["git", "-C", "/repo", "log", "--format=%h %s"], text=True)
        return [l.split()[0] for l in out.splitlines() if "verif-hooks" in l]
    except Exception:
        return ["d771cee", "a26a4d5"]


def main():
    ids = ["C%02d" % i for i in range(1, 20)]
    m = {
        "version": 1,
        "setup_cmd": "./check setup",
        "hooks": {
            "guard": "cargo feature `verif-hooks` of the crates lightmotif and lightmotif-tfmpvalue (off by default)",
            "enable": "the harness crates /verif/harness and /verif/pyharness depend on lightmotif with features=[\"verif-hooks\"] "
                      "(path dependency on /repo/lightmotif, rebuilt from the working tree by every check)",
            "baseline_off_cmd": "cd /repo && cargo test --workspace --no-fail-fast --offline",
            "source_commits": hook_commits(),
            "add_only": True,
        },
        "engines": [
            {"name": "coq", "path": "coq/", "serves_properties": ENGINE_PROPS,
             "kind_free_text": "Coq 8.16.1 developments: coq/base (shared), one directory per model group with Model/Proofs/Extract files; "
                               "property theorems in coq/<group>/Cnn.v; Gen*.v regenerated from /repo by translate/; coq/e2e composes the groups end to end (`./check e2e`, obligations of C02/C03 in the thorough tier)"},
            {"name": "harness", "path": "harness/", "serves_properties": ENGINE_PROPS,
             "kind_free_text": "Rust crate with path dependencies on /repo (hooks on): generators and implementation drivers, one binary per model group"},
            {"name": "drivers", "path": "ocaml/", "serves_properties": ENGINE_PROPS,
             "kind_free_text": "OCaml drivers around the models extracted from Coq (ExtrOcamlBasic): correspondence check and extracted property checkers"},
        ],
        "checks": [],
        "notes": "Technique: machine-checked proof in Coq 8.16.1 about hand-written Gallina models, tied to /repo on every run by a "
                 "correspondence (differential) check of the extracted models against the implementation, and by translators for table-like "
                 "parts of the source. See DESIGN.md.",
        "not_applicable": [],
    }
    for i in ids:
        if i in CLAIMED:
            p = P[i]
            m["checks"].append({
                "property_id": i,
                "quick_cmd": "./check %s --tier quick" % i,
                "thorough_cmd": "./check %s --tier thorough" % i,
                "evidence_file": "evidence/%s.json" % i,
                "replay_cmd_template": "./check %s --replay {path}" % i,
                "engine": "coq",
                "level_claimed": {"category": "proof", "text": p["text"], "design_ref": p["design"]},
                "level_note": p["note"],
                "technique": p["technique"],
            })
        else:
            m["not_applicable"].append({"property_id": i, "reason": PENDING_REASON})
    json.dump(m, open(os.path.join(VERIF, "MANIFEST.json"), "w"), indent=1)
    print("claimed:", " ".join(CLAIMED))


if __name__ == "__main__":
    main()
