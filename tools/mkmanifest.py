#!/usr/bin/env python3
"""Regenerates /verif/MANIFEST.json from the table below (edit the table, run this).
CLAIMED lists the properties whose check is registered; every other property goes to
not_applicable with its reason from PENDING."""
import json
import os
import subprocess

VERIF = os.path.dirname(os.path.dirname(os.path.abspath(__file__)))

COMMON_NOTE = ("Trusted: Coq 8.16.1 kernel (vm_compute used for finite sweeps/witnesses, no native_compute), "
               "ExtrOcamlBasic extraction + OCaml 4.13.1, the hand-written OCaml driver and Rust harness "
               "(generator, canonicalisation), the lane-wise semantics given to x86 intrinsics. The Rust code is "
               "modelled by hand (no verified Rust->Gallina path exists here); the model is tied to /repo's working "
               "tree on every run by the correspondence check (and by the translator where one is named). "
               "Source pins (DESIGN 8.8): pins/source.json holds a fingerprint (comments and white space removed) of every Rust source "
               "file; when the tree a quick check decides differs from it in a file of the property's crates, nothing is reported for that "
               "alone, but the quick tier draws its cases from the thorough-tier generator and 4 times as many (evidence notes say so). ")

P = {}

P["C01"] = dict(
    text="Coq theorems (coq/score/C01.v) about a model following pli/mod.rs, avx2.rs, sse2.rs, dispatch.rs and scores.rs: "
         "every cell of every backend's score matrix is the left fold of the code's own addition over the M looked-up "
         "terms (any element type, any addition - hence IEEE addition as it is), unstripe yields exactly L-M+1 values "
         "(none when L<M), row sub-ranges equal the rows of the full scan, AVX2 permute/gather, SSE2 and every dispatcher "
         "arm (any arm table, incl. the Arm one with NEON; the NEON kernel by translator and proof only) equal the generic kernel for "
         "every row range, old buffer content and padding content, -inf absorption and the full summation error bound "
         "|fl(sum)-sum| <= ((1+2^-24)^n-1) sum|t| for binary32 (Flocq). 45 theorems in C01.v (36), C01History.v (2: the Striped "
         "hypothesis discharged after any stripe/configure history of the C04 model) and C01Scores.v (7, round 3: after ANY history of "
         "score_into / score_rows_into / resize / clone / Default calls on ONE reused StripedScores buffer, from any initial content, a "
         "scoring call gives what the generic pipeline gives on a fresh buffer, and len / is_empty / unstripe are the L-M+1 defined scores; "
         "the defined score is never -0.0). Translators, re-run on every check: AVX2 shuffle masks / lane un-permutation / dispatcher "
         "tables (x86 and Arm) / presence, order and nesting depth of the wrappers' guards (translate/score_avx2.py, score_lane4.py) and the "
         "statement skeleton of scores.rs (translate/score_scores.py -> GenScores.v, proved to be the model's: "
         "C01_scores_skeleton_as_modelled). Tie: extracted model vs implementation, bit-exact binary32, DNA/protein, 16/32/48/64 columns, "
         "all arms, sub-ranges, and 10 % histories on one reused score buffer replayed step by step from the observed state.",
    note=COMMON_NOTE + "Value statements (error bound) exclude NaN/+inf cells, sum|t| >= 2^126 and motifs wider than 2^23; the bit-for-bit "
         "backend equalities have no such restriction. The NEON kernel is never executed on this host (translator + proof only).",
    technique="Coq proof (induction over rows/positions and over op histories of one score buffer; reflection on translated lane tables) "
              "tied by three translators (lane tables + wrapper guards, scores.rs statement skeleton) and the extracted-model "
              "correspondence check (bit-exact binary32, incl. histories)",
    design="DESIGN.md section 3, C01")
P["C02"] = dict(
    text="Coq theorems (coq/scan/C02.v) about a line-by-line model of Scanner::next (scan.rs): soundness (every hit is a valid "
         "position with its defined score >= threshold, no duplicates), completeness (the yielded multiset is exactly the "
         "positions at or above the threshold) for every block size, sequence length (incl. L<M, L=0, rows a multiple of the "
         "block size) and threshold, no panic, termination; by induction over blocks. Tie: extracted model vs Scanner on "
         "generated scans (bit-exact hits, all arms, take(k) prefixes, setters called between calls). Round 3: translate/scan_skel.py re-reads scan.rs on every run into a 22-field statement skeleton (coq/scan/GenScan.v) + the defaults of Scanner::new; C02Source.v (8 theorems) restates the property for the scanner parameterised by that skeleton and shows that 13 single-field deviations violate it; the extracted skeleton scanner is replayed against the implementation too; C02_setters_between_calls_sound (threshold lowered / any block size between calls: soundness). 25 theorems in C02.v (17) + C02Source.v (8). Thorough tier adds the 30 end-to-end composition theorems of coq/e2e (text -> encode -> stripe -> configure -> Scanner, bridges between the groups' models) as obligations.",
    note=COMMON_NOTE + "The 8-bit pre-filter's conservativeness is C08's theorem (exact arithmetic; binary32 under disc's executable conditioning predicate: C02_concrete_scan_wc_checked; known finding F14 outside it); striping/scoring/max kernels are taken by their specifications proved in C01/C04/C07 (equality with those groups' kernel models: coq/e2e, thorough tier). The skeleton translator also fires on order-only edits (remove(0), tie-break) that the property tolerates: reported as a broken tie, no failing input.",
    technique="Coq proof (induction over blocks, invariant on buffered hits) + translated statement skeleton of scan.rs (GenScan.v) with the property theorems restated for it + extracted-model correspondence check",
    design="DESIGN.md section 3, C02")
P["C03"] = dict(
    text="Coq theorems (coq/scan/C03.v) about the model of Scanner::max: None iff no unconsumed position reaches the threshold; "
         "otherwise the result's score is the maximum over unconsumed positions and >= threshold, independent of block size and "
         "after any prefix of next() calls. Round 3: C03Source.v (5 theorems) restates this for the scanner parameterised by the statement "
         "skeleton re-read from scan.rs on every run (translate/scan_skel.py -> GenScan.v); 13 single-field deviations of max() violate it, "
         "3 order/pruning-only ones do not. 16 theorems in C03.v (11) + C03Source.v (5). Tie: extracted model and extracted skeleton scanner "
         "vs Scanner::max on generated near-tie cases, all arms, prefixes at block boundaries, setters between next() and max().",
    note=COMMON_NOTE + "Pruning soundness uses C08 (conservative 8-bit scores) and monotonicity of scale in exact arithmetic.",
    technique="Coq proof (invariant over blocks and consumed prefixes) + translated statement skeleton of scan.rs (GenScan.v) with the property theorems restated for it + extracted-model correspondence check",
    design="DESIGN.md section 3, C03")
P["C04"] = dict(
    text="Coq theorems (coq/stripe/C04.v): generic striping into a reused buffer yields the Striped layout (cell (r,c) = symbol c*R+r, "
         "wildcard past L) for every sequence, column count and old buffer; the AVX2 32x32 transpose network - regenerated from "
         "avx2.rs on every run - transposes (reflection), and stripe_avx2 = generic for all inputs; configure_wrap keeps the "
         "invariant (incl. wrap > rows); every history of stripe/configure operations keeps it (fold_left); indexing and symbol "
         "counts equal the linear sequence. Tie: extracted model vs implementation on op histories, every arm, cell by cell.",
    note=COMMON_NOTE + "Translator: translate/stripe_net.py (unpack!/load/store order of stripe_avx2).",
    technique="Coq proof (layout invariant by induction over op histories, reflection on the translated transpose network) + translator + correspondence check",
    design="DESIGN.md section 3, C04")
P["C05"] = dict(
    text="Coq theorems (coq/encode/C05.v): for DNA and protein, on every pipeline (generic, SSE2, AVX2, every dispatcher arm) and every "
         "byte string, encoding returns Ok of the symbol indices iff all bytes are alphabet letters and otherwise the error of the "
         "FIRST offending byte; SIMD kernels (block loop, error mask, rescan, scalar tail) equal the generic encoder whatever the "
         "uninitialised buffer held; display inverts encode; lower case and bytes >= 0x80 are rejected. Alphabet tables, dispatcher "
         "arm table and kernel loop bounds are regenerated from abc.rs/dispatch.rs/avx2.rs/sse2.rs on every run and the 256-value "
         "sweeps re-checked. Tie: extracted model and proved-sound-and-complete checker vs implementation on generated byte strings.",
    note=COMMON_NOTE + "Translator: translate/encode_abc.py. NEON arm not compiled on this host: not covered.",
    technique="Coq proof (induction on blocks + finite 256-byte sweeps lifted by forallb_forall) + translator + extracted-model correspondence check",
    design="DESIGN.md section 3, C05")
P["C06"] = dict(
    text="PARTIAL by nature. Coq theorems (coq/footprint/C06.v) about a footprint model: for every unsafe kernel (AVX2/SSE2 scoring, "
         "striping, encoding, max/argmax, dense-matrix constructors) the list of memory accesses (buffer, byte offset, width, "
         "alignment requirement) as a function of the sizes is inside the buffer extents of the dense layout (C19) and aligned, under "
         "exactly the guards the safe wrappers establish. Tie: per generated public-API history the model's verdict is compared with "
         "AddressSanitizer's verdict on the real code, and the observed access parameters with the model's.",
    note=COMMON_NOTE + "Not verified: allocator, compiler, reads of allocated-but-uninitialised capacity (ASan-invisible); ASan (nightly rustc -Zsanitizer=address) is part of the tie.",
    technique="Coq proof of in-bounds/alignment of a footprint model + ASan-backed correspondence check",
    design="DESIGN.md section 3, C06")
P["C07"] = dict(
    text="Coq theorems (coq/maxi/C07.v): max is the greatest cell, argmax designates an in-range cell holding it, threshold returns "
         "exactly the cells >= t without duplicates, None on empty matrices; each AVX2/SSE2 kernel and every dispatcher arm equals its "
         "specification; padding cells are -inf so the float maximum is the best valid score. Order facts discharged for binary32 "
         "(Flocq) and u8. Round 3: REUSED buffers - after every history of StripedScores::resize / DenseMatrix::resize (more or fewer rows) "
         "and cell writes the default scans, offset and Index answer as on a fresh matrix of the logical rows, on every dispatcher arm "
         "(C07_history_independent, C07_history_answers_meet_spec, C07_history_all_arms_f32/_u8; a grow-only resize is refuted). 62 theorems "
         "(C07.v 52 + C07Source.v 10: dispatcher / pipeline tables, permute2x128 operands, lane offsets, the resize statements of dense.rs / "
         "scores.rs, Iter::new, default-scan loops and the kernels' comparison predicates re-read from the source on every run by "
         "translate/maxi_tables.py). Tie: extracted model and checker vs implementation on generated f32/u8 matrices (16/32/48/64 columns), all "
         "arms, 30 % of the cases on a reused buffer with a 1-3 step history, Scanner-pattern range cases.",
    note=COMMON_NOTE + "NEON kernels are not compiled on this host (the Arm dispatcher tables are translated and proved, never executed); score_rows_into steps inside a history are not modelled (rows rewritten afterwards).",
    technique="Coq proof (total-preorder section instantiated for binary32/u8, lane-wise kernel models, buffer-history invariant) + translator of the dispatcher / lane / resize / comparison tables + extracted-model correspondence check incl. histories on one reused buffer",
    design="DESIGN.md section 3, C07")
P["C08"] = dict(
    text="Coq theorems (coq/disc/C08.v): in exact arithmetic (extended rationals), for every matrix with finite non-wildcard cells, "
         "every window and every backend, the saturating 8-bit score is >= scale(real score); scale is monotone; threshold transfer; "
         "AVX2 u8 kernel = generic saturating kernel = every dispatcher arm for all inputs; to_discrete total. For binary32 the "
         "statement is refuted for ill-conditioned matrices (C08_ieee_refuted: known finding F14, identified by the conditioning "
         "predicate). Tie: bit-exact binary32 model of to_discrete/scale/u8 kernels vs implementation; proved-sound checker on the "
         "implementation's own scores.",
    note=COMMON_NOTE + "Partial: the inequality is proved for exact arithmetic; for binary32 under the conditioning predicate it is checked by the correspondence run only.",
    technique="Coq proof over exact rationals (ceil/floor/saturation lemmas) + bit-exact Flocq model correspondence check",
    design="DESIGN.md section 3, C08")
P["C09"] = dict(
    text="Coq theorems (coq/pwm/C09.v): counts from sequences = occurrence counts (unequal lengths rejected); frequency rows sum to one "
         "and frequency/weight/log-odds cells have their defining form (exact arithmetic); one-step and two-step conversions perform "
         "the same operations (any number type, so for IEEE as is); rescale to another background; every window score lies between "
         "min_score and max_score; Background::new / FrequencyMatrix::new accept exactly the documented inputs. Tie: bit-exact binary32 "
         "model vs implementation up to the logarithm, logarithms through an oracle table from the implementation's libm. Round 3 (C09Stat.v, 26 theorems; 66 with C09.v): Correlation::{dot, norm, auto_correlation, cross_correlation}, CountMatrix::{new, entropy, consensus}, both information_content functions, From<ScoringMatrix> for WeightMatrix and the usize overflow of Background::from_counts are modelled as coded, tied bit-exactly (kind=stat, sqrt = Flocq Bsqrt, log2 / 2^x through oracle tables) and specified over the reals (Cauchy-Schwarz, correlations in [-1,1], entropy in [0, log2 K], information content = relative entropy; cross_correlation symmetric bit for bit in binary32); their statement skeletons are regenerated from pwm/mod.rs on every run (translate/pwm_skel.py) and compared with the pinned ones (C09_source_skeleton).",
    note=COMMON_NOTE + "log2/log10/ln/powf are Section variables (no executable Coq logarithm); their assumed facts (log 0 = -inf, monotone) are re-validated on the observed table every run. The real-number theorems of C09Stat.v speak about the functions as coded interpreted over R; the distance of the binary32 results from those values is checked with 1e-4 / 1e-3 slack, not proved. Documented, not violations of C09 as worded (notes/pwm.md R3-1..R3-5): WeightMatrix::information_content is computed on the odds ratio (..._is_relative_entropy_refuted), u32 row sums in entropy/consensus, CountMatrix::new never rejects, consensus keeps the last maximum, usize overflow of from_counts.",
    technique="Coq proof (exact rationals, reals for the statistics functions, number-type-generic operation equality, Flocq binary32 error bounds) + translators (complement table, statement skeletons of pwm/mod.rs) + bit-exact correspondence check",
    design="DESIGN.md section 3, C09")
P["C10"] = dict(
    text="Coq theorems (coq/pwm/C10.v): the complement table (regenerated from abc.rs) is an involution; reverse complement is reversal "
         "plus complement and an involution on all four matrix kinds; it commutes with count->frequency->weight->scoring conversion under "
         "a strand-symmetric background; scores of the reverse-complemented matrix on the reverse-complemented sequence mirror the "
         "original scores. Tie: bit-exact model vs implementation on all widths incl. the wildcard column.",
    note=COMMON_NOTE + "Translator: complement table from abc.rs. Commutation is exact-arithmetic (binary32 sums in another order are compared against the bit-exact model; the size of the difference is proved for the mirrored scores and for count -> frequency: C10_revcomp_mirrors_scores_f32, C10_revcomp_commutes_to_freq_f32). 16 theorems. The translate step also regenerates the pwm statement skeletons (GenPwmSkel.v) used by C09.",
    technique="Coq proof (list reversal/permutation lemmas, finite sweep of the translated complement table) + translator + correspondence check",
    design="DESIGN.md section 3, C10")
P["C11"] = dict(
    text="Coq theorems (coq/dist/C11.v) about the model of ScoreDistribution (dist.rs): the survival table is monotone and within [0,1], "
         "the tabulated pdf is the exact distribution of the discretised score (induction on rows), discretisation error bound, p-value "
         "brackets of the exact tail, monotonicity, score/p-value round trip; refuted-lemma with witness for the recorded known finding (f32 unscale). "
         "Round 3 (37 theorems): no word is lost (C11_no_word_lost: pvalue(s) >= weight(w) for every word w and s <= S(w) - d), max_score is the best "
         "word and min_pvalue its mass (C11_max_score_is_best_word, C11_min_pvalue_is_best, C11_best_score_tail), monotonicity of scale and of the "
         "p-values in binary64 ITSELF (Flocq: C11_scale_monotone_binary64, C11_pvalue_monotone_binary64), a second exact reference with one entry per "
         "distinct score proved to give the same checker verdict (C11_grid_checker_eq, C11_red_checker_eq) so that long motifs (width <= 48) are "
         "bracket-checked; CDF_RANGE and the statement skeleton of dist.rs re-read on every run (translate/dist_skel.py; C11_source_skeleton). "
         "Tie: bit-exact binary64 model of the table, pvalue, score, scale, unscale vs implementation; exact tails by enumeration or on the score grid.",
    note=COMMON_NOTE + "Partial: exact-arithmetic theorems + bit-exact replay; rounding of the f64 convolution itself is modelled, not bounded (checker tolerance 2^-30 relative). Known finding: f32 unscale inexact for narrow ranges on large offsets.",
    technique="Coq proof (induction on matrix rows over exact rationals; Flocq binary64 for the monotonicity instances) + translated statement skeleton of dist.rs + bit-exact binary64 correspondence check with an extracted, proved-sound bracket checker",
    design="DESIGN.md section 3, C11")
P["C12"] = dict(
    text="Coq theorems (coq/tfm/C12.v) about the model of TFM-PVALUE (lightmotif-tfmpvalue): integer-score error bound, the dynamic-programming "
         "table is the exact distribution of the integer score, lookup_pvalue brackets the exact tail probabilities within the stated "
         "granularity error, ranges ordered in [0,1]; pvalue() itself (unbounded refinement as fuel-independent function) meets the bounds and "
         "terminates under a gap condition. Round 3 (C12Ext.v 19 + C12Gen.v 2; 35 with C12.v): no-overflow of the i64 geometry under a stated "
         "bound on |cell|/g and |score|/g, convergence / run-length / ties-never-converge, range in [0,1] for the binary64 instance, the hash-map "
         "visiting order proved irrelevant in exact arithmetic and the bounds proved for the order-parameterised model, backgrounds with wildcard "
         "mass; 22 constants / loop bounds / comparison operators of lib.rs regenerated on every run (translate/tfm_const.py -> GenTfm.v) and "
         "proved equal to the model's. Tie: the private state is read through verif-hooks accessors (/repo 86badd0) and the binary64 model is "
         "replayed in the hash-map iteration order the implementation reports: integer geometry, every Q-value row, ranges, converged and "
         "pvalue() compared bit for bit on every iteration of approximate_pvalue; exact tails by enumeration / convolution.",
    note=COMMON_NOTE + "Partial: probabilities are proved over exact rationals; binary64 rounding of x/g, score/g and the sums is replayed bit for bit, "
         "not bounded (only steps with more than 6000 table entries fall back to a 1e-9 relative comparison). Known findings: F35 huge-cell / huge-score "
         "(|x|/g >= 2^52: integer rescaling inexact in binary64; >= 2^63: i64 overflow, panic in debug / wrong converged value in release) and "
         "wildcard mass with a finite wildcard cell.",
    technique="Coq proof (induction on rows over exact rationals; order-parameterised model; Flocq binary64 for the range/no-overflow instances) + translator of the constants of lib.rs + bit-exact correspondence check in the reported hash-map order (verif-hooks accessors)",
    design="DESIGN.md section 3, C12")
P["C13"] = dict(
    text="Coq theorems (coq/tfm/C13.v): for every iteration of approximate_score from its initial window the returned score brackets the exact tail "
         "(C13_approximate_score_bounds, no window hypothesis: window adequacy is a proved invariant since /repo 6b0495b), lookup_score soundness, "
         "panic-site reachability. Round 3 (C13Ext.v 13 + C12Gen.v 2; 31 with C13.v): no-overflow under a stated bound, convergence, the bounds for "
         "any hash-map visiting order and for backgrounds with wildcard mass (p <= (1-b_N)^M), score() as fuel-independent function meets the "
         "bounds; constants of lib.rs regenerated on every run (translate/tfm_const.py). Tie: as C12 (hooks, replay in the reported hash-map "
         "order, bit for bit) on every refinement step of approximate_score and the final score().",
    note=COMMON_NOTE + "Partial: see C12 (exact rationals for the probabilities; known findings F35 huge-cell and wildcard mass with a finite wildcard cell).",
    technique="Coq proof (exact rationals, window-adequacy invariant; order-parameterised model) + translator of the constants of lib.rs + bit-exact correspondence check in the reported hash-map order (verif-hooks accessors)",
    design="DESIGN.md section 3, C13")
P["C14"] = dict(
    text="Coq theorems (coq/io, coq/transfac): std read_until/read_line over a list of chunks is independent of the chunking (induction on the "
         "chunk list); for each format every well-formed record list printed and read back under every chunking yields exactly those records "
         "then End - and, for TRANSFAC (round 3), End again for every further request (reader_roundtrip_post); Record::to_freq is modelled "
         "(to_freq_shape, to_freq_rows_normalised). Tie: extracted reader models vs the four readers on generated files and the bundled data bases "
         "through many BufReader capacities and random chunkings; TRANSFAC cases poll twice more after the end of input under all 9 chunkings and "
         "compare to_freq(0.0)/(0.5) bit for bit. Translators: io tables (translate/io_abc.py, io_reader.py) and translate/transfac_reader.py "
         "(the `last` update and starts_with literals of reader.rs, parse_tag codes, alphabet tables -> GenReader.v).",
    note=COMMON_NOTE + "TRANSFAC: decimal->f32 is NOT trusted to Rust (Dec2F32.f32_of_token, exact, compared bit for bit with str::parse::<f32>); nom combinators are modelled by hand.",
    technique="Coq proof (induction over chunk lists and record lists, print/parse round trip) + translators of the reader constants + extracted-model correspondence check (all chunkings, polling consumer)",
    design="DESIGN.md section 3, C14")
P["C15"] = dict(
    text="Coq theorems (coq/io, coq/transfac): for every byte list and every chunking each reader returns Record | Error | End - never Panic, "
         "never out of fuel - and consuming until the first error terminates. TRANSFAC, round 3: a POLLING consumer (next() called again any number "
         "of times after an error or the end: reader_polls_total, reader_total_post, reader_end_is_final) and streams whose fill_buf FAILS or is "
         "interrupted (std's read_line/append_to_string modelled: reader_total_faults_repaired for `last = buffer.len()`, reader_total_faults_stop for "
         "the reader as it was; which of the two the code is, is re-read on every run by translate/transfac_reader.py). Tie: outcome sequences of the "
         "extracted models vs the readers on mutated/truncated/random/UTF-8-damaged inputs under catch_unwind, with 0..6 polls after the first "
         "non-record outcome and scripted I/O fault streams (this found the stale line offset repaired in /repo 23feb61).",
    note=COMMON_NOTE + "I/O faults (a fill_buf that fails) are exercised through scripted BufReads by both groups' harnesses; the fault-stream THEOREMS exist for TRANSFAC (the io group's part is being extended this round: notes/io.md); allocation failure and panics inside nom/std are not modelled.",
    technique="Coq proof (totality + termination measure on unread bytes / line feeds + fault events, invariant on the line offset) + translator of the reader's `last` update + extracted-model correspondence check with a polling consumer and I/O fault scripts",
    design="DESIGN.md section 3, C15")
P["C16"] = dict(
    text="Coq theorems (coq/sampler/C16.v): for every data set meeting the constructor's guards and every choice list (the RNG replaced by an "
         "explicit choice list), by induction over steps, the motif counts equal the window counts of the active sequences at their starts, "
         "the background counts equal the remaining symbol counts, starts stay in range, no underflow; determinism. Tie: the choice list is read "
         "off the implementation's trace (seeded StdRng, hook verif_starts) and replayed through the extracted model. Round 3: second property "
         "file C16F.v (13 theorems): invariant and outcome theorems for the float-driven step function next_g / run_g, WeightedIndex never returns "
         "a zero-weight or out-of-range position (binary64 proof on Flocq), Zoops decision = information-content comparison; third audited file "
         "SamplerSkel.v (20): the statement lists of sampler.rs regenerated on every run (translate/sampler_skel.py -> GenSampler.v) interpreted "
         "= the hand model for all states (gen_next_is_model). 52 obligations. The first 20/40 calls of every run are also replayed through the "
         "FLOAT model (PSSM, weights, rand 0.8.8 WeightedIndex / Uniform from the recorded generator word): the model's own choice must equal "
         "the implementation's.",
    note=COMMON_NOTE + "Hook: Sampler::verif_starts() (feature verif-hooks). rand's bit generator (ChaCha12), select_holdout's integer draw and the initial draws stay inputs read off the trace; libm enters as re-validated oracle tables; only weights_support_partial is proved (the converse, a live position has a positive weight, is not); panics on an empty active set are documented outside the quantifier.",
    technique="Coq proof (state invariant by induction over operation/choice lists; Flocq binary64 for the weighted draw) + translated statement lists of sampler.rs proved equal to the model + extracted-model correspondence check (choice-list replay and float replay)",
    design="DESIGN.md section 3, C16")
P["C17"] = dict(
    text="PARTIAL. Coq theorems (coq/pyglue/C17.v) about a model of the PyO3 glue (argument handling, dispatch, conversions) parameterised over "
         "the core operations: each entry point passes exactly the right arguments to the core operation and returns its result; invalid arguments "
         "raise exceptions, never panic. Round 3 (60 theorems): scanners as lazy state over the LIVE sequence object agree with the eager reading "
         "(py_scanner_lazy_eq_eager), calls on separate objects are independent (py_threads_independent), file objects whose read() fails: that very "
         "exception is raised (py_faulty_read_exception_wins), no PanicException from any item of an iteration (py_items_no_panic), a matrix without "
         "a finite score raises ValueError (py_no_finite_score_raises, /repo a1b1f91); signatures, match arms and every new_err site (message, "
         "exception class) regenerated from lib.rs / io.rs / pyfile.rs on every run (translate/pyglue_sig.py; py_exception_sites_tied). Tie: embedded "
         "CPython drives the freshly built module, the core library is called in the same process, results compared bit for bit; histories incl. "
         "threads, generator arguments, faulty file objects; every case in a child interpreter.",
    note=COMMON_NOTE + "CPython 3.11 and PyO3 0.22 run-time are trusted; the `mt` (thread) verdict is decided by the worker (concurrent == sequential), not by the model. Known finding left: F25 (tfmpvalue with |score|/granularity beyond i64: the core overflows, tfm F35).",
    technique="Coq proof about the glue model (parameterised over the core record; lazy-scanner and locality invariants) + translator of signatures / match arms / exception sites + in-process differential check Python vs core",
    design="DESIGN.md section 3, C17")
P["C18"] = dict(
    text="Coq theorems (coq/pyidx/C18.v): __getitem__ of every class returns the element for -len <= i < len and IndexError otherwise, never a panic; "
         "len is the logical length; for every buffer-exporting class the address of view element [i][j] is the address of the logical element in the "
         "padded dense layout (C19), inside the allocation, never padding; item format matches. Tie: embedded CPython, all indices and full views compared.",
    note=COMMON_NOTE + "CPython 3.11 and PyO3 0.22 run-time are trusted.",
    technique="Coq proof (index normalisation, stride arithmetic on the dense layout) + extracted-model correspondence check through CPython",
    design="DESIGN.md section 3, C18")
P["C19"] = dict(
    text="Coq theorems (coq/dense/C19.v): stride/alignment arithmetic, refinement of the storage model (rows with arbitrary padding, flat ravel view) "
         "to a rows x columns table for every operation and, by induction on the operation list, every operation sequence; resize/clone/eq/fill/"
         "iteration consequences, incl. (round 3) positional iterator calls: any pattern of next / next_back / nth(k) / nth_back(k) visits the rows "
         "of a shrinking index window (C19_iteration_steps) and skip / rev().skip / step_by are those walks (C19_iteration_skip_adaptors). 19 theorems. "
         "Tied to dense.rs by a correspondence check of the extracted model against DenseMatrix on random operation "
         "sequences over a register file of three matrices for 4 element types x 7 column counts, with positional calls on iter()/iter_mut()/into_iter() "
         "and len() after each call; PROPFAIL decided by the extracted checker check_C19 (proved sound and complete).",
    note=COMMON_NOTE + "Rust's repr(align) size rule and allocator alignment are assumptions validated by the observed stride/addresses.",
    technique="Coq proof (induction over op sequences and over iterator call lists, refinement) + extracted-model correspondence check",
    design="DESIGN.md section 3, C19")

# properties whose check is registered (edit as groups are integrated)
CLAIMED = ["C%02d" % i for i in range(1, 20)]

PENDING_REASON = ("check not yet registered in this round: the model group is still being completed (plan in DESIGN.md "
                  "section 3; not a claim that the technique cannot apply)")

ENGINE_PROPS = sorted(CLAIMED)


def hook_commits():
    try:
        out = subprocess.check_output(["git", "-C", "/repo", "log", "--format=%h %s"], text=True)
        return [l.split()[0] for l in out.splitlines() if l.split(" ", 1)[-1].startswith("verif-hooks:")]
    except Exception:
        return ["86badd0", "a26a4d5", "d771cee"]


def main():
    ids = ["C%02d" % i for i in range(1, 20)]
    m = {
        "version": 1,
        "setup_cmd": "./check setup",
        "hooks": {
            "guard": "cargo feature `verif-hooks` of the crates lightmotif and lightmotif-tfmpvalue (off by default)",
            "enable": "the harness crates /verif/harness and /verif/pyharness depend on lightmotif with features=[\"verif-hooks\"] "
                      "(path dependency on /repo/lightmotif, rebuilt from the working tree by every check)",
            "baseline_off_cmd": "cd /repo && cargo test --workspace --no-fail-fast --offline",
            "source_commits": hook_commits(),
            "add_only": True,
        },
        "engines": [
            {"name": "coq", "path": "coq/", "serves_properties": ENGINE_PROPS,
             "kind_free_text": "Coq 8.16.1 developments: coq/base (shared), one directory per model group with Model/Proofs/Extract files; "
                               "property theorems in coq/<group>/Cnn.v; Gen*.v regenerated from /repo by translate/; coq/e2e composes the groups end to end (`./check e2e`: E2E.v 30 theorems = obligations of C02/C03, E2EStat.v 21 theorems = obligations of C09/C11/C12/C13 in the thorough tier)"},
            {"name": "harness", "path": "harness/", "serves_properties": ENGINE_PROPS,
             "kind_free_text": "Rust crate with path dependencies on /repo (hooks on): generators and implementation drivers, one binary per model group"},
            {"name": "drivers", "path": "ocaml/", "serves_properties": ENGINE_PROPS,
             "kind_free_text": "OCaml drivers around the models extracted from Coq (ExtrOcamlBasic): correspondence check and extracted property checkers"},
        ],
        "checks": [],
        "notes": "Technique: machine-checked proof in Coq 8.16.1 about hand-written Gallina models, tied to /repo on every run by a "
                 "correspondence (differential) check of the extracted models against the implementation, and by translators for table-like "
                 "parts of the source (tables, constants, loop bounds, statement skeletons: translate/*.py -> coq/<group>/Gen*.v, regenerated on every run; "
                 "a source a translator cannot parse is a broken obligation). When the source differs from the pinned fingerprints (pins/source.json) the quick "
                 "tier escalates its search (DESIGN.md 8.8). See DESIGN.md section 8 for the state as built.",
        "not_applicable": [],
    }
    for i in ids:
        if i in CLAIMED:
            p = P[i]
            m["checks"].append({
                "property_id": i,
                "quick_cmd": "./check %s --tier quick" % i,
                "thorough_cmd": "./check %s --tier thorough" % i,
                "evidence_file": "evidence/%s.json" % i,
                "replay_cmd_template": "./check %s --replay {path}" % i,
                "engine": "coq",
                "level_claimed": {"category": "proof", "text": p["text"], "design_ref": p["design"]},
                "level_note": p["note"],
                "technique": p["technique"],
            })
        else:
            m["not_applicable"].append({"property_id": i, "reason": PENDING_REASON})
    json.dump(m, open(os.path.join(VERIF, "MANIFEST.json"), "w"), indent=1)
    print("claimed:", " ".join(CLAIMED))


if __name__ == "__main__":
    main()
