#!/bin/bash
# tools/collect_seed.sh Cnn : copy the seeded changes written by the seeding agent in
# /tmp/seed/Cnn/SEED/<k>/ into /verif/seeded/Cnn/<k>/ and remove the scratch worktree.
set -e
id=$1
for k in /tmp/seed/$id/SEED/*/; do
  n=$(basename $k)
  mkdir -p /verif/seeded/$id/$n
  cp $k/patch.diff $k/meta.json /verif/seeded/$id/$n/ 
  cp $k/demo.* $k/run.sh /verif/seeded/$id/$n/ 2>/dev/null || true
done
git -C /repo worktree remove --force /tmp/seed/$id || true
rm -rf /tmp/seed/$id
ls /verif/seeded/$id/*
