#!/usr/bin/env python3
"""Summarise seeded/*/*/result.json: one line per seeded change."""
import glob, json, os, sys
V = os.path.dirname(os.path.dirname(os.path.abspath(__file__)))
for f in sorted(glob.glob(os.path.join(V, "seeded", "*", "*", "meta.json"))):
    d = os.path.dirname(f)
    tag = "/".join(d.split("/")[-2:])
    try:
        m = json.load(open(f))
    except Exception:
        m = {}
    rp = os.path.join(d, "result.json")
    if not os.path.exists(rp):
        print("%-8s not-run   %s" % (tag, m.get("title", "")[:90]))
        continue
    r = json.load(open(rp))
    valid = r.get("patch_applies") and r.get("demo_passes_without_change") and r.get("demo_fails_with_change") and r.get("existing_suite_passes")
    cs = r.get("checks", {})
    det = ",".join("%s:%s" % (k, "input" if v.get("with_failing_input") else ("tie" if v.get("detected") else "MISSED")) for k, v in cs.items())
    print("%-8s %-9s %-22s %s" % (tag, "valid" if valid else "INVALID", det, m.get("title", "")[:80]))
