#!/usr/bin/env python3
"""tools/seedtest.py <seed dir> [--check Cnn ...]

Validate one seeded change (patch.diff + demo + meta.json) in a scratch worktree of
/repo and run the /verif checks against it (VERIF_REPO), without touching /repo:
  1. the patch applies to HEAD and the workspace test suite still passes (84 + doc tests,
     the 4 always-failing argmax tests ignored);
  2. the demonstration fails with the patch and passes without it;
  3. the named checks (default: the property in meta.json) report a VIOLATION.
Writes the outcome into <seed dir>/result.json."""
import json
import os
import re
import subprocess
import sys
import time

VERIF = os.path.dirname(os.path.dirname(os.path.abspath(__file__)))


def sh(cmd, cwd=None, timeout=3600, env=None):
    p = subprocess.run(cmd, shell=True, cwd=cwd, stdout=subprocess.PIPE, stderr=subprocess.STDOUT,
                       timeout=timeout, env=env)
    return p.returncode, p.stdout.decode("utf-8", "replace")


def suite(wt):
    rc, out = sh("cargo test --offline --workspace --no-fail-fast 2>&1", cwd=wt, timeout=3000)
    passed = sum(int(m.group(1)) for m in re.finditer(r"^test result: \w+\. (\d+) passed", out, re.M))
    failed = re.findall(r"^test (\S+) \.\.\. FAILED", out, re.M)
    unexpected = [f for f in failed if f not in ("dispatch::argmax_f32", "generic::argmax_f32", "sse2::argmax_f32", "dispatch::scanner_max")]
    compiled = "error: could not compile" not in out and "error[" not in out
    return dict(passed=passed, failed=failed, unexpected_failures=unexpected, compiled=compiled), out


def main():
    d = os.path.abspath(sys.argv[1])
    meta = json.load(open(os.path.join(d, "meta.json")))
    checks = []
    if "--check" in sys.argv:
        checks = sys.argv[sys.argv.index("--check") + 1:]
    else:
        checks = [meta["property"]]
    tag = os.path.basename(os.path.dirname(d)) + "-" + os.path.basename(d)
    wt = "/tmp/st-" + tag
    sh("git -C /repo worktree remove --force %s" % wt)
    sh("rm -rf %s" % wt)
    rc, out = sh("git -C /repo worktree add -q %s HEAD" % wt)
    assert rc == 0, out
    res = dict(seed=d, started=time.strftime("%F %T"))
    try:
        sh("cp /repo/Cargo.lock %s/" % wt)
        crate = meta.get("demo_crate", "lightmotif")
        name = meta.get("demo_test_name")
        demo = None
        for cand in ("demo.rs", "demo.py"):
            if os.path.exists(os.path.join(d, cand)):
                demo = cand
        crate_dir = {"lightmotif": "lightmotif", "lightmotif-io": "lightmotif-io",
                     "lightmotif-tfmpvalue": "lightmotif-tfmpvalue", "lightmotif-py": "lightmotif-py"}.get(crate, crate)
        if demo == "demo.rs" and name:
            tdir = os.path.join(wt, crate_dir, "tests")
            if crate == "lightmotif-py":
                tdir = os.path.join(wt, crate_dir, "tests")   # auto-discovered integration tests of the package
            os.makedirs(tdir, exist_ok=True)
            sh("cp %s %s" % (os.path.join(d, "demo.rs"), os.path.join(tdir, name + ".rs")))
            demo_cmd = "cargo test --offline -p %s --test %s 2>&1" % (crate, name)
            if meta.get("demo_cmd"):
                demo_cmd = meta["demo_cmd"].replace("{wt}", wt).replace("{seed}", d)
        else:
            demo_cmd = meta.get("demo_cmd", "false").replace("{wt}", wt).replace("{seed}", d)
        # without the change
        rc0, out0 = sh(demo_cmd, cwd=wt, timeout=1800)
        res["demo_passes_without_change"] = (rc0 == 0)
        # with the change
        rc, out = sh("git apply %s" % os.path.join(d, "patch.diff"), cwd=wt)
        res["patch_applies"] = (rc == 0)
        if rc != 0:
            res["error"] = out[-2000:]
            return res
        rc1, out1 = sh(demo_cmd, cwd=wt, timeout=1800)
        res["demo_fails_with_change"] = (rc1 != 0)
        res["demo_tail_with_change"] = out1[-1500:]
        # the demo is not part of the suite
        if demo == "demo.rs" and name:
            sh("rm -f %s" % os.path.join(tdir, name + ".rs"))
        st, sout = suite(wt)
        res["suite"] = st
        res["existing_suite_passes"] = st["compiled"] and not st["unexpected_failures"] and st["passed"] >= 84
        # the checks
        res["checks"] = {}
        env = dict(os.environ)
        env["VERIF_REPO"] = wt
        for c in checks:
            t0 = time.time()
            rc, out = sh("./check %s --tier quick" % c, cwd=VERIF, timeout=3600, env=env)
            lines = [l for l in out.splitlines() if l.startswith(("VIOLATION", "OK ", "KNOWN-FINDING"))]
            res["checks"][c] = dict(exit=rc, lines=lines[:6], wall_s=round(time.time() - t0, 1),
                                    detected=(rc == 1 and any(l.startswith("VIOLATION") for l in lines)),
                                    with_failing_input=any(l.startswith("VIOLATION") and "no-failing-input-found" not in l for l in lines))
    finally:
        json.dump(res, open(os.path.join(d, "result.json"), "w"), indent=1)
        sh("git -C /repo worktree remove --force %s" % wt)
        sh("rm -rf %s" % wt)
        import hashlib
        alt = "alt-" + hashlib.sha1(wt.encode()).hexdigest()[:8]
        sh("rm -rf %s" % os.path.join(VERIF, "build", alt))
    print(json.dumps(res, indent=1))
    return res


if __name__ == "__main__":
    main()
