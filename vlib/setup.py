"""./check setup — build everything the checks need, offline, from files on disk:
all Coq groups (full .vo builds), the extracted-model drivers, the harness binaries."""
import glob
import importlib
import os
import sys
import time

from . import common as C


def main():
    t0 = time.time()
    ok = True
    specs = []
    hooks = []
    import json
    claimed = set(c["property_id"].lower() for c in json.load(open(os.path.join(C.VERIF, "MANIFEST.json")))["checks"])
    for f in sorted(glob.glob(os.path.join(C.VERIF, "props", "c[0-9]*.py"))):
        if os.path.basename(f)[:-3] not in claimed:
            continue  # property not (yet) claimed in MANIFEST.json: nothing to prepare
        try:
            mod = importlib.import_module("props." + os.path.basename(f)[:-3])
        except Exception as e:
            C.log("cannot import %s: %r" % (f, e))
            ok = False
            continue
        if hasattr(mod, "setup"):
            hooks.append((os.path.basename(f), mod.setup))
        if hasattr(mod, "SPEC"):
            specs.append(mod.SPEC)
        if hasattr(mod, "SPECS"):
            specs.extend(mod.SPECS)
        if hasattr(mod, "SETUP"):
            specs.extend(mod.SETUP)
    groups = []
    for s in specs:
        if s["group"] not in groups:
            groups.append(s["group"])
    for s in specs:
        if s.get("translate"):
            try:
                s["translate"]()
            except Exception as e:
                C.log("translator for %s failed: %r" % (s["id"], e))
    for g in groups:
        r = C.build_coq(g)
        C.log("coq/%s: %s (%.0fs)" % (g, "ok" if r["ok"] else "FAILED", r.get("wall", 0)))
        if not r["ok"]:
            ok = False
            C.log(r["log"][-3000:])
    done = set()
    for s in specs:
        key = (s["group"], tuple(s["ml_modules"]))
        if key not in done:
            done.add(key)
            r = C.build_driver(s["group"], s["ml_modules"], packages=s.get("ocaml_packages", ("str",)),
                               extra_flags=s.get("ocaml_flags", ""))
            C.log("driver %s: %s" % (s["group"], "ok" if r["ok"] else "FAILED"))
            if not r["ok"]:
                ok = False
                C.log(r["log"][-3000:])
    bins = []
    for s in specs:
        if s.get("harness_build"):
            # the SPEC brings its own implementation build (e.g. the pyharness crate)
            try:
                r = s["harness_build"](s["harness_bin"])
            except Exception as e:
                r = dict(ok=False, log=repr(e))
            C.log("harness %s (own build): %s" % (s["harness_bin"], "ok" if r.get("ok") else "FAILED"))
            if not r.get("ok"):
                ok = False
                C.log(str(r.get("log", ""))[-3000:])
            continue
        if s["harness_bin"] not in bins:
            bins.append(s["harness_bin"])
    for b in bins:
        r = C.build_harness(b)
        C.log("harness %s: %s" % (b, "ok" if r["ok"] else "FAILED"))
        if not r["ok"]:
            ok = False
            C.log(r["log"][-3000:])
        # the release-profile replay of every check uses a --release build of the same binary
        r = C.build_harness(b, release=True)
        C.log("harness %s (release): %s" % (b, "ok" if r["ok"] else "FAILED"))
        if not r["ok"]:
            ok = False
            C.log(r["log"][-3000:])
    for s in specs:
        if s.get("setup_extra"):
            try:
                s["setup_extra"]()
            except Exception as e:
                C.log("setup_extra for %s failed: %r" % (s["id"], e))
                ok = False
    # the cross-cutting composition group (obligations of C02/C03 in the thorough tier, `./check e2e`)
    try:
        from props import e2e
        C.translate_deps(e2e.GROUP)
        r = e2e.build()
        C.log("coq/e2e: %s (%.0fs)" % ("ok" if r["ok"] else "FAILED", r.get("wall", 0)))
        if not r["ok"]:
            ok = False
            C.log(r["log"][-3000:])
    except ImportError:
        pass
    for name, h in hooks:
        try:
            r = h()
            if r not in (None, 0, True):
                C.log("setup hook of %s reported failure" % name)
                ok = False
        except Exception as e:
            C.log("setup hook of %s failed: %r" % (name, e))
            ok = False
    # Setup only warms the build caches: every check rebuilds what it needs from the current tree and reports a
    # piece that does not build as a broken obligation of ITS property.  A failure here must therefore not keep
    # the other properties' checks from running: report it loudly, exit 0 (VERIF_SETUP_STRICT=1: exit 1).
    C.log("setup %s in %.0fs" % ("ok" if ok else "INCOMPLETE (see FAILED lines above; the affected checks will report it)",
                                 time.time() - t0))
    if not ok and os.environ.get("VERIF_SETUP_STRICT") == "1":
        return 1
    return 0
