"""Generic per-property check flow (see common.py docstring and DESIGN.md 2.4).

A property module under /verif/props defines SPEC, a dict with:
  id, group            property id, Coq group directory under coq/
  props_file, module   property theorem file and its logical module name
  harness_bin          cargo binary of /verif/harness driving the implementation
  harness_args         optional list of leading arguments (sub-command of the binary)
  ml_modules           extracted OCaml modules (written by coq/<group>/Extract*.v)
  driver_args          optional list of leading arguments for the driver
  n                    {'quick': N, 'thorough': N} generated cases
  search_n             {'quick': N, 'thorough': N} extra cases searched when a tie breaks
  nontrivial           function(input_line) -> hashable key (distinct non-trivial case) or None
  rule                 text describing generation and the non-triviality rule
  trusted_base, assumptions   lists of strings for the evidence file
  translate            optional function() -> dict(ok, notes) regenerating Gen*.v from /repo
  signature            optional function(verdict_detail, obs_line) -> str used to match known findings
  release              build the harness in release mode as well (overflow semantics) [optional]
  extra                optional function(ctx) -> list of extra violations / notes (property specific)
  escalate             factor by which the quick tier's case count grows (thorough-tier generator) when the source
                       differs from pins/source.json (default 4; 0 = never)
"""
import glob
import json
import os
import re
import sys
import time

from . import common as C


def _harness_cmd(spec, path, sub):
    return " ".join([path] + list(spec.get("harness_args", [])) + sub)


def _driver_cmd(spec, path):
    return " ".join([path] + list(spec.get("driver_args", [])))


def load_corpus(spec):
    lines = []
    d = os.path.join(C.VERIF, "corpus", spec["id"])
    k = 0
    for f in sorted(glob.glob(os.path.join(d, "*.txt"))):
        for l in open(f):
            l = l.rstrip("\n")
            if not l.strip() or l.startswith("#"):
                continue
            # corpus lines carry their own id token; renumber to keep ids unique
            rest = l.split(" ", 1)[1] if " " in l else ""
            lines.append("c%d %s" % (k, rest))
            k += 1
    return lines


def evaluate(spec, hpath, dpath, inputs, timeout=3600):
    """inputs -> (obs_lines, verdicts dict id -> (verdict, detail), errors)"""
    errors = []
    rc, obs, err = C.run_sharded(_harness_cmd(spec, hpath, ["run"]), inputs, timeout=timeout)
    if rc != 0:
        errors.append("harness run exited %d: %s" % (rc, err[-2000:]))
    obs_by_id = {}
    for l in obs:
        obs_by_id[l.split(" ", 1)[0]] = l
    missing = [l.split(" ", 1)[0] for l in inputs if l.split(" ", 1)[0] not in obs_by_id]
    if missing:
        errors.append("harness produced no observation for %d cases (first: %s)" % (len(missing), missing[0]))
    rc, ver, err = C.run_sharded(_driver_cmd(spec, dpath), obs, timeout=timeout)
    if rc != 0:
        errors.append("model driver exited %d: %s" % (rc, err[-2000:]))
    verdicts = {}
    for l in ver:
        p = l.split(" ", 2)
        if len(p) >= 2:
            verdicts[p[0]] = (p[1], p[2] if len(p) > 2 else "")
    for i in obs_by_id:
        if i not in verdicts:
            verdicts[i] = ("DIFF", "driver-produced-no-verdict")
    return obs_by_id, verdicts, errors


def _run_one(spec, tier, seed, replay=None):
    t0 = time.time()
    pid = spec["id"]
    group = spec["group"]
    notes = []
    proof_failures = []      # strings naming broken obligations
    tie_failures = []        # correspondence disagreements (id, detail)
    prop_failures = []       # (id, detail, input_line, obs_line)

    # 1. translator ------------------------------------------------------------
    # regenerate the Gen*.v files of every imported group from the current tree first
    notes.extend(C.translate_deps(group))
    if spec.get("translate"):
        try:
            tr = spec["translate"]()
            notes.extend(tr.get("notes", []))
            if not tr.get("ok", True):
                proof_failures.append("translator: " + "; ".join(tr.get("errors", ["failed"])))
        except Exception as e:  # translator could not parse the source
            proof_failures.append("translator raised %r" % (e,))

    # 2. Coq build + audit -----------------------------------------------------
    props_path = os.path.join(C.coq_dir(group), spec["props_file"])
    theorems = C.theorems_of(props_path)
    extra_thms = []
    for pf, mod in spec.get("more_props", []):
        extra_thms.append((mod, C.theorems_of(os.path.join(C.coq_dir(group), pf))))
    obligations = len(theorems) + sum(len(t) for _, t in extra_thms)
    discharged = 0
    proof_failures.extend(C.pinned_theorem_failures(
        spec.get("pin_key", pid + ":" + spec.get("name", group)),
        [props_path] + [os.path.join(C.coq_dir(group), pf) for pf, _ in spec.get("more_props", [])]))
    coq = C.build_coq(group)
    checker_cmd = "make -C coq/%s (coq_makefile, coqc 8.16.1 full .vo build) + coqc Print Assumptions audit" % group
    seen = set([group])
    stack = C.coq_deps(group)
    while stack:
        g = stack.pop()
        if g not in seen:
            seen.add(g)
            stack.extend(C.coq_deps(g))
    forb = C.forbidden_scan(sorted(seen))
    if forb:
        proof_failures.append("forbidden constructs: " + "; ".join(forb[:5]))
    axioms_used = set()
    if not coq["ok"]:
        proof_failures.append("coq build failed in %s line %s (%s)" % (
            coq.get("failed_file"), coq.get("failed_line"), coq.get("failed_theorem")))
        os.makedirs(C.BUILD, exist_ok=True)
        open(os.path.join(C.BUILD, "coq-%s.log" % pid), "w").write(coq["log"])
    else:
        for mod, thms in [(spec["module"], theorems)] + extra_thms:
            res, out = C.audit_theorems(group, mod, thms)
            for t in thms:
                ax = res.get(t)
                if ax is None:
                    proof_failures.append("theorem %s.%s not found by the audit" % (mod, t))
                    continue
                bad = [a for a in ax if not C.axiom_ok(a) and not C.is_primitive(a)]
                if bad:
                    proof_failures.append("theorem %s depends on non-allowed axioms %s" % (t, bad))
                    continue
                axioms_used.update(a for a in ax if C.axiom_ok(a))
                discharged += 1

    # composed obligations living in another group (e.g. coq/e2e): a callable per tier returning
    # (ok, total, discharged, failures, axioms); they count as obligations of this property
    xo = spec.get("extra_obligations", {}).get(tier) if not replay else None
    if xo and coq["ok"]:
        try:
            xok, xtotal, xdis, xfail, xax = xo()
            obligations += xtotal
            discharged += xdis
            proof_failures.extend("composed obligation: " + f for f in xfail)
            axioms_used.update(a for a in xax if C.axiom_ok(a))
            notes.append("composed obligations (%s): %d/%d" % (spec.get("extra_obligations_name", "other group"), xdis, xtotal))
            checker_cmd += " + " + spec.get("extra_obligations_cmd", "composed group build and audit")
        except Exception as e:
            proof_failures.append("composed obligations raised %r" % (e,))

    # thorough tier: independent re-check of the compiled property file with coqchk
    if coq["ok"] and tier == "thorough" and not replay and not spec.get("skip_coqchk"):
        ck = C.coqchk(group, spec["module"])
        if not ck["ok"]:
            proof_failures.append("coqchk rejected %s: %s" % (spec["module"], ck["tail"][-400:]))
        else:
            bad = [a for a in ck["axioms"] if not C.axiom_ok(a.split()[0]) and not C.is_primitive(a.split()[0])]
            if bad:
                proof_failures.append("coqchk reports non-allowed axioms in the context of %s: %s" % (spec["module"], bad[:5]))
            notes.append("coqchk -o %s: ok, axioms in context: %s" % (spec["module"], ", ".join(ck["axioms"]) or "<none>"))
            checker_cmd += " + coqchk -o -silent " + spec["module"]

    # 3. harness + driver ------------------------------------------------------
    infra_errors = []
    hb = C.build_harness(spec["harness_bin"])
    if not hb["ok"]:
        # the implementation no longer builds with the harness: cannot observe it
        infra_errors.append("harness build failed:\n" + hb["log"][-3000:])
    db = None
    if coq["ok"]:
        db = C.build_driver(group, spec["ml_modules"], packages=spec.get("ocaml_packages", ("str",)),
                            extra_flags=spec.get("ocaml_flags", ""))
        if not db["ok"]:
            infra_errors.append("driver build failed:\n" + db["log"][-3000:])
    else:
        # keep using the last driver that was built (model before the break), if any
        exe = os.path.join(C.BUILD, "ocaml", group, "driver")
        if os.path.exists(exe):
            db = dict(ok=True, path=exe)
            notes.append("coq build broken: using the previously built model driver")
        else:
            infra_errors.append("no model driver available (coq build broken)")

    # 4. cases -----------------------------------------------------------------
    evaluations = 0
    nontrivial = set()
    samples = []
    hist = {}
    inputs = []
    if hb["ok"] and db and db.get("ok"):
        if replay:
            rp = json.load(open(replay))
            inputs = [l for l in rp.get("inputs", [])]
        else:
            inputs = load_corpus(spec)
            ncorp = len(inputs)
            n = spec["n"][tier]
            gen_tier = tier
            # the code differs from the pinned tree (pins/source.json): not a violation, but the moment to look
            # harder - quick tier then draws from the thorough-tier generator, `escalate` times as many cases
            changed = C.source_changed(pid) if tier == "quick" else None
            if changed:
                fac = spec.get("escalate", 4)
                n = min(int(spec["n"]["thorough"]), int(n * fac)) if fac else n
                gen_tier = "thorough" if fac else tier
                notes.append("source differs from the pinned tree in %s: search escalated to %d cases of the thorough-tier generator"
                             % (", ".join(changed[:6]), n))
            rc, out = C.sh(_harness_cmd(spec, hb["path"], ["gen", "--seed", str(seed), "--n", str(n), "--tier", gen_tier]),
                           timeout=1800)
            if rc != 0:
                infra_errors.append("harness gen failed: " + out[-2000:])
            else:
                inputs += [l for l in out.splitlines() if l.strip() and not l.startswith("#")]
            notes.append("%d corpus cases, %d generated" % (ncorp, len(inputs) - ncorp))
        obs_by_id, verdicts, errs = evaluate(spec, hb["path"], db["path"], inputs)
        infra_errors.extend(errs)
        in_by_id = {l.split(" ", 1)[0]: l for l in inputs}
        evaluations = len(verdicts)
        for l in inputs:
            k = spec["nontrivial"](l) if spec.get("nontrivial") else l
            if k is not None:
                nontrivial.add(k)
            if spec.get("histogram"):
                for key in spec["histogram"](l):
                    hist[key] = hist.get(key, 0) + 1
        samples = inputs[:2] + inputs[len(inputs) // 2: len(inputs) // 2 + 1]
        samples = [s if len(s) < 600 else s[:600] + "..." for s in samples]
        for i, (v, d) in verdicts.items():
            if v == "OK":
                continue
            if v == "PROPFAIL":
                prop_failures.append((i, d, in_by_id.get(i, ""), obs_by_id.get(i, "")))
            else:
                tie_failures.append((i, d, in_by_id.get(i, ""), obs_by_id.get(i, "")))

        # 4b. release-profile replay (thorough tier, SPEC key `release`): the same inputs through a --release
        # build of the harness; where the dev build did not panic the observation must be identical
        # (debug_assert!s, overflow checks and optimisation-dependent behaviour are otherwise never seen)
        want_release = (spec.get("release", not spec.get("harness_build")) and os.environ.get("VERIF_NO_RELEASE") != "1"
                        and getattr(C.build_harness, "__module__", "") == "vlib.common")  # not for swapped-in own builds
        if want_release and not replay:
            hr = C.build_harness(spec["harness_bin"], release=True)
            if not hr["ok"]:
                infra_errors.append("release harness build failed:\n" + hr["log"][-2000:])
            else:
                # quick tier: the corpus and the first 40 % of the generated cases (the model is evaluated again
                # for every replayed case: the whole stream would double the driver time); thorough: `release_n`
                cap = int(spec.get("release_n", 4000))
                if tier == "quick":
                    cap = min(cap, max(60, int(0.4 * len(inputs))))
                sample = [l for l in inputs[:cap]
                          if "anic" not in (obs_by_id.get(l.split(" ", 1)[0]) or "anic")]
                # judged by the same driver (canonicalised observables), not by comparing raw text
                o_r, v_r, e_r = evaluate(spec, hr["path"], db["path"], sample)
                infra_errors.extend("release replay: " + e for e in e_r)
                nbad = 0
                for i, (v, d) in v_r.items():
                    if v == "OK" or verdicts.get(i, ("OK", ""))[0] != "OK":
                        continue
                    nbad += 1
                    if v == "PROPFAIL":
                        prop_failures.append((i, "release-profile: " + d, in_by_id.get(i, ""), o_r.get(i, "")))
                    else:
                        tie_failures.append((i, "release-profile: " + d, in_by_id.get(i, ""), o_r.get(i, "")))
                evaluations += len(v_r)
                notes.append("release-profile replay: %d cases that do not panic in the dev profile, %d not OK" % (len(v_r), nbad))

        # 5. search when a tie broke and no failing input is known yet ----------
        if (proof_failures or tie_failures) and not prop_failures and not replay:
            n2 = spec.get("search_n", {}).get(tier, 4 * spec["n"][tier])
            rc, out = C.sh(_harness_cmd(spec, hb["path"], ["gen", "--seed", str(int(seed) + 7919), "--n", str(n2), "--tier", "thorough"]),
                           timeout=1800)
            more = [l for l in out.splitlines() if l.strip() and not l.startswith("#")] if rc == 0 else []
            if more:
                o2, v2, e2 = evaluate(spec, hb["path"], db["path"], more)
                in2 = {l.split(" ", 1)[0]: l for l in more}
                evaluations += len(v2)
                for i, (v, d) in v2.items():
                    if v == "PROPFAIL":
                        prop_failures.append((i, d, in2.get(i, ""), o2.get(i, "")))
                notes.append("search after broken tie: %d more cases, %d property failures" % (len(more), len(prop_failures)))

    # property-specific extra step (e.g. ASan verdicts, exhaustive sweeps)
    if spec.get("extra"):
        ctx = dict(tier=tier, seed=seed, harness=hb, driver=db, notes=notes)
        for kind, detail, inp in spec["extra"](ctx):
            if kind == "PROPFAIL":
                prop_failures.append(("extra", detail, inp, ""))
            elif kind == "DIFF":
                tie_failures.append(("extra", detail, inp, ""))
            elif kind == "EVAL":
                evaluations += int(detail)
            elif kind == "INFRA":
                infra_errors.append(detail)

    return dict(spec=spec, obligations=obligations, discharged=discharged, evaluations=evaluations,
                nontrivial=nontrivial, samples=samples, hist=hist, notes=notes,
                proof_failures=proof_failures, tie_failures=tie_failures, prop_failures=prop_failures,
                infra_errors=infra_errors, theorems=theorems + [t for _, ts in extra_thms for t in ts],
                axioms_used=axioms_used, checker_cmd=checker_cmd, coq_wall=coq.get("wall", 0))


def run_property(spec, tier, seed, replay=None):
    return run_multi([spec], tier, seed, replay)


def run_multi(specs, tier, seed, replay=None):
    """Run several specs that together decide one property (same id) and merge them."""
    t0 = time.time()
    pid = specs[0]["id"]
    results = []
    for sp in specs:
        if replay:
            rp = json.load(open(replay))
            if rp.get("spec") and rp["spec"] != sp.get("name", sp["group"]):
                continue
        results.append(_run_one(sp, tier, seed, replay))
    if not results:
        results = [_run_one(specs[0], tier, seed, replay)]
    obligations = sum(r["obligations"] for r in results)
    discharged = sum(r["discharged"] for r in results)
    evaluations = sum(r["evaluations"] for r in results)
    nontrivial = set()
    samples, notes, theorems = [], [], []
    proof_failures, tie_failures, prop_failures, infra_errors = [], [], [], []
    hist = {}
    axioms_used = set()
    trusted, assumptions, rules, cmds = [], [], [], []
    for r in results:
        name = r["spec"].get("name", r["spec"]["group"])
        nontrivial |= set((name, k) for k in r["nontrivial"])
        samples += r["samples"][:3]
        notes += ["[%s] %s" % (name, n) for n in r["notes"]]
        theorems += r["theorems"]
        proof_failures += r["proof_failures"]
        tie_failures += [t + (name,) for t in r["tie_failures"]]
        prop_failures += [t + (name,) for t in r["prop_failures"]]
        infra_errors += r["infra_errors"]
        for k, v in r["hist"].items():
            hist[k] = hist.get(k, 0) + v
        axioms_used |= r["axioms_used"]
        for x in r["spec"]["trusted_base"]:
            if x not in trusted:
                trusted.append(x)
        for x in r["spec"]["assumptions"]:
            if x not in assumptions:
                assumptions.append(x)
        rules.append(r["spec"]["rule"] if len(results) == 1 else "[%s] %s" % (name, r["spec"]["rule"]))
        if r["checker_cmd"] not in cmds:
            cmds.append(r["checker_cmd"])
    spec = dict(specs[0])
    spec["trusted_base"] = trusted
    spec["assumptions"] = assumptions
    spec["rule"] = " ".join(rules)
    checker_cmd = "; ".join(cmds)
    coq = dict(wall=sum(r["coq_wall"] for r in results))

    # 6. verdict ---------------------------------------------------------------
    exit_code = 0
    out_lines = []
    known_seen = []
    new_violations = 0
    sig = spec.get("signature") or (lambda d, o: d)
    reported = 0
    # shortest failing inputs first (cheap shrinking: prefer the smallest witnesses)
    for (i, d, inp, obs, sname) in sorted(prop_failures, key=lambda t: len(t[2])):
        s = sig(d, obs or inp)
        kf = C.match_known(pid, s)
        if kf:
            if kf["id"] not in known_seen:
                known_seen.append(kf["id"])
                out_lines.append("KNOWN-FINDING: property=%s %s" % (pid, kf["text"]))
            continue
        new_violations += 1
        exit_code = 1
        if reported >= 3:
            continue
        reported += 1
        path = C.write_replay(pid, dict(property=pid, seed=int(seed), spec=sname,
                                        failed="property checker (extracted, proved sound)",
                                        detail=d, inputs=[inp], observation=obs))
        out_lines.append("VIOLATION property=%s replay=%s" % (pid, path))
    if not any(l.startswith("VIOLATION") for l in out_lines):
        broken = []
        if proof_failures:
            broken += ["proof obligation: " + p for p in proof_failures]
        if tie_failures:
            broken += ["correspondence: [%s] case %s %s" % (t[4], t[0], t[1]) for t in tie_failures[:5]]
        if infra_errors:
            broken += ["machinery: " + e for e in infra_errors[:3]]
        if broken:
            path = C.write_replay(pid, dict(property=pid, seed=int(seed), failed=broken,
                                            spec=(tie_failures[0][4] if tie_failures else None),
                                            inputs=[t[2] for t in tie_failures[:5]],
                                            observation=[t[3] for t in tie_failures[:5]],
                                            note="no failing input found: the property is no longer shown to hold"))
            out_lines.append("VIOLATION property=%s replay=%s no-failing-input-found" % (pid, path))
            new_violations += 1
            exit_code = 1

    coverage = {
        "obligations": obligations,
        "discharged": discharged,
        "checker_cmd": checker_cmd,
        "trusted_base": spec["trusted_base"] + (["axioms reported by Print Assumptions: " + ", ".join(sorted(axioms_used))] if axioms_used else ["Print Assumptions: all property theorems closed under the global context"]),
        "evaluations": evaluations,
        "distinct_nontrivial": len(nontrivial),
        "rule": spec["rule"],
        "samples": samples,
        "theorems": theorems,
        "input_histogram": hist,
        "known_findings_seen": known_seen,
        "notes": notes,
        "coq_build_s": round(coq.get("wall", 0), 1),
    }
    C.write_evidence(pid, tier, seed, coverage, spec["assumptions"], time.time() - t0, new_violations)
    for l in out_lines:
        print(l)
    if exit_code == 0:
        print("OK property=%s tier=%s obligations=%d/%d evaluations=%d nontrivial=%d wall=%.1fs" % (
            pid, tier, discharged, obligations, evaluations, len(nontrivial), time.time() - t0))
    else:
        for p in proof_failures[:5]:
            C.log("  broken obligation:", p)
        for t in tie_failures[:5]:
            C.log("  correspondence:", t[0], t[1])
        for e in infra_errors[:3]:
            C.log("  machinery:", e[:1500])
    return exit_code
