"""Shared machinery of the /verif checks (python3, standard library only).

A check of property Cnn does, in this order (see DESIGN.md section 2.4):
  1. optional translator: regenerate coq/<group>/Gen*.v from /repo's working tree;
  2. build the Coq development of the group (full .vo build through coq_makefile),
     audit it (no Admitted/Axiom/..., every property theorem Qed-closed, its
     `Print Assumptions` inside the allow-list);
  3. build the Rust harness against /repo's working tree (hooks on) and the OCaml
     driver around the extracted model;
  4. corpus + generated cases -> implementation observations -> extracted model and
     extracted property checker -> one verdict per case (OK / PROPFAIL / DIFF);
  5. when a proof obligation or the correspondence broke: search for a concrete
     failing input; report VIOLATION (with `no-failing-input-found` when none);
  6. known findings, evidence file, exit code.
"""
import fcntl
import hashlib
import json
import os
import re
import shutil
import subprocess
import sys
import time
from concurrent.futures import ThreadPoolExecutor

VERIF = os.path.dirname(os.path.dirname(os.path.abspath(__file__)))
# The checks decide /repo. For validating the machinery against seeded changes
# without disturbing /repo (other work may be building there), VERIF_REPO may
# name a scratch copy / worktree of the repository: the harness crate is then
# copied with its path dependencies rewritten and built in its own target dir.
REPO = os.environ.get("VERIF_REPO", "/repo").rstrip("/") or "/repo"
BUILD = os.path.join(VERIF, "build")
ALT = None if REPO == "/repo" else "alt-" + hashlib.sha1(REPO.encode()).hexdigest()[:8]
CARGO_TARGET = os.path.join(BUILD, "cargo") if ALT is None else os.path.join(BUILD, ALT, "cargo")
# evidence and replays of runs against a scratch repository never overwrite the real ones
REPLAYS = os.path.join(VERIF, "replays") if ALT is None else os.path.join(BUILD, ALT, "replays")
EVIDENCE = os.path.join(VERIF, "evidence") if ALT is None else os.path.join(BUILD, ALT, "evidence")
JOBS = 16

ENV = dict(os.environ)
ENV.update({"CARGO_NET_OFFLINE": "true", "CARGO_TARGET_DIR": CARGO_TARGET})

# Axioms that may appear under `Print Assumptions` (all declared by the standard
# library / Flocq's dependencies, none by this development); anything else fails
# the audit.  Kernel primitives (primitive floats / int63) are not axioms.
AXIOM_ALLOW = {
    "ClassicalDedekindReals.sig_forall_dec",
    "ClassicalDedekindReals.sig_not_dec",
    "FunctionalExtensionality.functional_extensionality_dep",
    "Classical_Prop.classic",
    "functional_extensionality_dep",
    "sig_forall_dec",
    "sig_not_dec",
    "classic",
    "Eqdep.Eq_rect_eq.eq_rect_eq",
    "eq_rect_eq",
    "JMeq.JMeq_eq",
    "JMeq_eq",
    "ProofIrrelevance.proof_irrelevance",
    "proof_irrelevance",
    "propositional_extensionality",
    "PropExtensionality.propositional_extensionality",
}
PRIMITIVE_PREFIXES = ("PrimFloat.", "PrimInt63.", "Uint63.", "Sint63.", "FloatOps.", "PrimArray.",
                      "float", "int", "add", "sub", "mul", "div", "eqb", "ltb", "leb", "of_uint63",
                      "normfr_mantissa", "frshiftexp", "ldshiftexp", "next_up", "next_down",
                      "abs", "sqrt", "opp", "compare", "classify", "lsl", "lsr", "land", "lor",
                      "lxor", "mod", "divs", "mods", "asr", "head0", "tail0", "addc", "addcarryc",
                      "subc", "subcarryc", "mulc", "diveucl", "diveucl_21", "addmuldiv", "compares",
                      "ltsb", "lesb", "of_sint63", "Equiv")

FORBIDDEN = re.compile(
    r"\b(Admitted|admit|Axiom|Axioms|Parameter|Parameters|Conjecture|Conjectures|Admit Obligations)\b"
    r"|Unset\s+Guard|Unset\s+Positivity|Unset\s+Universe|bypass_check|type-in-type|impredicative-set"
    r"|^\s*(Variable|Variables|Hypothesis|Hypotheses)\b")


def log(*a):
    print(*a, file=sys.stderr, flush=True)


def sh(cmd, cwd=None, timeout=3600, env=None, stdin=None, check=False):
    """Run a shell command, return (rc, stdout+stderr)."""
    try:
        p = subprocess.run(cmd, shell=isinstance(cmd, str), cwd=cwd, env=env or ENV,
                           stdout=subprocess.PIPE, stderr=subprocess.STDOUT,
                           timeout=timeout, stdin=stdin)
        out = p.stdout.decode("utf-8", "replace")
        rc = p.returncode
    except subprocess.TimeoutExpired as e:
        out = (e.stdout or b"").decode("utf-8", "replace") + "\nTIMEOUT after %ss" % timeout
        rc = 124
    if check and rc != 0:
        raise RuntimeError("command failed (%d): %s\n%s" % (rc, cmd, out[-4000:]))
    return rc, out


class Lock:
    """File lock so that concurrent checks do not run the same build twice at once."""

    def __init__(self, name):
        os.makedirs(BUILD, exist_ok=True)
        self.path = os.path.join(BUILD, name + ".lock")

    def __enter__(self):
        self.f = open(self.path, "w")
        fcntl.flock(self.f, fcntl.LOCK_EX)
        return self

    def __exit__(self, *a):
        fcntl.flock(self.f, fcntl.LOCK_UN)
        self.f.close()


def write_if_changed(path, text):
    try:
        if open(path).read() == text:
            return False
    except OSError:
        pass
    os.makedirs(os.path.dirname(path), exist_ok=True)
    with open(path, "w") as f:
        f.write(text)
    return True


# --------------------------------------------------------------------------- Coq

def coq_dir(group):
    return os.path.join(VERIF, "coq", group)


def coq_files(group):
    d = coq_dir(group)
    out = []
    for line in open(os.path.join(d, "_CoqProject")):
        line = line.strip()
        if line.endswith(".v"):
            out.append(os.path.join(d, line))
    return out


def coq_deps(group):
    """Groups this group depends on (from the -Q ../x lines of its _CoqProject)."""
    deps = []
    for line in open(os.path.join(coq_dir(group), "_CoqProject")):
        m = re.match(r"\s*-Q\s+\.\./(\w+)\s+", line)
        if m and m.group(1) != group:
            deps.append(m.group(1))
    return deps


# groups whose Coq sources contain files regenerated from /repo (Gen*.v) and the property module whose
# SPEC carries the translator.  A check that imports such a group regenerates those files first, so that
# what it builds always reflects the CURRENT tree (never what an earlier run against another tree left).
GROUP_TRANSLATORS = {
    "stripe": "props.c04", "score": "props.c01", "maxi": "props.c07", "encode": "props.c05", "pwm": "props.c10",
    "disc": "props.c08", "scan": "props.c02", "dist": "props.c11", "io": "props.io_specs:C14_SPEC",
    "sampler": "props.c16", "tfm": "props.c12", "transfac": "props.transfac_specs:C14_SPEC",
    "dense": "props.c19", "footprint": "props.c06", "pyidx": "props.c18:C18_SPEC", "pyglue": "props.c17",
}


# ---------------------------------------------------------------------------------------------------------
# Source pins: escalation of the differential search when the code differs from the tree the models were
# last validated against.  pins/source.json (committed; written only by tools/repin.py) maps every Rust source
# file of the four crates to the sha1 of its text with comments and white space removed.  A difference NEVER
# is a violation by itself (a harmless rewrite must stay quiet): it only makes the quick tier generate its
# cases with the thorough-tier generator and `escalate` times as many of them, because a change to the code
# is exactly the situation in which rare inputs matter.  Files are attributed to properties by crate.
PINS = os.path.join(VERIF, "pins", "source.json")
CRATE_SRC = {
    "core": "lightmotif/src", "io": "lightmotif-io/src", "tfm": "lightmotif-tfmpvalue/src", "py": "lightmotif-py/lightmotif",
}
PROP_CRATES = {
    "C12": ("tfm", "core"), "C13": ("tfm", "core"), "C14": ("io", "core"), "C15": ("io", "core"),
    "C17": ("py", "core", "io", "tfm"), "C18": ("py", "core"),
}


def _strip_rust(text):
    """Remove // and /* */ comments (outside string literals, approximately) and all white space."""
    out, i, n = [], 0, len(text)
    while i < n:
        c = text[i]
        if c == '"':
            j = i + 1
            while j < n and text[j] != '"':
                j += 2 if text[j] == "\\" else 1
            out.append(text[i:j + 1])
            i = j + 1
        elif text.startswith("//", i):
            j = text.find("\n", i)
            i = n if j < 0 else j
        elif text.startswith("/*", i):
            j = text.find("*/", i + 2)
            i = n if j < 0 else j + 2
        elif c.isspace():
            i += 1
        else:
            out.append(c)
            i += 1
    return "".join(out)


def source_fingerprints(repo=None):
    repo = repo or REPO
    fp = {}
    for crate, rel in CRATE_SRC.items():
        base = os.path.join(repo, rel)
        for root, _dirs, files in os.walk(base):
            if "/tests" in root[len(base):] or "/target" in root:
                continue
            for f in files:
                if f.endswith(".rs"):
                    path = os.path.join(root, f)
                    try:
                        txt = open(path, encoding="utf-8", errors="replace").read()
                    except OSError:
                        continue
                    fp[os.path.relpath(path, repo)] = hashlib.sha1(_strip_rust(txt).encode()).hexdigest()
    return fp


def source_changed(pid):
    """Source files (relative paths) relevant to property `pid` whose normalised text differs from the pin;
    None when there is no pin file (then nothing is escalated)."""
    try:
        pins = json.load(open(PINS))["files"]
    except (OSError, ValueError, KeyError):
        return None
    now = source_fingerprints()
    crates = PROP_CRATES.get(pid, ("core",))
    prefixes = tuple(CRATE_SRC[c] + "/" for c in crates)
    changed = [f for f in sorted(set(pins) | set(now)) if pins.get(f) != now.get(f) and f.startswith(prefixes)]
    return changed


def all_coq_deps(group):
    seen, stack = [], list(coq_deps(group))
    while stack:
        g = stack.pop()
        if g not in seen:
            seen.append(g)
            stack.extend(coq_deps(g))
    return seen


def translate_deps(group):
    """Run the translators of every group `group` imports (transitively). Returns a list of notes."""
    import importlib
    notes = []
    for g in all_coq_deps(group):
        modname = GROUP_TRANSLATORS.get(g)
        if not modname:
            continue
        try:
            attr = "SPEC"
            if ":" in modname:
                modname, attr = modname.split(":", 1)
            mod = importlib.import_module(modname)
            spec = getattr(mod, attr, None)
            if spec is None and hasattr(mod, "SPECS"):
                spec = mod.SPECS[0]
            tr = spec.get("translate") if spec else None
            if tr:
                r = tr()
                if not r.get("ok", True):
                    notes.append("translator of imported group %s: %s" % (g, "; ".join(r.get("errors", ["failed"]))))
        except Exception as e:  # the imported group's own check reports this; here it is only a note
            notes.append("translator of imported group %s raised %r" % (g, e))
    return notes


def _make_group(group, timeout):
    d = coq_dir(group)
    with Lock("coq-" + group):
        mk = os.path.join(d, "Makefile")
        proj = os.path.join(d, "_CoqProject")
        if not os.path.exists(mk) or os.path.getmtime(mk) < os.path.getmtime(proj):
            sh("coq_makefile -f _CoqProject -o Makefile", cwd=d, check=True)
        rc, out = sh("make -j%d TIMED=0 2>&1" % JOBS, cwd=d, timeout=timeout)
    return rc, out


def build_coq(group, timeout=2400):
    """Full .vo build of a group and of the groups it depends on.
    Returns dict(ok, log, failed_file, failed_line, failed_theorem)."""
    t0 = time.time()
    order = []

    def visit(g):
        for dep in coq_deps(g):
            visit(dep)
        if g not in order:
            order.append(g)
    visit(group)
    full = ""
    for g in order:
        rc, out = _make_group(g, timeout)
        full += "== make coq/%s ==\n%s\n" % (g, out)
        if rc != 0:
            m = re.search(r'File "([^"]+)", line (\d+)', out)
            ffile = fline = fthm = None
            if m:
                ffile = m.group(1)
                if not os.path.isabs(ffile):
                    ffile = os.path.normpath(os.path.join(coq_dir(g), ffile))
                fline = int(m.group(2))
                fthm = enclosing_statement(ffile, fline)
            return dict(ok=False, log=full, failed_group=g, failed_file=ffile, failed_line=fline,
                        failed_theorem=fthm, wall=time.time() - t0)
    return dict(ok=True, log=full, wall=time.time() - t0)


STMT_RE = re.compile(r"^\s*(?:Local\s+|Global\s+|Program\s+)*(Theorem|Lemma|Corollary|Example|Fact|Remark|Proposition|Definition|Fixpoint|Instance)\s+([\w']+)")


def enclosing_statement(path, line):
    name = None
    try:
        for i, l in enumerate(open(path), 1):
            if i > line:
                break
            m = STMT_RE.match(l)
            if m:
                name = m.group(2)
    except OSError:
        pass
    return name


def theorems_of(path):
    """Names of the Theorem/Lemma/Corollary statements of a property file."""
    out = []
    for l in open(path):
        m = re.match(r"^\s*(Theorem|Lemma|Corollary)\s+([\w']+)", l)
        if m:
            out.append(m.group(2))
    return out


def theorem_statements(path):
    """name -> sha1 of the statement text (from `Theorem name` up to the first `Proof`), white space normalised."""
    try:
        txt = open(path).read()
    except OSError:
        return {}
    out = {}
    for m in re.finditer(r"^[ \t]*(Theorem|Lemma|Corollary)\s+([\w']+)(.*?)^[ \t]*Proof\b", txt, re.S | re.M):
        out[m.group(2)] = hashlib.sha1(" ".join(m.group(3).split()).encode()).hexdigest()[:16]
    return out


THEOREM_PINS = os.path.join(VERIF, "pins", "theorems.json")


def pinned_theorem_failures(pid, files):
    """The statements of the property theorems are pinned (pins/theorems.json, written by tools/repin.py after
    review): a pinned theorem that disappeared from its property file, or whose statement text changed, is a broken
    obligation - the property files cannot be weakened quietly.  New theorems are always welcome."""
    try:
        pins = json.load(open(THEOREM_PINS)).get(pid, {})
    except (OSError, ValueError):
        return []
    now = {}
    for f in files:
        now.update(theorem_statements(f))
    bad = []
    for name, h in pins.items():
        if name not in now:
            bad.append("pinned theorem %s is no longer in the property files of %s" % (name, pid))
        elif now[name] != h:
            bad.append("statement of pinned theorem %s changed (pins/theorems.json; repin after review)" % name)
    return bad


def forbidden_scan(groups):
    """Scan the .v sources of the groups for constructs that declare axioms or switch
    off kernel checks.  Variable/Hypothesis are allowed inside a Section only."""
    bad = []
    for g in groups:
        for f in coq_files(g):
            depth = 0
            comment = 0
            for i, raw in enumerate(open(f), 1):
                # strip comments (nesting-aware, line-based approximation)
                line = ""
                j = 0
                while j < len(raw):
                    if raw.startswith("(*", j):
                        comment += 1
                        j += 2
                    elif raw.startswith("*)", j) and comment > 0:
                        comment -= 1
                        j += 2
                    else:
                        if comment == 0:
                            line += raw[j]
                        j += 1
                if re.match(r"^\s*(Section|Module)\b", line) and not re.match(r"^\s*Module\s+(Import|Export)\b", line):
                    depth += 1
                if re.match(r"^\s*End\b", line):
                    depth = max(0, depth - 1)
                m = FORBIDDEN.search(line)
                if m:
                    tok = m.group(0).strip()
                    if tok.split()[0] in ("Variable", "Variables", "Hypothesis", "Hypotheses", "Context") and depth > 0:
                        continue
                    bad.append("%s:%d: %s" % (os.path.relpath(f, VERIF), i, tok))
    return bad


def audit_theorems(group, module, theorems, timeout=600):
    """Print Assumptions for each theorem of `module`; returns dict name -> list of
    axioms ([] = closed under the global context) or None when the theorem is missing."""
    d = os.path.join(BUILD, "audit")
    os.makedirs(d, exist_ok=True)
    tag = module.replace(".", "_")
    src = os.path.join(d, "Audit_%s.v" % tag)
    qargs = []
    groups = [group] + coq_deps(group)
    seen = set()
    stack = list(groups)
    while stack:
        g = stack.pop()
        if g in seen:
            continue
        seen.add(g)
        stack.extend(coq_deps(g))
    for g in sorted(seen):
        for line in open(os.path.join(coq_dir(g), "_CoqProject")):
            m = re.match(r"\s*-Q\s+(\S+)\s+(\S+)", line)
            if m:
                p = os.path.normpath(os.path.join(coq_dir(g), m.group(1)))
                qa = "-Q %s %s" % (p, m.group(2))
                if qa not in qargs:
                    qargs.append(qa)
    body = "Require Import %s.\n" % module
    for t in theorems:
        body += 'Goal True. idtac "@@BEGIN %s". Abort.\nPrint Assumptions %s.\nGoal True. idtac "@@END %s". Abort.\n' % (t, t, t)
    open(src, "w").write(body)
    rc, out = sh("coqc -noglob %s %s" % (" ".join(qargs), src), cwd=d, timeout=timeout)
    res = {}
    for t in theorems:
        m = re.search(r"@@BEGIN %s\n(.*?)@@END %s" % (re.escape(t), re.escape(t)), out, re.S)
        if not m:
            res[t] = None
            continue
        txt = m.group(1)
        if "Closed under the global context" in txt:
            res[t] = []
            continue
        axs = []
        for l in txt.splitlines():
            # `name : type` on one line, or the name alone when Coq breaks the line before a long type
            mm = re.match(r"^([\w.']+)\s*(:|$)", l)
            if mm and l[0] not in " \t" and mm.group(1) not in ("Axioms", "Fetching", "Opaque", "Transparent"):
                axs.append(mm.group(1))
        res[t] = axs
    return res, out


def qargs_for(group):
    """-Q arguments (absolute paths) of a group and of every group it depends on."""
    seen, stack, qargs = set(), [group], []
    while stack:
        g = stack.pop()
        if g in seen:
            continue
        seen.add(g)
        stack.extend(coq_deps(g))
    for g in sorted(seen):
        for line in open(os.path.join(coq_dir(g), "_CoqProject")):
            m = re.match(r"\s*-Q\s+(\S+)\s+(\S+)", line)
            if m:
                p = os.path.normpath(os.path.join(coq_dir(g), m.group(1)))
                qa = "-Q %s %s" % (p, m.group(2))
                if qa not in qargs:
                    qargs.append(qa)
    return qargs


def coqchk(group, module, timeout=3000):
    """Re-check the compiled property module (and everything it depends on) with the
    independent checker; returns dict(ok, axioms, tail)."""
    rc, out = sh("coqchk -o -silent %s %s" % (" ".join(qargs_for(group)), module), cwd=coq_dir(group), timeout=timeout)
    axioms = []
    m = re.search(r"\* Axioms:(.*?)\n\s*\n\* Constants/Inductives relying on type-in-type:(.*?)\n\s*\n\* Constants/Inductives relying on unsafe \(co\)fixpoints:(.*?)\n\s*\n\* Inductives whose positivity is assumed:(.*?)\n", out + "\n\n", re.S)
    ok = rc == 0 and m is not None
    unsafe = []
    if m:
        ax = m.group(1).strip()
        if ax != "<none>":
            axioms = [a.strip() for a in ax.splitlines() if a.strip()]
        for k in (2, 3, 4):
            if m.group(k).strip() != "<none>":
                unsafe.append(m.group(k).strip())
    return dict(ok=ok and not unsafe, axioms=axioms, unsafe=unsafe, tail=out[-1500:])


def axiom_ok(name):
    if name in AXIOM_ALLOW or name.split(".")[-1] in AXIOM_ALLOW:
        return True
    return False


def is_primitive(name):
    return name.startswith(("PrimFloat.", "PrimInt63.", "Uint63.", "Sint63.", "PrimArray.")) or \
        name in ("float", "int", "array")


# ------------------------------------------------------------------ Rust / OCaml

def harness_dir(name="harness"):
    """/verif/<name>, or — when VERIF_REPO points elsewhere — a copy of it whose
    path dependencies point to that repository."""
    src = os.path.join(VERIF, name)
    if ALT is None:
        return src
    dst = os.path.join(BUILD, ALT, name)
    os.makedirs(dst, exist_ok=True)
    for root, dirs, files in os.walk(src):
        dirs[:] = [d for d in dirs if d not in ("target",)]
        rel = os.path.relpath(root, src)
        os.makedirs(os.path.join(dst, rel), exist_ok=True)
        for f in files:
            if f == "Cargo.lock":
                continue
            text = open(os.path.join(root, f), "rb").read()
            if f == "Cargo.toml":
                text = text.replace(b'"/repo/', ('"%s/' % REPO).encode())
            d = os.path.join(dst, rel, f)
            try:
                if open(d, "rb").read() == text:
                    continue
            except OSError:
                pass
            open(d, "wb").write(text)
    return dst


def build_harness(bin_name, release=False, timeout=1800, features=None, extra_env=None):
    """cargo build of one harness binary against /repo's working tree (path deps)."""
    h = harness_dir()
    lock = os.path.join(h, "Cargo.lock")
    def repo_lock():
        p = os.path.join(REPO, "Cargo.lock")
        return p if os.path.exists(p) else "/repo/Cargo.lock"
    if not os.path.exists(lock):
        shutil.copy(repo_lock(), lock)
    env = dict(ENV)
    if extra_env:
        env.update(extra_env)
    with Lock("cargo" if ALT is None else "cargo-" + ALT):
        cmd = "cargo build --offline --bin %s%s" % (bin_name, " --release" if release else "")
        rc, out = sh(cmd, cwd=h, timeout=timeout, env=env)
        if rc != 0 and "Cargo.lock" in out and "lock file" in out:
            shutil.copy(repo_lock(), lock)
            rc, out = sh(cmd, cwd=h, timeout=timeout, env=env)
    path = os.path.join(env["CARGO_TARGET_DIR"], "release" if release else "debug", bin_name)
    return dict(ok=(rc == 0), log=out, path=path)


def build_driver(group, ml_modules, packages=("str",), extra_flags="", timeout=900):
    """Build the OCaml driver of a group from the extracted modules (written by the
    group's Extract.v into coq/<group>/) and ocaml/<group>/driver.ml."""
    out_dir = os.path.join(BUILD, "ocaml", group)
    os.makedirs(out_dir, exist_ok=True)
    srcs = []
    for m in ml_modules:
        for ext in (".mli", ".ml"):
            p = os.path.join(coq_dir(group), m + ext)
            if os.path.exists(p):
                srcs.append(p)
    srcs.append(os.path.join(VERIF, "ocaml", group, "driver.ml"))
    exe = os.path.join(out_dir, "driver")
    with Lock("ocaml-" + group):
        stale = not os.path.exists(exe) or any(os.path.getmtime(s) > os.path.getmtime(exe) for s in srcs)
        if stale:
            names = []
            for s in srcs:
                dst = os.path.join(out_dir, os.path.basename(s))
                shutil.copy(s, dst)
                names.append(os.path.basename(s))
            cmd = "ocamlfind ocamlopt -O3 -w -a %s -package %s -linkpkg %s -o driver" % (
                extra_flags, ",".join(packages), " ".join(names))
            rc, out = sh(cmd, cwd=out_dir, timeout=timeout)
            if rc != 0:
                return dict(ok=False, log=out, path=exe)
    return dict(ok=True, log="", path=exe)


def run_sharded(exe_cmd, lines, shards=JOBS, timeout=3600, env=None):
    """Feed `lines` to `exe_cmd` on stdin in parallel shards, keep the output order."""
    if not lines:
        return 0, []
    n = max(1, min(shards, len(lines)))
    chunks = [lines[i::n] for i in range(n)]

    def one(chunk):
        p = subprocess.run(exe_cmd, shell=True, input=("\n".join(chunk) + "\n").encode(),
                           stdout=subprocess.PIPE, stderr=subprocess.PIPE, env=env or ENV, timeout=timeout)
        return p.returncode, p.stdout.decode("utf-8", "replace").splitlines(), p.stderr.decode("utf-8", "replace")
    with ThreadPoolExecutor(max_workers=n) as ex:
        results = list(ex.map(one, chunks))
    rc = max(r[0] for r in results)
    outs = [r[1] for r in results]
    err = "".join(r[2] for r in results)
    merged = []
    # re-interleave so that output order matches input order when 1 line -> 1 line
    if all(len(o) == len(c) for o, c in zip(outs, chunks)):
        for i in range(len(lines)):
            merged.append(outs[i % n][i // n])
    else:
        for o in outs:
            merged.extend(o)
    return rc, merged, err


# ------------------------------------------------------------ findings / evidence

def load_known():
    """known_findings.json plus the per-group fragments known_findings.d/*.json
    (committed files, never written at run time)."""
    import glob
    out = {"findings": []}
    paths = [os.path.join(VERIF, "known_findings.json")] + sorted(glob.glob(os.path.join(VERIF, "known_findings.d", "*.json")))
    for p in paths:
        try:
            out["findings"].extend(json.load(open(p)).get("findings", []))
        except (OSError, ValueError):
            pass
    return out


def match_known(prop_id, signature):
    for f in load_known().get("findings", []):
        if f.get("property") == prop_id and f.get("status") == "known":
            if re.search(f.get("signature", "$^"), signature):
                return f
    return None


def write_replay(prop_id, payload):
    os.makedirs(REPLAYS, exist_ok=True)
    h = hashlib.sha1(json.dumps(payload, sort_keys=True).encode()).hexdigest()[:12]
    path = os.path.join(REPLAYS, "%s-%s.json" % (prop_id, h))
    with open(path, "w") as f:
        json.dump(payload, f, indent=1)
    return path


def write_evidence(prop_id, tier, seed, coverage, assumptions, wall, violations):
    os.makedirs(EVIDENCE, exist_ok=True)
    ev = {
        "property_id": prop_id,
        "tier": tier,
        "seed": int(seed),
        "level": "proof",
        "coverage": coverage,
        "assumptions": assumptions,
        "wall_s": round(wall, 2),
        "violations": int(violations),
    }
    with open(os.path.join(EVIDENCE, prop_id + ".json"), "w") as f:
        json.dump(ev, f, indent=1)
    return ev
