(* Driver for the extracted C07 models and property checkers.
   Reads observation lines produced by `maxi run` (see harness/src/bin/maxi.rs) and prints
     <id> OK | <id> PROPFAIL <why> | <id> DIFF <why>
   PROPFAIL: an answer of the implementation contradicts the property, as decided by the
   checkers extracted from Coq (check_C07 = check_max && check_argmax && check_threshold, and
   check_padding; proved sound: check_C07_sound / check_padding_sound in coq/maxi/C07.v): the reported maximum is not the largest cell value, the
   reported arg-maximum is out of range or does not hold the maximum, the threshold list is
   not exactly the qualifying cells (each once), None/Some is wrong, an entry point panicked
   where no explicit guard of the code applies, or two arms disagree on the maximum value /
   threshold set.  DIFF: the answer differs from the extracted model of that kernel (exact
   coordinates of the arg-maximum, bit pattern of the maximum, threshold list as a set) although
   the property checker passed. *)
open Maxi_model

(* Observed numbers may exceed OCaml's 63-bit int (e.g. a sign-extended row index printed as a u64): a decimal
   string too large for `int` saturates to max_int / min_int, so that it is judged as an out-of-range answer
   (PROPFAIL) instead of aborting the case with an exception (which would only be a DIFF). *)
let int_of_string s =
  try Stdlib.int_of_string s with Failure _ ->
    let n = String.length s in
    let st = if n > 0 && s.[0] = '-' then 1 else 0 in
    let ok = ref (n > st) in
    String.iteri (fun i ch -> if i >= st && not (ch >= '0' && ch <= '9') then ok := false) s;
    if !ok then (if st = 1 then min_int else max_int) else failwith ("int_of_string: " ^ s)

(* unary naturals are shared through a growing table: nat (n+1) = S (nat n), so that long
   lists of coordinates / offsets cost one word per distinct number *)
let nat_tbl = ref [| O |]
let nat_cap = 5_000_000   (* above every legitimate row, column, offset (65537 rows x 64 columns); an observed
                              number beyond it is out of range for every matrix the harness builds and is judged so *)
let nat_of_int n =
  let n = if n > nat_cap then nat_cap else n in
  if n <= 0 then O else begin
    let len = Array.length !nat_tbl in
    if n >= len then begin
      let nl = max (n + 1) (2 * len) in
      let a = Array.make nl O in
      Array.blit !nat_tbl 0 a 0 len;
      for i = len to nl - 1 do a.(i) <- S a.(i - 1) done;
      nat_tbl := a
    end;
    !nat_tbl.(n)
  end
let int_of_nat n = let rec go acc = function O -> acc | S k -> go (acc + 1) k in go 0 n
let rec pos_of_int n =
  if n = 1 then XH else if n land 1 = 0 then XO (pos_of_int (n lsr 1)) else XI (pos_of_int (n lsr 1))
let z_of_int n = if n = 0 then Z0 else if n > 0 then Zpos (pos_of_int n) else Zneg (pos_of_int (-n))
let n_of_int n = if n = 0 then N0 else Npos (pos_of_int n)
let rec int_of_pos = function XH -> 1 | XO p -> 2 * int_of_pos p | XI p -> 2 * int_of_pos p + 1
let int_of_z = function Z0 -> 0 | Zpos p -> int_of_pos p | Zneg p -> - (int_of_pos p)
let int_of_n = function N0 -> 0 | Npos p -> int_of_pos p

let split c s = if s = "" then [] else String.split_on_char c s
let kv tok = match String.index_opt tok '=' with
  | Some i -> (String.sub tok 0 i, String.sub tok (i + 1) (String.length tok - i - 1))
  | None -> (tok, "")

let parse_int_matrix s : int list list =
  if s = "-" || s = "" then [] else
  List.map (fun r -> List.map int_of_string (split ',' r)) (split '/' s)

(* `m=@<v>` (with R rows of `cols` cells) is a constant matrix, `p=r:c:v;...` overrides cells *)
let parse_matrix_fields (get_in : string -> string) (cols : int) : int list list =
  let ms = get_in "m" in
  let base =
    if String.length ms > 0 && ms.[0] = '@' then begin
      let v = int_of_string (String.sub ms 1 (String.length ms - 1)) in
      let rows = int_of_string (get_in "R") in
      let row = List.init cols (fun _ -> v) in
      List.init rows (fun _ -> row)
    end else parse_int_matrix ms in
  match (try Some (get_in "p") with Not_found -> None) with
  | None | Some "" -> base
  | Some ps ->
      let tbl = Hashtbl.create 16 in
      List.iter (fun cell -> match List.map int_of_string (String.split_on_char ':' cell) with
                 | [r; c; v] -> Hashtbl.replace tbl (r, c) v
                 | _ -> failwith ("bad planted cell " ^ cell)) (split ';' ps);
      let rows_hit = Hashtbl.create 16 in
      Hashtbl.iter (fun (r, _) _ -> Hashtbl.replace rows_hit r ()) tbl;
      List.mapi (fun r row ->
        if Hashtbl.mem rows_hit r then
          List.mapi (fun c x -> match Hashtbl.find_opt tbl (r, c) with Some v -> v | None -> x) row
        else row) base

(* ---- observations ---- *)
type 'a ans = Panicked | Ans of 'a | Missing

let obs_opt conv (s : string option) : 'a option ans =
  match s with
  | None -> Missing
  | Some "P" -> Panicked
  | Some "N" -> Ans None
  | Some x -> Ans (Some (conv x))

let parse_coord s = match String.split_on_char ':' s with
  | [r; c] -> (int_of_string r, int_of_string c)
  | _ -> failwith ("bad coordinate " ^ s)

let obs_list conv (s : string option) : 'a list ans =
  match s with
  | None -> Missing
  | Some "P" -> Panicked
  | Some "-" -> Ans []
  | Some x -> Ans (List.map conv (split ',' x))

let coord_to_nat (r, c) = (nat_of_int r, nat_of_int c)
let coord_of_nat (r, c) = (int_of_nat r, int_of_nat c)

let show_coord (r, c) = Printf.sprintf "%d:%d" r c
let show_coords l = if l = [] then "-" else String.concat "," (List.map show_coord l)

(* model results -> comparable form *)
type 'a mres = MPanic of int | MOk of 'a | MOther
let of_res conv = function
  | Ok x -> MOk (conv x)
  | Panic n -> MPanic (int_of_nat n)
  | _ -> MOther

(* ---- generic case runner, parameterised by the element type ---- *)
type 'v elt = {
  parse : string -> 'v;                 (* observation token -> value *)
  of_int : int -> 'v;
  same : 'v -> 'v -> bool;              (* exact equality used against the model (NaN-insensitive bits) *)
  show : 'v -> string;
  in_domain : 'v -> bool;               (* the property speaks of non-NaN cells only *)
  chk_max : 'v list list -> 'v option -> bool;
  chk_argmax : 'v list list -> (nat * nat) option -> bool;
  chk_threshold : 'v list list -> 'v -> (nat * nat) list -> bool;
  chk_all : 'v list list -> 'v -> 'v option -> (nat * nat) option -> (nat * nat) list -> bool;  (* check_C07 *)
  value_eq : 'v -> 'v -> bool;          (* equality as values (le both ways) *)
}

let verdict = ref "OK"
let set_v v =
  (* a PROPFAIL replaces a DIFF, the first of each kind is kept *)
  if !verdict = "OK" then verdict := v
  else if String.length v >= 8 && String.sub v 0 8 = "PROPFAIL"
          && not (String.length !verdict >= 8 && String.sub !verdict 0 8 = "PROPFAIL") then verdict := v

let propfail fmt = Printf.ksprintf (fun s -> set_v ("PROPFAIL " ^ s)) fmt
let diff fmt = Printf.ksprintf (fun s -> set_v ("DIFF " ^ s)) fmt

let sort_coords l = List.sort compare l

(* check_C07 verdicts of the current case: entry points that report the same (max, argmax,
   threshold set) for the same matrix and threshold get the same verdict, evaluated once *)
let all_memo : (string * (int * int) option * (int * int) list, bool) Hashtbl.t = Hashtbl.create 16
let chk_all_memo (e : 'v elt) m t o1 (o2 : (int * int) option) (sorted : (int * int) list) =
  let key = ((match o1 with None -> "N" | Some v -> e.show v), o2, sorted) in
  match Hashtbl.find_opt all_memo key with
  | Some b -> b
  | None ->
      let oc = match o2 with None -> None | Some rc -> Some (coord_to_nat rc) in
      let b = e.chk_all m t o1 oc (List.map coord_to_nat sorted) in
      Hashtbl.replace all_memo key b; b

(* check one entry point returning coordinates *)
let check_entry (e : 'v elt) (m : 'v list list) (t : 'v) (domain : bool) (get : string -> string option)
    (name : string)
    (model_max : 'v option mres Lazy.t) (model_am : (int * int) option mres Lazy.t)
    (model_th : (int * int) list Lazy.t) (gmax : 'v option ans ref) =
  (* the three answers together, through the checker proved sound in C07.v (check_C07_sound);
     when it accepts, the component checks below (which only serve to say which part failed)
     are skipped: check_C07 is their conjunction *)
  let all_ok =
    match obs_opt e.parse (get (name ^ ".max")), obs_opt parse_coord (get (name ^ ".am")),
          obs_list parse_coord (get (name ^ ".th")) with
    | Ans o1, Ans o2, Ans l when domain ->
        Some (chk_all_memo e m t o1 o2 (sort_coords l))
    | _ -> None in
  let need = all_ok <> Some true in
  (* maximum *)
  (match obs_opt e.parse (get (name ^ ".max")), Lazy.force model_max with
   | Missing, _ -> diff "%s.max missing" name
   | Panicked, MPanic _ -> ()
   | Panicked, _ -> propfail "%s.max panicked" name
   | Ans o, mm ->
       if need && domain && not (e.chk_max m o) then
         propfail "%s.max=%s is not the largest cell value (or None/Some wrong)" name
           (match o with None -> "None" | Some v -> e.show v)
       else begin
         (match !gmax, o with
          | Ans (Some a), Some b when domain && not (e.value_eq a b) -> propfail "%s.max disagrees with g.max" name
          | _ -> ());
         match mm with
         | MOk mo ->
             (match o, mo with
              | None, None -> ()
              | Some a, Some b when e.same a b -> ()
              | _ -> diff "%s.max=%s model=%s" name
                       (match o with None -> "None" | Some v -> e.show v)
                       (match mo with None -> "None" | Some v -> e.show v))
         | MPanic k -> diff "%s.max model panics (%d), implementation answers" name k
         | MOther -> diff "%s.max model failed" name
       end);
  (* arg-maximum *)
  (match obs_opt parse_coord (get (name ^ ".am")), Lazy.force model_am with
   | Missing, _ -> diff "%s.am missing" name
   | Panicked, MPanic _ -> ()
   | Panicked, _ -> propfail "%s.argmax panicked" name
   | Ans o, mm ->
       if need && domain && not (e.chk_argmax m (match o with None -> None | Some rc -> Some (coord_to_nat rc))) then
         propfail "%s.argmax=%s out of range or not holding the maximum (or None/Some wrong)" name
           (match o with None -> "None" | Some rc -> show_coord rc)
       else
         match mm with
         | MOk mo -> if o <> mo then diff "%s.argmax=%s model=%s" name
                         (match o with None -> "None" | Some rc -> show_coord rc)
                         (match mo with None -> "None" | Some rc -> show_coord rc)
         | MPanic k -> diff "%s.argmax model panics (%d), implementation answers" name k
         | MOther -> diff "%s.argmax model failed" name);
  (* threshold *)
  (match obs_list parse_coord (get (name ^ ".th")) with
   | Missing -> diff "%s.th missing" name
   | Panicked -> propfail "%s.threshold panicked" name
   | Ans l ->
       let sorted = List.map coord_to_nat (sort_coords l) in
       if need && domain && not (e.chk_threshold m t sorted) then
         propfail "%s.threshold is not exactly the cells >= t (%d reported)" name (List.length l)
       (* the order of the reported list is unspecified: compared with the model as a set *)
       else if sort_coords l <> sort_coords (Lazy.force model_th) then diff "%s.threshold differs from the model (as a set)" name);
  if all_ok = Some false then propfail "%s: check_C07 rejects (max, argmax, threshold)" name

(* StripedScores-level entry point: offsets *)
let check_striped (e : 'v elt) (m : 'v list list) (t : 'v) (domain : bool) (get : string -> string option)
    (name : string) (rows : int) (cols : int)
    (model_max : 'v option mres Lazy.t) (model_am : int option mres Lazy.t)
    (model_th : int list Lazy.t) (model_cell : int -> 'v mres) =
  let decode off = if rows > 0 && off >= 0 && off < rows * cols then Some (off mod rows, off / rows) else None in
  (* all three answers through check_C07 first (offsets decoded to coordinates); the component
     checks below are only evaluated when it does not accept *)
  let all_ok =
    match obs_opt e.parse (get (name ^ ".max")), obs_opt int_of_string (get (name ^ ".am")),
          obs_list int_of_string (get (name ^ ".th")) with
    | Ans o1, Ans o2, Ans l when domain ->
        let oc = match o2 with None -> Some None | Some off -> (match decode off with Some rc -> Some (Some rc) | None -> None) in
        let dec = List.map decode l in
        (match oc with
         | Some oc when not (List.exists (fun x -> x = None) dec) ->
             let coords = List.map (function Some rc -> rc | None -> (0, 0)) dec in
             Some (chk_all_memo e m t o1 oc (sort_coords coords))
         | _ -> Some false)
    | _ -> None in
  let need = all_ok <> Some true in
  (match obs_opt e.parse (get (name ^ ".max")), Lazy.force model_max with
   | Missing, _ -> diff "%s.max missing" name
   | Panicked, MPanic _ -> ()
   | Panicked, _ -> propfail "%s.max panicked" name
   | Ans o, mm ->
       if need && domain && not (e.chk_max m o) then propfail "%s.max is not the largest cell value (or None/Some wrong)" name
       else (match mm, o with
             | MOk None, None -> ()
             | MOk (Some b), Some a when e.same a b -> ()
             | _ -> diff "%s.max differs from the model" name));
  (match obs_opt int_of_string (get (name ^ ".am")), Lazy.force model_am with
   | Missing, _ -> diff "%s.am missing" name
   | Panicked, MPanic _ -> ()
   | Panicked, _ -> propfail "%s.argmax panicked" name
   | Ans o, mm ->
       let as_coord = match o with
         | None -> Some None
         | Some off -> (match decode off with Some rc -> Some (Some (coord_to_nat rc)) | None -> None) in
       (match as_coord with
        | None -> propfail "%s.argmax offset out of range" name
        | Some oc ->
            if need && domain && not (e.chk_argmax m oc) then propfail "%s.argmax offset does not designate a cell holding the maximum (or None/Some wrong)" name
            else begin
              (match mm with
               | MOk mo -> if o <> mo then diff "%s.argmax offset=%s model=%s" name
                               (match o with None -> "None" | Some x -> string_of_int x)
                               (match mo with None -> "None" | Some x -> string_of_int x)
               | _ -> diff "%s.argmax model panics, implementation answers" name);
              (* scores[offset] returns the designated cell *)
              match o with
              | Some off ->
                  (match obs_opt e.parse (get (name ^ ".ix")), model_cell off with
                   | Ans (Some v), MOk c -> if not (e.same v c) then propfail "%s: scores[argmax offset] is not the designated cell" name
                   | Panicked, _ -> propfail "%s: scores[argmax offset] panicked" name
                   | _ -> diff "%s.ix missing or model failed" name)
              | None -> ()
            end));
  (match obs_list int_of_string (get (name ^ ".th")) with
   | Missing -> diff "%s.th missing" name
   | Panicked -> propfail "%s.threshold panicked" name
   | Ans l ->
       let dec = List.map decode l in
       if List.exists (fun x -> x = None) dec then propfail "%s.threshold offset out of range" name
       else begin
         let coords = List.map (function Some rc -> rc | None -> (0, 0)) dec in
         let sorted = List.map coord_to_nat (sort_coords coords) in
         if need && domain && not (e.chk_threshold m t sorted) then propfail "%s.threshold is not exactly the cells >= t" name
         else if List.sort compare l <> List.sort compare (Lazy.force model_th) then diff "%s.threshold offsets differ from the model (as a set)" name
       end)

(* linear Scores on a list *)
let check_linear (e : 'v elt) (l : 'v list) (t : 'v) (domain : bool) (get : string -> string option)
    (model_max : 'v option mres Lazy.t) (model_am : int option mres Lazy.t) (model_th : int list Lazy.t) =
  let lm = if l = [] then [] else [l] in
  (match get "lin.u" with Some "1" -> () | _ -> diff "unstripe() differs from the column-major cells");
  (match get "lin.n" with
   | Some n when int_of_string n = List.length l -> ()
   | _ -> diff "lin.n differs from min(max_index, rows*C)");
  (match obs_opt e.parse (get "lin.max"), Lazy.force model_max with
   | Missing, _ -> diff "lin.max missing"
   | Panicked, MPanic _ -> ()
   | Panicked, _ -> propfail "lin.max panicked"
   | Ans o, mm ->
       if domain && not (e.chk_max lm o) then propfail "lin.max is not the largest score"
       else (match mm, o with
             | MOk None, None -> ()
             | MOk (Some b), Some a when e.same a b -> ()
             | _ -> diff "lin.max differs from the model"));
  (match obs_opt int_of_string (get "lin.am"), Lazy.force model_am with
   | Missing, _ -> diff "lin.am missing"
   | Panicked, MPanic _ -> ()
   | Panicked, _ -> propfail "lin.argmax panicked"
   | Ans o, mm ->
       let oc = match o with None -> None | Some i -> Some (O, nat_of_int i) in
       if domain && not (e.chk_argmax lm oc) then propfail "lin.argmax does not designate the largest score"
       else (match mm with
             | MOk mo -> if o <> mo then diff "lin.argmax=%s model=%s"
                             (match o with None -> "None" | Some x -> string_of_int x)
                             (match mo with None -> "None" | Some x -> string_of_int x)
             | _ -> diff "lin.argmax model panics, implementation answers"));
  (match obs_list int_of_string (get "lin.th") with
   | Missing -> diff "lin.th missing"
   | Panicked -> propfail "lin.threshold panicked"
   | Ans idx ->
       let sorted = List.map (fun i -> (O, nat_of_int i)) (List.sort compare idx) in
       if domain && not (e.chk_threshold lm t sorted) then propfail "lin.threshold is not exactly the positions >= t"
       else if List.sort compare idx <> List.sort compare (Lazy.force model_th) then diff "lin.threshold differs from the model (as a set)")


(* ---- reused buffers: the history `h=` of the one StripedScores, then resize(R, mi) and the first
   `w` rows of `m`, evaluated on the extracted buffer model (MaxiBuffer.v: backing vector and row
   count as separate fields).  The matrix the answers are judged against is the LOGICAL content of
   the model's buffer (C07_history_independent); the harness' `h.R`, `h.it`, `h.lh`, `h.ih` tie the
   model's row count, the number of rows matrix().iter() yields and the two contents. ---- *)
let rec firstn_l n l = if n <= 0 then [] else match l with [] -> [] | x :: r -> x :: firstn_l (n - 1) r

(* hash of a list of rows of cells (as RowHash of harness/src/bin/maxi.rs) *)
let hash_mod = 2147483647
let hash_step h x = (h * 16777619 + x + 1) mod hash_mod
let hash_rows (m : int list list) : int =
  List.fold_left (fun h row -> List.fold_left hash_step (hash_step h 4294967311) row) (2166136261 mod hash_mod) m

let history_matrix (type v) (e : v elt) (to_int : v -> int) (dflt : v)
    (run : nat -> v bop list -> v buffer res)
    (get_in : string -> string) (get : string -> string option) (cols : int) (m_in : v list list) (mi : int)
    : v list list * v buffer option =
  let h = try Some (get_in "h") with Not_found -> None in
  let rows_in = List.length m_in in
  if h = None && (rows_in > 16 || get "h.R" = None) then (m_in, None) else begin
    let w = try Some (int_of_string (get_in "w")) with Not_found -> None in
    let scored = ref false in
    let fill_rows rows v = let row = List.init cols (fun _ -> v) in List.init rows (fun _ -> row) in
    let ops_of tok =
      let body = String.sub tok 1 (String.length tok - 1) in
      match tok.[0] with
      | 'r' | 'd' ->
          (match String.split_on_char ':' body with
           | [r; v] ->
               let rows = int_of_string r in
               (if tok.[0] = 'r' then BResize (nat_of_int rows, n_of_int (rows * cols)) else BDResize (nat_of_int rows))
               :: (if rows = 0 then [] else [BWrite (fill_rows rows (e.of_int (int_of_string v)))])
           | _ -> failwith ("bad history step " ^ tok))
      | 'S' ->
          (* score_rows_into(a..b): resize(b - a, ..) and every cell rewritten; the content is not
             modelled here (it never reaches the final matrix: such cases rewrite every row) *)
          scored := true;
          let rng = String.sub body 1 (String.length body - 1) in
          (match String.split_on_char '-' rng with
           | [a; b] ->
               let rows = max 0 (int_of_string b - int_of_string a) in
               BResize (nat_of_int rows, n_of_int 370) :: (if rows = 0 then [] else [BWrite (fill_rows rows dflt)])
           | _ -> failwith ("bad history step " ^ tok))
      | _ -> failwith ("bad history step " ^ tok) in
    let hops = match h with None -> [] | Some hs -> List.concat_map ops_of (List.filter (fun x -> x <> "") (split ';' hs)) in
    if !scored && w <> None then diff "history case with a score step and a partial final write (not modelled)";
    let written = match w with None -> m_in | Some k -> firstn_l k m_in in
    let ops = hops @ [BResize (nat_of_int rows_in, n_of_int mi)] @ (if written = [] then [] else [BWrite written]) in
    match run (nat_of_int cols) ops with
    | Ok b ->
        let m = b_logical b in
        let hz rows = hash_rows (List.map (List.map to_int) rows) in
        (match get "h.R" with
         | Some x when int_of_string x = int_of_nat (brows b) -> ()
         | _ -> diff "h.R: matrix().rows() differs from the buffer model");
        (match get "h.it" with
         | Some x when int_of_string x = List.length (b_iter b) -> ()
         | Some x -> diff "h.it=%s: matrix().iter() yields another number of rows than the buffer model (%d)" x (List.length (b_iter b))
         | None -> diff "h.it missing");
        (match get "h.lh" with
         | Some x when int_of_string x = hz m -> ()
         | _ -> diff "h.lh: the cells of rows 0..rows() differ from the buffer model");
        (match get "h.ih" with
         | Some x when int_of_string x = hz (b_iter b) -> ()
         | _ -> diff "h.ih: the rows yielded by matrix().iter() differ from the buffer model");
        (m, Some b)
    | _ -> diff "buffer model: the history panics"; (m_in, None)
  end

let arm_of = function "G" -> AGeneric | "S" -> ASse2 | "A" -> AAvx2 | _ -> failwith "arm"

let conv_coord_opt = function None -> None | Some rc -> Some (coord_of_nat rc)
let conv_nat_opt = function None -> None | Some n -> Some (int_of_nat n)
let conv_n_opt = function None -> None | Some n -> Some (int_of_n n)

(* ---------------- f32 ---------------- *)

(* decoding a bit pattern goes through Flocq's binary_float_of_bits (Z arithmetic): memoised *)
let f32_tbl : (int, F32.t) Hashtbl.t = Hashtbl.create 4096
let f32_of_int (i : int) =
  match Hashtbl.find_opt f32_tbl i with
  | Some x -> x
  | None ->
      let x = mk_f32 (z_of_int i) in
      if Hashtbl.length f32_tbl > 200000 then Hashtbl.reset f32_tbl;
      Hashtbl.add f32_tbl i x; x
let f32_of_string s = f32_of_int (int_of_string s)
let f32_bits x = int_of_z (bits_f32 x)
let f32_elt : F32.t elt = {
  parse = f32_of_string;
  of_int = f32_of_int;
  same = (fun a b -> f32_bits a = f32_bits b);
  show = (fun x -> string_of_int (f32_bits x));
  in_domain = (fun x -> not (f32_is_nan x));
  chk_max = f32_check_max;
  chk_argmax = f32_check_argmax;
  chk_threshold = f32_check_threshold;
  chk_all = f32_check_C07;
  value_eq = (fun a b -> f32_le a b && f32_le b a);
}

let colmajor (m : 'a list list) (cols : int) : 'a list =
  List.concat (List.init cols (fun c -> List.map (fun row -> List.nth row c) m))

let rec take n l = if n <= 0 then [] else match l with [] -> [] | x :: r -> x :: take (n - 1) r

let run_f32 get_in get cols =
  let e = f32_elt in
  let mi = int_of_string (get_in "mi") in
  let t = f32_of_string (get_in "t") in
  let m = List.map (List.map e.of_int) (parse_matrix_fields get_in cols) in
  (* on a case with a history the entry points of the model are those on the BUFFER (buf_*: the
     default scans walk the whole backing vector, the kernels rows 0..rows()); they equal the
     functions on the logical rows (C07_history_independent, C07_history_dispatch_f32) *)
  let (m, buf) = history_matrix e f32_bits (f32_of_int 0) f32_buf_run get_in get cols m mi in
  let rows = List.length m in
  let buf = if rows <= 300 then buf else None in
  let domain = List.for_all (List.for_all e.in_domain) m && e.in_domain t in
  let min_ = n_of_int mi in
  let cn = nat_of_int cols in
  let gmax = ref Missing in
  let th_model = lazy (List.map coord_of_nat (match buf with Some b -> f32_buf_threshold_generic b t | None -> f32_threshold m t)) in
  let am_gen_raw = lazy (match buf with Some b -> f32_buf_argmax_generic b | None -> f32_argmax_generic m) in
  let am_gen = lazy (of_res conv_coord_opt (Lazy.force am_gen_raw)) in
  (* Maximum::max (default impl) = max_of_argmax of the same pipeline's arg-maximum (definition of
     max_generic / pipeline_sse2_max, C07_source_pipeline_table): the arg-maximum is evaluated once *)
  let max_gen = lazy (of_res (fun x -> x) (match buf with
    | Some b -> f32_buf_max_generic b
    | None -> if rows <= 300 then f32_max_generic m else f32_max_of_argmax (Lazy.force am_gen_raw) m)) in
  (* Pipeline::generic() *)
  check_entry e m t domain get "g" max_gen am_gen th_model gmax;
  gmax := obs_opt e.parse (get "g.max");
  (* Pipeline::sse2(): argmax kernel, max = default impl on top of it *)
  let am_sse2 = lazy (f32_argmax_sse2 cn min_ m) in
  check_entry e m t domain get "s"
    (lazy (of_res (fun x -> x) (if rows <= 300 then f32_max_sse2 cn min_ m else f32_max_of_argmax (Lazy.force am_sse2) m)))
    (lazy (of_res conv_coord_opt (Lazy.force am_sse2))) th_model gmax;
  if cols = 32 then begin
    let am_avx2 = lazy (f32_argmax_avx2 min_ m) in
    let mx_avx2 = lazy (of_res (fun x -> x) (f32_max_avx2 m)) in
    check_entry e m t domain get "a" mx_avx2 (lazy (of_res conv_coord_opt (Lazy.force am_avx2))) th_model gmax;
    (* the threshold of every arm is the same function (C07_arms_agree, by reflexivity): the
       dispatcher's and the StripedScores-level lists are evaluated once *)
    let th_disp = lazy (List.map coord_of_nat (match buf with
      | Some b -> f32_buf_dispatch_threshold AGeneric b t
      | None -> f32_dispatch_threshold AGeneric m t)) in
    let th_ss = lazy (List.map int_of_n (f32_ss_threshold m t)) in
    List.iter (fun an ->
      let a = arm_of an in
      (* small matrices: the extracted dispatcher itself; tall ones: the arms run the kernels of the
         pipelines above (C07_source_dispatch_table, by reflexivity: AGeneric = generic, ASse2 = SSE2
         arg-max / generic max, AAvx2 = AVX2), whose evaluations are shared *)
      let am = match buf with
        | Some b -> lazy (f32_buf_dispatch_argmax a min_ b)
        | None ->
          if rows <= 300 then lazy (f32_dispatch_argmax a min_ m) else match a with
          | AGeneric -> am_gen_raw
          | ASse2 -> am_sse2
          | AAvx2 -> am_avx2 in
      let mx = match buf with
        | Some b -> lazy (of_res (fun x -> x) (f32_buf_dispatch_max a b))
        | None ->
          if rows <= 300 then lazy (of_res (fun x -> x) (f32_dispatch_max a m))
          else match a with AAvx2 -> mx_avx2 | _ -> max_gen in
      check_entry e m t domain get ("d" ^ an) mx (lazy (of_res conv_coord_opt (Lazy.force am))) th_disp gmax;
      check_striped e m t domain get ("s" ^ an) rows cols mx
        (lazy (of_res conv_n_opt (f32_ss_argmax (Lazy.force am) m))) th_ss
        (fun off -> of_res (fun x -> x) (f32_index_usize m (nat_of_int off))))
      ["G"; "S"; "A"]
  end;
  (* linear scores: column-major cells, truncated at min(max_index, rows*C) *)
  let n = min mi (rows * cols) in
  let lin = f32_unstripe cn (nat_of_int n) m in
  if List.map f32_bits lin <> List.map f32_bits (take n (colmajor m cols)) then diff "model unstripe differs from column-major order";
  let ldomain = List.for_all e.in_domain lin && e.in_domain t in
  check_linear e lin t ldomain get
    (lazy (of_res (fun x -> x) (f32_lin_max lin)))
    (lazy (of_res conv_nat_opt (f32_lin_argmax lin)))
    (lazy (List.map int_of_n (f32_lin_threshold t lin)))

(* ---------------- u8 ---------------- *)

let z_small = Array.init 256 z_of_int
let z_of_u8 i = if i >= 0 && i < 256 then z_small.(i) else z_of_int i
let u8_elt : z elt = {
  parse = (fun s -> z_of_u8 (int_of_string s));
  of_int = z_of_u8;
  same = (fun a b -> int_of_z a = int_of_z b);
  show = (fun x -> string_of_int (int_of_z x));
  in_domain = (fun x -> let v = int_of_z x in v >= 0 && v <= 255);
  chk_max = u8_check_max;
  chk_argmax = u8_check_argmax;
  chk_threshold = u8_check_threshold;
  chk_all = u8_check_C07;
  value_eq = (fun a b -> int_of_z a = int_of_z b);
}

let run_u8 get_in get cols =
  let e = u8_elt in
  let mi = int_of_string (get_in "mi") in
  let t = z_of_int (int_of_string (get_in "t")) in
  let m = List.map (List.map e.of_int) (parse_matrix_fields get_in cols) in
  let (m, buf) = history_matrix e int_of_z (z_of_u8 0) u8_buf_run get_in get cols m mi in
  let rows = List.length m in
  let buf = if rows <= 300 then buf else None in
  let domain = true in
  let cn = nat_of_int cols in
  let gmax = ref Missing in
  let th_model = lazy (List.map coord_of_nat (match buf with Some b -> u8_buf_threshold_generic b t | None -> u8_threshold m t)) in
  let am_gen_raw = lazy (match buf with Some b -> u8_buf_argmax_generic b | None -> u8_argmax_generic m) in
  let am_gen = lazy (of_res conv_coord_opt (Lazy.force am_gen_raw)) in
  let max_gen = lazy (of_res (fun x -> x) (match buf with
    | Some b -> u8_buf_max_generic b
    | None -> if rows <= 300 then u8_max_generic m else u8_max_of_argmax (Lazy.force am_gen_raw) m)) in
  check_entry e m t domain get "g" max_gen am_gen th_model gmax;
  gmax := obs_opt e.parse (get "g.max");
  (* Pipeline::sse2() has no u8 kernels: default impls *)
  check_entry e m t domain get "s" max_gen am_gen th_model gmax;
  (* Pipeline::avx2() and the dispatcher's AVX2 arm run the same kernels (C07_source_pipeline_table,
     C07_source_dispatch_table): evaluated once (the u8 arg-max model is quadratic in the rows) *)
  let am_avx2 = lazy (u8_argmax_avx2 m) in
  let mx_avx2 = lazy (of_res (fun x -> x) (u8_max_avx2 m)) in
  if cols = 32 then check_entry e m t domain get "a" mx_avx2 (lazy (of_res conv_coord_opt (Lazy.force am_avx2))) th_model gmax;
  let th_ss = lazy (List.map int_of_n (u8_ss_threshold m t)) in
  if cols = 32 then List.iter (fun an ->
    let a = arm_of an in
    (* the Generic and Sse2 arms run the generic scans (C07_source_dispatch_table) *)
    let am = match buf with
      | Some b -> lazy (u8_buf_dispatch_argmax a b)
      | None -> if rows <= 300 then lazy (u8_dispatch_argmax a m) else if a = AAvx2 then am_avx2 else am_gen_raw in
    let mx = match buf with
      | Some b -> lazy (of_res (fun x -> x) (u8_buf_dispatch_max a b))
      | None -> if rows <= 300 then lazy (of_res (fun x -> x) (u8_dispatch_max a m))
                else if a = AAvx2 then mx_avx2 else max_gen in
    check_entry e m t domain get ("d" ^ an) mx (lazy (of_res conv_coord_opt (Lazy.force am))) th_model gmax;
    check_striped e m t domain get ("s" ^ an) rows cols mx
      (lazy (of_res conv_n_opt (u8_ss_argmax (Lazy.force am) m))) th_ss
      (fun off -> of_res (fun x -> x) (u8_index_usize m (nat_of_int off))))
    ["G"; "S"; "A"];
  let n = min mi (rows * cols) in
  let lin = u8_unstripe cn (nat_of_int n) m in
  if List.map int_of_z lin <> List.map int_of_z (take n (colmajor m cols)) then diff "model unstripe differs from column-major order";
  check_linear e lin t true get
    (lazy (of_res (fun x -> x) (u8_lin_max lin)))
    (lazy (of_res conv_nat_opt (u8_lin_argmax lin)))
    (lazy (List.map int_of_n (u8_lin_threshold t lin)))

(* ---------------- end-to-end padding claim ---------------- *)

let sym_of_char = function 'A' -> 0 | 'C' -> 1 | 'T' -> 2 | 'G' -> 3 | 'N' -> 4 | c -> failwith (Printf.sprintf "bad symbol %c" c)

let run_e2e get_in get =
  let e = f32_elt in
  let pssm = List.map (List.map e.of_int) (parse_int_matrix (get_in "pssm")) in
  let seqs = let s = get_in "seq" in if s = "-" then "" else s in
  let l = String.length seqs in
  let mlen = List.length pssm in
  let seq = List.init l (fun i -> nat_of_int (sym_of_char seqs.[i])) in
  let cols = 32 in
  let exp_rows = if l < mlen || l = 0 then 0 else (l + cols - 1) / cols in
  let valid = if exp_rows = 0 then 0 else l + 1 - mlen in
  (* hypotheses of the padding theorem *)
  let wild_ok = List.for_all (fun row -> List.length row = 5 && f32_is_ninf (List.nth row 4)) pssm in
  if not wild_ok then diff "e2e case outside the hypotheses: wildcard column is not -inf";
  let n = exp_rows * cols in
  let defined = Array.init n (fun i -> f32_score_def pssm seq (nat_of_int i)) in
  for i = 0 to n - 1 do
    if not (f32_terms_ok pssm seq (nat_of_int i)) then diff "e2e case outside the hypotheses: a partial sum is NaN or +inf at %d" i
  done;
  (* model side of the claim: the defined scores past the last valid position are -inf *)
  for i = valid to n - 1 do
    if not (f32_is_ninf defined.(i)) then diff "defined score at padding position %d is not -inf (theorem hypotheses violated?)" i
  done;
  List.iter (fun an ->
    match get (an ^ ".R") with
    | None -> diff "%s.R missing" an
    | Some "P" -> propfail "%s: scoring panicked" an
    | Some r ->
        let rows = int_of_string r in
        if rows <> exp_rows then diff "%s.R=%d expected %d" an rows exp_rows
        else begin
          (match get (an ^ ".mi") with
           | Some x when int_of_string x = valid -> ()
           | _ -> diff "%s.max_index differs from L-M+1" an);
          let m = List.map (List.map e.of_int) (parse_int_matrix (match get (an ^ ".c") with Some x -> x | None -> "-")) in
          if List.length m <> rows then diff "%s.c has a wrong number of rows" an
          else begin
            let cell i = match f32_index_usize m (nat_of_int i) with Ok x -> Some x | _ -> None in
            (* hypothesis "cell = defined score" (property C01), validated here *)
            for i = 0 to n - 1 do
              match cell i with
              | Some x -> if f32_bits x <> f32_bits defined.(i) then diff "%s: cell %d differs from the defined score" an i
              | None -> diff "%s: cell %d unreadable" an i
            done;
            (* the property: padding cells hold -inf *)
            if not (f32_check_padding m (nat_of_int valid) (nat_of_int n)) then
              propfail "%s: a cell past the last valid position is not -inf" an;
            (* the property: max is the best valid score when one is finite *)
            let valid_cells = List.filter_map cell (List.init valid (fun i -> i)) in
            let domain = List.for_all (List.for_all e.in_domain) m in
            (match obs_opt e.parse (get (an ^ ".max")) with
             | Missing -> diff "%s.max missing" an
             | Panicked -> propfail "%s.max panicked" an
             | Ans o ->
                 if domain && not (f32_check_max m o) then propfail "%s.max is not the largest cell value" an
                 else if domain && List.exists f32_is_finite valid_cells
                         && not (f32_check_max [valid_cells] o) then
                   propfail "%s.max is not the best valid position's score" an);
            (match obs_opt int_of_string (get (an ^ ".am")) with
             | Missing -> diff "%s.am missing" an
             | Panicked -> propfail "%s.argmax panicked" an
             | Ans None -> if rows > 0 then propfail "%s.argmax None on a non-empty matrix" an
             | Ans (Some off) ->
                 if rows = 0 || off < 0 || off >= n then propfail "%s.argmax offset out of range" an
                 else if domain && not (f32_check_argmax m (Some (nat_of_int (off mod rows), nat_of_int (off / rows)))) then
                   propfail "%s.argmax does not designate a cell holding the maximum" an
                 else if domain && List.exists f32_is_finite valid_cells && off >= valid then
                   propfail "%s.argmax designates a padding position although a valid one is finite" an);
            (* the whole padding claim through the checker proved sound in C07.v
               (check_padding_max_sound); the messages above only say which part failed *)
            (match obs_opt e.parse (get (an ^ ".max")), obs_opt int_of_string (get (an ^ ".am")) with
             | Ans o, Ans a when domain ->
                 let oa = match a with Some off when off >= 0 -> Some (nat_of_int off) | _ -> None in
                 if (a = None || oa <> None)
                    && not (f32_check_padding_max m (nat_of_int valid) (nat_of_int n) o oa) then
                   propfail "%s: check_padding_max rejects (cells, max, argmax)" an
             | _ -> ())
          end
        end)
    ["G"; "S"; "A"]


(* ---------------- the Scanner pattern: row ranges scored in turn into one buffer ----------------
   The cells of the buffer after the last range are taken from the observation (`X.c`, rows
   0..rows() read through Index; that they are the defined scores is property C01); maximum,
   arg-maximum, scores[argmax] and threshold of StripedScores under each forced arm are judged
   against these cells by check_C07 and compared with the extracted dispatcher models. *)
let run_e2e_ranges get_in get =
  let discrete = (try get_in "dt" = "u8" with Not_found -> false) in
  let pssm_rows = List.length (parse_int_matrix (get_in "pssm")) in
  let seqs = let s = get_in "seq" in if s = "-" then "" else s in
  let l = String.length seqs in
  let ranges = List.map (fun r -> match String.split_on_char '-' r with
                          | [a; b] -> (int_of_string a, int_of_string b)
                          | _ -> failwith "bad range") (List.filter (fun x -> x <> "") (split ';' (get_in "rr"))) in
  let (la, lb) = List.nth ranges (List.length ranges - 1) in
  let exp_rows = if l < pssm_rows || lb <= la then 0 else lb - la in
  let exp_mi = if exp_rows = 0 then 0 else l + 1 - pssm_rows in
  let cols = 32 in
  List.iter (fun an ->
    match get (an ^ ".R") with
    | None -> diff "%s.R missing" an
    | Some "P" -> propfail "%s: scoring panicked" an
    | Some r ->
        let rows = int_of_string r in
        if rows <> exp_rows then diff "%s.R=%d expected %d (length of the last range)" an rows exp_rows
        else begin
          let mi = match get (an ^ ".mi") with Some x -> int_of_string x | None -> -1 in
          if mi <> exp_mi then diff "%s.max_index differs from L-M+1" an;
          let cells = parse_int_matrix (match get (an ^ ".c") with Some x -> x | None -> "-") in
          if List.length cells <> rows then diff "%s.c has a wrong number of rows" an
          else begin
            let a = arm_of an in
            if discrete then begin
              let e = u8_elt in
              let m = List.map (List.map e.of_int) cells in
              let t = z_of_int (int_of_string (get_in "t")) in
              let am = lazy (u8_dispatch_argmax a m) in
              check_striped e m t true get an rows cols
                (lazy (of_res (fun x -> x) (u8_dispatch_max a m)))
                (lazy (of_res conv_n_opt (u8_ss_argmax (Lazy.force am) m)))
                (lazy (List.map int_of_n (u8_ss_threshold m t)))
                (fun off -> of_res (fun x -> x) (u8_index_usize m (nat_of_int off)))
            end else begin
              let e = f32_elt in
              let m = List.map (List.map e.of_int) cells in
              let t = f32_of_string (get_in "t") in
              let domain = List.for_all (List.for_all e.in_domain) m && e.in_domain t in
              let am = lazy (f32_dispatch_argmax a (n_of_int (max mi 0)) m) in
              check_striped e m t domain get an rows cols
                (lazy (of_res (fun x -> x) (f32_dispatch_max a m)))
                (lazy (of_res conv_n_opt (f32_ss_argmax (Lazy.force am) m)))
                (lazy (List.map int_of_n (f32_ss_threshold m t)))
                (fun off -> of_res (fun x -> x) (f32_index_usize m (nat_of_int off)))
            end
          end
        end)
    ["G"; "S"; "A"]

(* ---------------- the padding clause on sampled / striped / hand-filled sequences (`k=pad`) ----------------
   Sequence built by StripedSequence::sample (StdRng seed), by to_striped of text, or by StripedSequence::new on
   a hand-filled matrix; configured; scored by Pipeline::generic()/sse2()/avx2() (pg / ps / pa: max / argmax /
   threshold of the same pipeline, coordinates) and by ScoringMatrix::score under each forced arm (dG / dS / dA:
   StripedScores::{max,argmax,threshold}, offsets).  Judged, per scoring:
   * first sentence of C07 on the observed cells (check_entry / check_striped: extracted check_C07 + the kernel
     models), agreement of the maximum with pg;
   * the padding clause (second sentence) -- every cell of linear index >= max_index is -inf, the maximum is the
     best valid score and the arg-maximum / threshold positions are < max_index when a valid score is finite
     (threshold: unless t = -inf) -- by the extracted check_padding / check_padding_max, for src=sample and
     src=text ALWAYS, for src=new only when the clause's premise holds (every cell of the sequence matrix of
     linear index >= L holds the wildcard): a hand-filled matrix with other padding symbols is scored like a
     longer sequence, the clause is not promised there;
   * DIFF: cells against the defined scores of (sequence ++ padding symbols) (property C01), R / max_index. *)
let run_pad get_in get =
  let e = f32_elt in
  let pssm = List.map (List.map e.of_int) (parse_int_matrix (get_in "pssm")) in
  let src = get_in "src" in
  let l = int_of_string (get_in "L") in
  let t = f32_of_string (get_in "t") in
  let mlen = List.length pssm in
  let cols = 32 in
  match get "sR" with
  | None -> diff "sR missing"
  | Some "P" -> propfail "building the sequence panicked (src=%s)" src
  | Some sr ->
  let r0 = int_of_string sr in
  let dash s = if s = "-" then "" else s in
  let q = dash (match get "q" with Some x -> x | None -> "-") in
  let pd = dash (match get "pd" with Some x -> x | None -> "-") in
  if String.length q <> l then diff "q has %d symbols, L = %d" (String.length q) l;
  (match get "sL" with Some x when int_of_string x = l -> () | _ -> diff "len() differs from L");
  if String.length pd <> max 0 (r0 * cols - l) then diff "pd has %d symbols, expected %d" (String.length pd) (r0 * cols - l);
  (match src with
   | "sample" -> if r0 <> (l + cols - 1) / cols then diff "sample: %d rows for %d symbols" r0 l
   | "text" ->
       let s = dash (get_in "seq") in
       if r0 <> (l + cols - 1) / cols then diff "to_striped: %d rows for %d symbols" r0 l;
       if s <> q then diff "to_striped: Index<usize> does not read the text back"
   | _ -> ());
  let premise = (let ok = ref true in String.iter (fun c -> if c <> 'N' then ok := false) pd; !ok) in
  (* sample / to_striped promise wildcard padding (C04); the clause is judged for them in any case *)
  if src <> "new" && not premise then
    diff "src=%s: a cell of the sequence matrix past the end does not hold the wildcard (pd=%s)" src pd;
  let judge_padding = src <> "new" || premise in
  let syms str = List.init (String.length str) (fun i -> nat_of_int (sym_of_char str.[i])) in
  let seq = syms q in
  let seq_full = syms (q ^ pd) in
  let exp_rows = if l < mlen || l = 0 then 0 else r0 in
  let valid = if exp_rows = 0 then 0 else l + 1 - mlen in
  let n = exp_rows * cols in
  let wild_ok = List.for_all (fun row -> List.length row = 5 && f32_is_ninf (List.nth row 4)) pssm in
  if not wild_ok then diff "pad case outside the hypotheses: wildcard column is not -inf";
  let defined = Array.init n (fun i -> f32_score_def pssm seq_full (nat_of_int i)) in
  let hyp_ok = ref wild_ok in
  if judge_padding then
    for i = 0 to n - 1 do
      if not (f32_terms_ok pssm seq (nat_of_int i)) then begin
        hyp_ok := false; diff "pad case outside the hypotheses: a partial sum is NaN or +inf at %d" i end
    done;
  (* model side: under the premise the defined scores past the last valid position are -inf (C07_padding_score_neg_inf) *)
  if judge_padding && !hyp_ok then
    for i = valid to n - 1 do
      if not (f32_is_ninf (f32_score_def pssm seq (nat_of_int i))) then
        diff "defined score at padding position %d is not -inf (theorem hypotheses violated?)" i
    done;
  let t_is_ninf = f32_is_ninf t in
  let gmax = ref Missing in
  let cn = nat_of_int cols in
  List.iter (fun an ->
    match get (an ^ ".R") with
    | None -> diff "%s.R missing" an
    | Some "P" -> propfail "%s: scoring panicked" an
    | Some r ->
        let rows = int_of_string r in
        if rows <> exp_rows then diff "%s.R=%d expected %d" an rows exp_rows
        else begin
          let mi = match get (an ^ ".mi") with Some x -> int_of_string x | None -> -1 in
          if mi <> valid then diff "%s.max_index=%d differs from L-M+1=%d" an mi valid;
          let m = List.map (List.map e.of_int) (parse_int_matrix (match get (an ^ ".c") with Some x -> x | None -> "-")) in
          if List.length m <> rows then diff "%s.c has a wrong number of rows" an
          else begin
            let cell i = match f32_index_usize m (nat_of_int i) with Ok x -> Some x | _ -> None in
            for i = 0 to n - 1 do
              match cell i with
              | Some x -> if f32_bits x <> f32_bits defined.(i) then diff "%s: cell %d differs from the defined score" an i
              | None -> diff "%s: cell %d unreadable" an i
            done;
            let domain = List.for_all (List.for_all e.in_domain) m && e.in_domain t in
            let min_ = n_of_int (max mi 0) in
            (* ---- first sentence: the answers against the observed cells ---- *)
            let striped_level = an.[0] = 'd' in
            let omax = obs_opt e.parse (get (an ^ ".max")) in
            let am_off : int option ans =
              if striped_level then obs_opt int_of_string (get (an ^ ".am"))
              else (match obs_opt parse_coord (get (an ^ ".am")) with
                    | Ans (Some (r, c)) -> Ans (Some (c * rows + r))
                    | Ans None -> Ans None | Panicked -> Panicked | Missing -> Missing) in
            let th_off : int list ans =
              if striped_level then obs_list int_of_string (get (an ^ ".th"))
              else (match obs_list parse_coord (get (an ^ ".th")) with
                    | Ans l -> Ans (List.map (fun (r, c) -> c * rows + r) l)
                    | Panicked -> Panicked | Missing -> Missing) in
            if striped_level then begin
              let a = arm_of (String.sub an 1 1) in
              let am = lazy (f32_dispatch_argmax a min_ m) in
              check_striped e m t domain get an rows cols
                (lazy (of_res (fun x -> x) (f32_dispatch_max a m)))
                (lazy (of_res conv_n_opt (f32_ss_argmax (Lazy.force am) m)))
                (lazy (List.map int_of_n (f32_ss_threshold m t)))
                (fun off -> of_res (fun x -> x) (f32_index_usize m (nat_of_int off)));
              (match !gmax, omax with
               | Ans (Some a), Ans (Some b) when domain && not (e.value_eq a b) -> propfail "%s.max disagrees with pg.max" an
               | _ -> ())
            end else begin
              let th_model = lazy (List.map coord_of_nat (f32_threshold m t)) in
              let (mx, am) = match an with
                | "pg" -> (lazy (of_res (fun x -> x) (f32_max_generic m)), lazy (of_res conv_coord_opt (f32_argmax_generic m)))
                | "ps" -> (lazy (of_res (fun x -> x) (f32_max_sse2 cn min_ m)), lazy (of_res conv_coord_opt (f32_argmax_sse2 cn min_ m)))
                | _ -> (lazy (of_res (fun x -> x) (f32_max_avx2 m)), lazy (of_res conv_coord_opt (f32_argmax_avx2 min_ m))) in
              check_entry e m t domain get an mx am th_model gmax;
              if an = "pg" then gmax := omax
            end;
            (* ---- second sentence: the padding clause ---- *)
            if judge_padding && !hyp_ok && domain then begin
              if not (f32_check_padding m (nat_of_int valid) (nat_of_int n)) then begin
                let bad = List.filter (fun i -> match cell i with Some x -> not (f32_is_ninf x) | None -> true)
                            (List.init (n - valid) (fun k -> valid + k)) in
                propfail "%s: src=%s: a cell past the last valid position is not -inf (cell %d of %d, max_index %d)"
                  an src (match bad with i :: _ -> i | [] -> -1) n valid
              end;
              let valid_cells = List.filter_map cell (List.init valid (fun i -> i)) in
              let some_finite = List.exists f32_is_finite valid_cells in
              (match omax with
               | Ans o when some_finite && not (f32_check_max [valid_cells] o) ->
                   propfail "%s: src=%s: max is not the best valid position's score" an src
               | _ -> ());
              (match am_off with
               | Ans (Some off) when some_finite && off >= valid ->
                   propfail "%s: src=%s: argmax=%d designates a position past the end (max_index %d) although a valid score is finite" an src off valid
               | _ -> ());
              (match th_off with
               | Ans lst when not t_is_ninf && List.exists (fun off -> off >= valid) lst ->
                   propfail "%s: src=%s: threshold reports position %d past the end (max_index %d) for t > -inf" an src
                     (List.find (fun off -> off >= valid) lst) valid
               | _ -> ());
              (* the whole clause through the checker proved sound in C07.v (check_padding_max_sound) *)
              (match omax, am_off with
               | Ans o, Ans a ->
                   let oa = match a with Some off when off >= 0 -> Some (nat_of_int off) | _ -> None in
                   if (a = None || oa <> None)
                      && not (f32_check_padding_max m (nat_of_int valid) (nat_of_int n) o oa) then
                     propfail "%s: src=%s: check_padding_max rejects (cells, max, argmax)" an src
               | _ -> ())
            end
          end
        end)
    ["pg"; "ps"; "pa"; "dG"; "dS"; "dA"]

(* The extracted list functions are not tail recursive and a 3000-row matrix has ~10^5 cells:
   re-execute once under a larger stack limit (soft limit raised to 1 GB when the hard limit
   allows it; otherwise the default stays and very large cases may still overflow). *)
let () =
  match Sys.getenv_opt "LM_MAXI_STACK" with
  | Some _ -> ()
  | None ->
      (try
         Unix.putenv "LM_MAXI_STACK" "1";
         Unix.execv "/bin/sh"
           (Array.append
              [| "/bin/sh"; "-c"; "ulimit -s 1048576 2>/dev/null || ulimit -s unlimited 2>/dev/null; exec \"$0\" \"$@\"";
                 Sys.executable_name |]
              (Array.sub Sys.argv 1 (Array.length Sys.argv - 1)))
       with _ -> ())

(* matrices of up to 2 * 10^6 cells: a large minor heap and a lazy major collector (the
   default settings spend more than half of the time marking the same long lists) *)
let () = Gc.set { (Gc.get ()) with Gc.minor_heap_size = 8 * 1024 * 1024; Gc.space_overhead = 1000 }

let () =
  try
    while true do
      let line = input_line stdin in
      if String.length line > 0 && line.[0] <> '#' then begin
        let (inp, obs) =
          match Str.bounded_split (Str.regexp_string " => ") line 2 with
          | [a; b] -> (a, b) | [a] -> (a, "") | _ -> failwith "bad line" in
        let toks = String.split_on_char ' ' inp in
        let id = List.hd toks in
        let fields = List.map kv (List.tl toks) in
        let get_in k = List.assoc k fields in
        let otab = Hashtbl.create 64 in
        List.iter (fun tok -> let (k, v) = kv tok in Hashtbl.replace otab k v) (String.split_on_char ' ' obs);
        let get k = Hashtbl.find_opt otab k in
        verdict := "OK";
        Hashtbl.reset all_memo;
        (try
           match get_in "k" with
           | "f32" -> run_f32 get_in get 32
           | "f16" -> run_f32 get_in get 16
           | "f48" -> run_f32 get_in get 48
           | "f64" -> run_f32 get_in get 64
           | "u8" -> run_u8 get_in get 32
           | "b16" -> run_u8 get_in get 16
           | "b48" -> run_u8 get_in get 48
           | "b64" -> run_u8 get_in get 64
           | "pad" -> run_pad get_in get
           | "e2e" -> if (try ignore (get_in "rr"); true with Not_found -> false) then run_e2e_ranges get_in get else run_e2e get_in get
           | k -> diff "unknown kind %s" k
         with ex -> diff "driver exception %s" (Printexc.to_string ex));
        print_endline (id ^ " " ^ !verdict)
      end
    done
  with End_of_file -> ()
