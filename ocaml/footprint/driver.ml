(* Driver for the extracted footprint model (property C06).
   Reads observation lines produced by `footprint run` on stdin:
     <id> <input tokens> => asan=<V> dbg=<V> :: <op>|k=v,...|<outcome>;...
   and prints one verdict line per case:
     <id> OK [note=...] | <id> PROPFAIL <why> | <id> DIFF <why>

   PROPFAIL (all of these paths are HAND-WRITTEN in this file — prefix matching on the verdict strings of the children
   and on `Invariant` records of the harness; the extracted, proved-sound check_C06 decides a PROPFAIL only in the
   static `srcfp` path for the NEON kernels): a sanitizer report (ASAN(..) / MSAN(never-written-cell)) or a crash of a
   child (SIGSEGV on a guard page, abort, exit 97 = damaged canary found by a plain child) while the case ran through
   the SAFE public API; a damaged canary in the spare capacity of a destination; rows() > capacity() of a score
   matrix; a symbol code >= K left in a caller buffer; from_rows exposing unwritten rows.
   DIFF (decided with the EXTRACTED model): the guards of a safe wrapper did not behave as modelled (panic / early
   return / rows written / rows after a panic), a stride differs from the dense layout model, the usize guard
   (FpUsize) and the Z guard fall into different outcome classes, the history / capacity model (FpHistory.hstep,
   FpCap.cstep) replayed on the observed pre-state gives another post-state, or check_C06 REJECTS an access of the
   model's footprint on the parameters the kernel was entered with (by the theorems of C06.v impossible for the
   kernel and extents the guards admit: the driver then picked another kernel / extent than the code = broken tie);
   MSan reports on cells written only by non-temporal stores (invisible to it); missing verdicts; hangs.
   The driver never replaces a number it cannot read by 0 (`gi` / `zs` raise: DIFF driver-exception). *)
open Footprint_model

let rec nat_of_int n = if n <= 0 then O else S (nat_of_int (n - 1))
let rec int_of_nat = function O -> 0 | S n -> 1 + int_of_nat n
let rec pos_of_int n =
  if n = 1 then XH else if n land 1 = 0 then XO (pos_of_int (n lsr 1)) else XI (pos_of_int (n lsr 1))
let z n = if n = 0 then Z0 else if n > 0 then Zpos (pos_of_int n) else Zneg (pos_of_int (-n))
let rec int_of_pos = function XH -> 1 | XO p -> 2 * int_of_pos p | XI p -> 2 * int_of_pos p + 1
let iz = function Z0 -> 0 | Zpos p -> int_of_pos p | Zneg p -> - (int_of_pos p)

(* decimal string of any size -> Z (row ranges near usize::MAX do not fit an OCaml int); raises on a non-number:
   the driver never replaces a value it cannot read by 0 *)
let zs (str : string) : z =
  let n = String.length str in
  if n = 0 then failwith "unparsable-number:(empty)" else
  let neg = str.[0] = '-' in
  let start = if neg then 1 else 0 in
  if start >= n then failwith ("unparsable-number:" ^ str) else begin
    let acc = ref Z0 in
    for i = start to n - 1 do
      let c = Char.code str.[i] - 48 in
      if c < 0 || c > 9 then failwith ("unparsable-number:" ^ str);
      acc := Z.add (Z.mul !acc (z 10)) (z c)
    done;
    if neg then Z.opp !acc else !acc
  end
(* Z -> int for values that are known to be small; a huge value is a marker, not a wrapped int *)
let zint (v : z) : int =
  let lim = z 1_000_000_000_000 in
  if Z.leb (Z.opp lim) v && Z.leb v lim then iz v else min_int

let split c s = if s = "" then [] else String.split_on_char c s
let kv tok = match String.index_opt tok '=' with
  | Some i -> (String.sub tok 0 i, String.sub tok (i + 1) (String.length tok - i - 1))
  | None -> (tok, "")

type issue =
  | Guard of string            (* wrapper / layout model disagrees with the implementation: DIFF *)
  | ModelBad of string * bool  (* model access out of the owned bytes; true = also past the allocation *)
  | Invariant of string        (* data invariant of the theorems broken: PROPFAIL *)

let show_acc (a : access) =
  Printf.sprintf "buf%d+%d..+%d%s(align%d)" (int_of_nat a.abuf) (iz a.aoff) (iz a.awidth)
    (if a.awrite then "w" else "r") (iz a.aalign)

(* ext: owned bytes per buffer (from the model), cap: allocated bytes per buffer (from .capacity()) *)
let check name ext balign (cap : int -> int) accs : issue list =
  (* the verdict is the extracted checker proved sound in C06.v (check_C06_sound: all_ok = true ->
     every access in bounds and aligned); first_bad only names the offending access *)
  if check_C06 ext balign accs then [] else
  match first_bad ext balign accs with
  | None -> [ModelBad (name ^ ":all_ok-false-without-bad-access", true)]
  | Some a ->
      let b = int_of_nat a.abuf in
      let past = iz a.aoff < 0 || iz a.aoff + iz a.awidth > cap b
                 || not (acc_ok (fun _ -> z (max (cap b) (iz (ext a.abuf)))) balign a) in
      [ModelBad (name ^ ":" ^ show_acc a, past)]

let dense_stride es c = int_of_nat (stride (nat_of_int es) (nat_of_int c) (nat_of_int 32))

(* ---------- the history model (FpHistory.hstep, about which C06_histories_partial and
   C06_model_passes_partial speak) replayed on the observed pre-state of every op ----------
   pre-state = the values the harness read through the public accessors before the call; the op is
   the model's hop for the record; the post-state of hstep must be what the harness observed after the
   call, its events must pass check_C06, and "no event" must coincide with "no kernel entered". *)
let arm_of = function "avx2" -> AAvx2 | "sse2" -> ASse2 | _ -> AGeneric

let history_step name (gs : string -> string) (gi : string -> int) (gz : string -> z) (outs : string list) (panicked : bool) : issue list =
  let oi k = try int_of_string (List.nth outs k) with _ -> -1 in
  let unk = z (-7) in   (* sentinel: a field hstep must not leave untouched when the op succeeds *)
  let mk ?(e = unk) ?(l = unk) ?(sr = unk) ?(w = unk) ?(m = unk) ?(fr = unk) ?(fi = unk) ?(ur = unk) () =
    { hE = e; hL = l; hSR = sr; hwrap = w; hM = m; hFR = fr; hFI = fi; hUR = ur } in
  let k = if gs "K" = "" then 5 else gi "K" in
  let pstF = z (dense_stride 4 k) and pstU = z (dense_stride 1 k) in
  let step pre op = hstep (z k) pstF pstU pre op in
  let bad what = [Guard (Printf.sprintf "history-model:%s:%s" name what)] in
  let events_ok evs = List.for_all (fun e -> check_C06 e.ev_ext e.ev_al e.ev_accs) evs in
  (* events of the capacity-aware step: inside the owned rows AND inside the allocations as they are at that step *)
  let cevents_ok cevs = List.for_all (fun ce -> check_C06 ce.ce_ev.ev_ext ce.ce_ev.ev_al ce.ce_ev.ev_accs
                                               && check_C06 ce.ce_alloc ce.ce_ev.ev_al ce.ce_ev.ev_accs) cevs in
  ignore cevents_ok;
  let cst ?(scap = -7) ?(fcap = -7) ?(ucap = -7) h = { c_h = h; c_scap = z scap; c_fcap = z fcap; c_ucap = z ucap } in
  match name with
  | "stripe" when not panicked ->
      let pre = mk ~e:(z (gi "L")) () in
      let a = if gs "pl" = "a" || (gs "pl" = "d" && gs "arm" = "avx2") then AAvx2 else AGeneric in
      let (post, evs) = step pre (HStripe a) in
      if iz post.hSR <> oi 0 || iz post.hwrap <> oi 2 || iz post.hL <> gi "L" then
        bad (Printf.sprintf "rows,wrap=%d,%d-model=%d,%d" (oi 0) (oi 2) (iz post.hSR) (iz post.hwrap))
      else if not (events_ok evs) then bad "event-fails-check_C06" else []
  | "sample" when not panicked ->
      let (post, evs) = step (mk ()) (HSample (z (gi "L"))) in
      if iz post.hSR <> oi 0 || iz post.hwrap <> 0 then bad (Printf.sprintf "rows=%d-model=%d" (oi 0) (iz post.hSR))
      else if not (events_ok evs) then bad "event-fails-check_C06" else []
  | "cfg" when not panicked ->
      let pre = mk ~sr:(z (gi "SR")) ~w:(z (gi "wrap")) () in
      let (post, _) = step pre (HConfigure (z (gi "m"))) in
      if iz post.hSR <> oi 0 || iz post.hwrap <> oi 1 then
        bad (Printf.sprintf "rows,wrap=%d,%d-model=%d,%d" (oi 0) (oi 1) (iz post.hSR) (iz post.hwrap))
      else if List.length outs > 2 then begin
        (* capacity (FpCap.cstep, the subject of C06_histories_allocation_partial): a configure_wrap that fits into the
           capacity keeps the allocation; otherwise the new allocation (capacity chosen by std: observed) holds the rows *)
        let (cpost, _) = cstep (z k) pstF pstU (cst ~scap:(gi "scap") pre) (CBase (HConfigure (z (gi "m")), z (oi 2))) in
        if iz cpost.c_scap <> oi 2 then
          bad (Printf.sprintf "capacity-after=%d-model=%d(rows=%d,capacity-before=%d)" (oi 2) (iz cpost.c_scap) (oi 0) (gi "scap"))
        else []
      end else []
  | "exact" ->
      (* clone: the copy of the sequence matrix is an exact allocation (fp_clone_allocation_exact) *)
      let pre = mk ~sr:(z (gi "SR")) ~fr:(z (gi "FR")) ~ur:(z (gi "UR")) () in
      let (cpost, _) = cstep (z k) pstF pstU (cst pre) CCloneSeq in
      let (cpost2, _) = cstep (z k) pstF pstU (cst pre) CCloneScores in
      if iz cpost.c_scap <> oi 0 then
        bad (Printf.sprintf "clone-capacity=%d-model=%d(the-copy-is-not-an-exact-allocation)" (oi 0) (iz cpost.c_scap))
      else if iz cpost2.c_fcap <> oi 1 || iz cpost2.c_ucap <> oi 2 then
        bad (Printf.sprintf "clone-capacity-of-the-score-matrices=%d,%d-model=%d,%d" (oi 1) (oi 2) (iz cpost2.c_fcap) (iz cpost2.c_ucap))
      else []
  | "newseq" when not panicked ->
      (* StripedSequence::new(DenseMatrix::new(rows), L): Err(InvalidData) iff rows * C < L; wrap = 0 *)
      let err = (List.hd outs = "E") in
      let capobs = if err then 0 else oi 1 in
      let (cpost, _) = cstep (z k) pstF pstU (cst (mk ())) (CNewSeq (z (gi "rows"), z (gi "L"), z capobs)) in
      let err_model = (iz cpost.c_h.hSR = -7) in
      if err <> err_model then bad (Printf.sprintf "error=%b-model=%b" err err_model)
      else if err then []
      else if iz cpost.c_h.hSR <> oi 0 || iz cpost.c_h.hwrap <> oi 2 || iz cpost.c_h.hL <> gi "L" then
        bad (Printf.sprintf "rows,wrap=%d,%d-model=%d,%d" (oi 0) (oi 2) (iz cpost.c_h.hSR) (iz cpost.c_h.hwrap))
      else if iz cpost.c_scap <> oi 1 then bad (Printf.sprintf "capacity=%d-below-rows=%d" (oi 1) (oi 0))
      else []
  | ("score" | "uscore") when List.hd outs <> "U" && (gs "C" = "" || gi "C" = 32) ->
      let pre = mk ~l:(z (gi "L")) ~sr:(z (gi "SR")) ~w:(z (gi "wrap")) ~m:(z (gi "M")) () in
      let f32 = gi "es" = 4 in
      let a = arm_of (gs "arm") in
      let op = if f32 then HScoreF32 (a, gz "a", gz "b") else HScoreU8 (a, gz "a", gz "b") in
      let (post, evs) = step pre op in
      let rows_model = iz (if f32 then post.hFR else post.hUR) in
      let drows = if gs "drows" = "" then -7 else gi "drows" in
      if panicked then begin
        (* the model panics too; its post-state: the SIMD wrappers leave the score matrix alone, the generic code has
           already resized it to rows.len() when its checked index panics (pre-state of the scores = observed) *)
        let pre' = if f32 then { pre with hFR = z drows } else { pre with hUR = z drows } in
        let (post', evs') = step pre' op in
        let rows_model' = iz (if f32 then post'.hFR else post'.hUR) in
        if evs' <> [] then bad "implementation-panicked-model-did-not"
        else if List.length outs > 1 && drows <> -7 && rows_model' <> oi 1 then
          bad (Printf.sprintf "rows-after-panic=%d-model=%d(rows-before=%d)" (oi 1) rows_model' drows)
        else []
      end
      else if rows_model = -7 then bad "model-panics-implementation-did-not"
      else if rows_model <> oi 0 then bad (Printf.sprintf "rows=%d-model=%d" (oi 0) rows_model)
      else if not (events_ok evs) then bad "event-fails-check_C06"
      else begin
        (* the capacity-aware step (FpCap.cstep): same kernel entry, extents of the sequence matrix = its allocation *)
        (* pre-state of the destination = observed rows / capacity before the call; the capacity std chose if the
           resize reallocated = observed capacity after the call *)
        let dcap = if gs "dcap" = "" then oi 1 else gi "dcap" in
        let pre_c = if f32 then cst ~scap:(gi "scap") ~fcap:dcap ~ucap:0 { pre with hFR = z (max drows 0); hUR = z 0 }
                    else cst ~scap:(gi "scap") ~fcap:0 ~ucap:dcap { pre with hUR = z (max drows 0); hFR = z 0 } in
        let (cpost, cevs) = cstep (z k) pstF pstU pre_c (CBase (op, z (oi 1))) in
        let dcap_model = iz (if f32 then cpost.c_fcap else cpost.c_ucap) in
        if List.length cevs <> List.length evs || iz cpost.c_scap <> gi "scap" then bad "capacity-model-differs-from-history-model"
        else if gi "scap" < gi "SR" then bad (Printf.sprintf "capacity=%d-below-rows=%d" (gi "scap") (gi "SR"))
        else if dcap_model <> oi 1 then
          bad (Printf.sprintf "score-matrix-capacity-after=%d-model=%d(rows-before=%d,capacity-before=%d,rows-after=%d)" (oi 1) dcap_model drows dcap (oi 0))
        (* the accesses are those of hstep's events (checked against the owned rows above); what the capacity-aware step
           adds is that the owned rows lie inside the allocations at this step: compare the extents, buffer by buffer *)
        else if not (List.for_all (fun ce -> List.for_all (fun b -> Z.leb (ce.ce_ev.ev_ext (nat_of_int b)) (ce.ce_alloc (nat_of_int b))) [0; 1; 2; 3]) cevs)
          then bad "owned-rows-outside-the-allocation"
        else []
      end
  | ("enc" | "encuse") ->
      let a = match gs "pl", gs "arm" with
        | "a", _ -> AAvx2 | "s", _ -> ASse2 | "d", "avx2" -> AAvx2 | _ -> AGeneric in
      let (post, evs) = step (mk ()) (HEncode (a, z (gi "L"), z (gi "Ld"))) in
      let entered = iz post.hE <> -7 in
      if panicked = entered then bad (Printf.sprintf "panicked=%b-model-entered=%b" panicked entered)
      else if not (events_ok evs) then bad "event-fails-check_C06" else []
  | ("fmax" | "umax") when gs "op" <> "thr" && (gs "C" = "" || gi "C" = 32) ->
      let f32 = gi "es" = 4 in
      let pre = if f32 then mk ~fr:(z (gi "rows")) ~fi:(z (gi "maxidx")) () else mk ~ur:(z (gi "rows")) () in
      (* the dispatcher's Sse2 arm of `max` is the generic code; Pipeline<Sse2>::max is argmax_sse2 *)
      let a = match gs "arm", gs "op", gs "pl" with
        | "sse2", "max", pl when pl <> "s" -> AGeneric
        | arm, _, _ -> arm_of arm in
      let op = match f32, gs "op" with
        | true, "argmax" -> HArgmaxF32 a | true, _ -> HMaxF32 a
        | false, "argmax" -> HArgmaxU8 a | false, _ -> HMaxU8 a in
      let (_, evs) = step pre op in
      let simd = (match a, f32 with AAvx2, _ -> true | ASse2, true -> true | _ -> false) in
      (* a SIMD arm enters its kernel exactly when the implementation returns Some (and does not panic) *)
      if not (events_ok evs) then bad "event-fails-check_C06"
      else if simd && not panicked && (evs <> []) <> (List.hd outs = "1") then
        bad (Printf.sprintf "kernel-entered=%b-implementation-returned-%s" (evs <> []) (List.hd outs))
      else []
  | _ -> []

let handle_record (r : string) : issue list =
  match String.split_on_char '|' r with
  | [name; params; out] ->
      let f = List.map kv (split ',' params) in
      let gs k = try List.assoc k f with Not_found -> "" in
      let gi k = match List.assoc_opt k f with
        | None -> 0
        | Some v -> (match int_of_string_opt v with Some n -> n | None -> failwith ("unparsable-number:" ^ k ^ "=" ^ v)) in
      let gz k = match List.assoc_opt k f with None -> Z0 | Some v -> zs v in
      let outs = split ',' out in
      let oi k = try int_of_string (List.nth outs k) with _ -> -1 in
      (* a panicking scoring call prints `P,<rows>,<capacity>` of the score matrix as the unwinding call left it *)
      let panicked = (out = "P") || (String.length out > 1 && String.sub out 0 2 = "P,") in
      let issues = ref [] in
      let add i = issues := !issues @ i in
      let stride_check what got es c =
        if got <> dense_stride es c then
          add [Guard (Printf.sprintf "%s:stride-%s=%d-dense-model=%d" name what got (dense_stride es c))] in
      (* compare a wrapper result with what the implementation did *)
      let guard_cmp (g : kernel_run res) ~(rows_entered : int) ~(observed_rows : int) =
        match g with
        | Panic s -> if not panicked then add [Guard (Printf.sprintf "%s:model-panics(site%d)-implementation-did-not(%s)" name (int_of_nat s) params)]; None
        | Ok Skipped ->
            if panicked then add [Guard (Printf.sprintf "%s:implementation-panicked-model-returns-early(%s)" name params)]
            else if observed_rows <> 0 then add [Guard (Printf.sprintf "%s:model-returns-early-implementation-wrote-%d-rows(%s)" name observed_rows params)];
            None
        | Ok (Entered accs) ->
            if panicked then (add [Guard (Printf.sprintf "%s:implementation-panicked-model-enters-kernel(%s)" name params)]; None)
            else begin
              if observed_rows <> rows_entered then
                add [Guard (Printf.sprintf "%s:rows-%d-model-%d(%s)" name observed_rows rows_entered params)];
              Some accs
            end
        | _ -> add [Guard (name ^ ":model-error")]; None in
      (try add (history_step name gs gi gz outs panicked)
       with e -> add [Guard ("history-model:exception:" ^ Printexc.to_string e)]);
      (match name with
       | "enc" | "encuse" ->
           let l = gi "L" and ld = gi "Ld" in
           let kern = match gs "pl", gs "arm" with
             | "a", _ -> fp_encode_into_avx2
             | "s", _ -> fp_encode_into_sse2
             | "d", "avx2" -> fp_encode_into_avx2
             | _ -> fp_encode_generic in
           (match guard_cmp (wrap_encode kern (z l) (z ld)) ~rows_entered:0 ~observed_rows:0 with
            | Some accs ->
                add (check name (ext_encode (z l) (z ld)) balign_slices (fun b -> if b = 0 then l else ld) accs)
            | None -> ());
           if name = "encuse" && not panicked && gi "symmax" >= gi "K" then
             add [Invariant (Printf.sprintf "symbol-invariant-broken:encode_into(pl=%s,arm=%s)-left-code-%d-in-dst,K=%d" (gs "pl") (gs "arm") (gi "symmax") (gi "K"))]
       | "stripe" ->
           let l = gi "L" and st = gi "st" in
           stride_check "seq" st 1 32;
           let avx2 = (gs "pl" = "a") || (gs "pl" = "d" && gs "arm" = "avx2") in
           if panicked then add [Guard ("stripe:unexpected-panic(" ^ params ^ ")")]
           else begin
             let rows_model = iz (if avx2 then stripe_rows (z l) else gstripe_rows (z 32) (z l)) in
             if oi 0 <> rows_model then add [Guard (Printf.sprintf "stripe:rows-%d-model-%d(%s)" (oi 0) rows_model params)];
             if oi 2 <> 0 then add [Guard "stripe:wrap-not-reset"];
             if List.length outs > 3 && oi 3 >= 0 then
               add [Invariant (Printf.sprintf "write-past-the-owned-rows(inside-capacity):stripe-damaged-canary-at-byte-%d(%s)" (oi 3) params)];
             let cap b = if b = 0 then gi "ecap" else oi 1 * st in
             if avx2 then add (check "stripe_avx2" (ext_stripe (z l) (z st)) balign_stripe cap (fp_stripe_avx2 (z l) (z st)))
             else add (check "stripe_generic" (ext_gstripe (z 32) (z l) (z st)) balign_stripe cap (fp_stripe_generic (z 32) (z l) (z st)))
           end
       | "sample" ->
           let l = gi "L" and c = gi "C" in
           if panicked then add [Guard "sample:unexpected-panic"]
           else begin
             let st = dense_stride 1 c in
             let rows_model = iz (sample_rows (z c) (z l)) in
             if oi 0 <> rows_model then add [Guard (Printf.sprintf "sample:rows-%d-model-%d" (oi 0) rows_model)];
             add (check "sample" (ext_dense (z 1) (z st) (z rows_model)) (fun _ -> z 32) (fun _ -> oi 1 * st) (fp_sample (z c) (z st) (z l)))
           end
       | "cfg" ->
           if panicked then add [Guard ("cfg:unexpected-panic(" ^ params ^ ")")]
           else begin
             let (r, w) = configure_wrap_model (z (gi "SR")) (z (gi "wrap")) (z (gi "m")) in
             if oi 0 <> iz r || oi 1 <> iz w then
               add [Guard (Printf.sprintf "cfg:rows,wrap=%d,%d-model=%d,%d(%s)" (oi 0) (oi 1) (iz r) (iz w) params)]
           end
       | "score" | "uscore" ->
           if out = "U" then ()  (* no 8-bit scoring for this alphabet on this pipeline (type level) *)
           else begin
             let es = gi "es" and k = gi "K" in
             let c = if gs "C" = "" then 32 else gi "C" in
             let p = { pK = z k; pL = z (gi "L"); pSR = z (gi "SR"); pwrap = z (gi "wrap"); pM = z (gi "M");
                       pa = gz "a"; pb = gz "b"; psst = z (gi "sst"); ppst = z (gi "pst"); pdst = z (gi "dst") } in
             let range_len = zint (Z.sub p.pb p.pa) in
             stride_check "seq" (gi "sst") 1 c;
             stride_check "pssm" (gi "pst") es k;
             stride_check "scores" (gi "dst") es c;
             let (kname, g) = match gs "arm", es with
               | "avx2", 4 -> ((if k <= 8 then "score_f32_avx2_permute" else "score_f32_avx2_gather"), wrap_score_f32_avx2 true p)
               | "avx2", _ -> ("score_u8_avx2_shuffle", wrap_score_u8_avx2 true p)
               | "sse2", 4 -> ("score_sse2", wrap_score_sse2 true (z c) p)
               | _ -> ("score_generic", wrap_score_generic p) in
             (* allocated bytes of the three matrices: the extracted FpCap.alloc_score on the observed capacities
                (sequence and scoring matrix before the call, score matrix after it) *)
             let cap b = iz (alloc_score (z es) p (z (gi "scap")) (z (gi "pcap")) (z (max (oi 1) 0)) (nat_of_int b)) in
             (* the destination as a Vec (FpCap.cb_resize, fp_resize_holds_rows): rows() never exceeds capacity(); a
                resize that fits keeps the allocation (seeded change C06/6 reserved `rows - capacity` and set_len) *)
             if (not panicked) && gs "dcap" <> "" && List.length outs > 1 then begin
               if oi 0 > oi 1 then
                 add [Invariant (Printf.sprintf "rows-exceed-capacity:%s-left-the-score-matrix-with-rows()=%d-capacity()=%d(%s)" name (oi 0) (oi 1) params)]
               else begin
                 let m = cb_resize { cb_rows = z (gi "drows"); cb_cap = z (gi "dcap") } (z (oi 0)) (z (oi 1)) in
                 if iz m.cb_cap <> oi 1 then
                   add [Guard (Printf.sprintf "%s:score-matrix-capacity-after=%d-model=%d(rows=%d,capacity-before=%d:a-resize-that-fits-keeps-the-allocation)" name (oi 1) (iz m.cb_cap) (oi 0) (gi "dcap"))]
               end
             end;
             if (not panicked) && List.length outs > 2 && oi 2 >= 0 then
               add [Invariant (Printf.sprintf "write-past-the-owned-rows(inside-capacity):%s-damaged-canary-at-byte-%d(%s)" name (oi 2) params)];
             (* the guards as the code computes them, in usize (FpUsize.score_guard_usize; theorems
                fp_usize_guard_...): with and without overflow checks the outcome class (enters / returns early / panics)
                must be that of the Z guard the theorems of C06.v speak about *)
             let code = function Ok (Entered _) -> 2 | Ok Skipped -> 1 | _ -> 0 in
             if gs "arm" = "avx2" || (gs "arm" = "sse2" && es = 4) then begin
               let rb = z (gi "dst" * es) in
               List.iter (fun release ->
                 let u = score_guard_usize release rb p (fun () -> []) in
                 if code u <> code g then
                   add [Guard (Printf.sprintf "%s:usize-guard(%s)=%d-Z-guard=%d(2=enters,1=returns,0=panics;%s)" name
                                 (if release then "release" else "overflow-checks") (code u) (code g) params)])
                 [false; true]
             end;
             match guard_cmp g ~rows_entered:range_len ~observed_rows:(oi 0) with
             | Some accs -> add (check kname (ext_score (z es) p) balign_mat_src cap accs)
             | None -> ()
           end
       | "fmax" | "umax" ->
           let es = gi "es" and c = gi "C" and rows = gi "rows" and st = gi "st" and mi = gi "maxidx" in
           stride_check "scores" st es c;
           let op = gs "op" and pl = gs "pl" and arm = gs "arm" in
           let generic_g = if rows = 0 then Ok Skipped else Ok (Entered []) in
           let (kname, g, loc) =
             if op = "thr" then ("threshold_generic", Ok (Entered []), 0)
             else match arm, es, op with
               | "avx2", 4, "argmax" -> ("argmax_f32_avx2", wrap_argmax_f32_avx2 (z rows) (z mi) (z st), 128)
               | "avx2", 4, _ -> ("max_f32_avx2", wrap_max_f32_avx2 (z rows) (z st), 32)
               | "avx2", _, "argmax" -> ("argmax_u8_avx2", wrap_argmax_u8_avx2 (z rows) (z st), 64)
               | "avx2", _, _ -> ("max_u8_avx2", wrap_max_u8_avx2 (z rows) (z st), 32)
               | "sse2", 4, "argmax" -> ("argmax_sse2", wrap_argmax_sse2 (z c) (z rows) (z mi) (z st), 4 * c)
               (* Pipeline<A,Sse2>::max is the default `argmax().map(..)`, hence the SSE2 argmax kernel;
                  the dispatcher's Sse2 arm of `max` falls through to the generic code *)
               | "sse2", 4, _ when pl = "s" -> ("argmax_sse2", wrap_argmax_sse2 (z c) (z rows) (z mi) (z st), 4 * c)
               | _ -> ("max_generic", generic_g, 0) in
           let cap b = if b = 0 then gi "cap" * st * es else loc in
           (match g with
            | Panic s -> if not panicked then add [Guard (Printf.sprintf "%s:model-panics(site%d)-implementation-did-not" kname (int_of_nat s))]
            | Ok Skipped ->
                if panicked then add [Guard (kname ^ ":implementation-panicked-model-returns-None")]
                else if op <> "thr" && out <> "0" then add [Guard (kname ^ ":model-None-implementation-Some")]
            | Ok (Entered accs) ->
                if panicked then add [Guard (Printf.sprintf "%s:implementation-panicked-model-enters-kernel(%s)" kname params)]
                else begin
                  if op <> "thr" && out <> "1" then add [Guard (kname ^ ":model-Some-implementation-None")];
                  add (check kname (ext_max (z es) (z rows) (z st) (z loc)) balign_mat_src cap accs)
                end
            | _ -> add [Guard (kname ^ ":model-error")])
       | "dnew" | "dcap" | "dresize" | "dreserve" | "dfill" | "dclone" | "dfrom" | "dfromshort" | "dset" | "dsum" ->
           let es = gi "es" and c = gi "C" and rows0 = gi "rows0" and st = gi "st" in
           stride_check "dense" st es c;
           let arg = gi "arg" and arg2 = gi "arg2" in
           let expect_rows n = if panicked then add [Guard (name ^ ":unexpected-panic")]
             else if oi 0 <> n then add [Guard (Printf.sprintf "%s:rows-%d-model-%d" name (oi 0) n)] in
           (match name with
            | "dnew" | "dcap" | "dresize" -> expect_rows arg
            | "dreserve" | "dclone" | "dsum" -> expect_rows rows0
            | "dfill" ->
                expect_rows rows0;
                add (check "fill" (ext_dense (z es) (z st) (z rows0)) (fun _ -> z 32) (fun _ -> gi "cap0" * st * es)
                       (fp_ravel (z es) (z st) (z rows0) @ (if rows0 * st <= 20000 then fp_fill (z es) (z st) (z rows0) else [])))
            | "dfrom" ->
                let ragged = if arg2 = 1 && arg > 0 then arg / 2 else -1 in
                (match fp_from_rows (z es) (z c) (z st) (z arg) (z arg) (z ragged) with
                 | Panic _ -> if not panicked then add [Guard "from_rows:model-panics-implementation-did-not"]
                 | Ok (Entered accs) ->
                     if panicked then add [Guard "from_rows:implementation-panicked-model-does-not"]
                     else begin
                       expect_rows arg;
                       add (check "from_rows" (ext_dense (z es) (z st) (z arg)) (fun _ -> z 32) (fun _ -> oi 1 * st * es) accs)
                     end
                 | _ -> add [Guard "from_rows:model-error"])
            | "dfromshort" ->
                (* the iterator's len() claims arg rows, it yields arg2 rows of the right width *)
                (match fp_from_rows (z es) (z c) (z st) (z arg) (z arg2) (z (-1)) with
                 | Panic _ -> if not panicked then add [Guard "from_rows(short):model-panics-implementation-did-not"]
                 | Ok (Entered accs) ->
                     if panicked then add [Guard "from_rows(short):implementation-panicked-model-does-not"]
                     else begin
                       let want = iz (from_rows_rows true (z arg) (z arg2)) in
                       if oi 0 > arg2 then
                         add [Invariant (Printf.sprintf "from_rows-exposes-unwritten-rows:rows()=%d-but-the-iterator-yielded-%d(len()=%d,es=%d,C=%d)" (oi 0) arg2 arg es c)]
                       else if oi 0 <> want then add [Guard (Printf.sprintf "from_rows(short):rows-%d-model-%d" (oi 0) want)];
                       add (check "from_rows" (ext_dense (z es) (z st) (z (max (oi 0) 0))) (fun _ -> z 32) (fun _ -> oi 1 * st * es)
                              (List.filter (fun (a : access) -> iz a.aoff < oi 0 * st * es) accs))
                     end
                 | _ -> add [Guard "from_rows(short):model-error"])
            | "dset" ->
                let should_panic = arg >= rows0 || arg2 >= c in
                if should_panic <> panicked then add [Guard (Printf.sprintf "set:panic-%b-model-%b(%s)" panicked should_panic params)]
            | _ -> ())
       | "exact" ->
           (* exact-size copies (`clone`) of every matrix of the history: a Vec clone holds exactly rows() rows, which
              is what makes an access to row rows() leave the ALLOCATION in the children (guard page, redzone) *)
           List.iteri (fun k key ->
             if oi k <> gi key then
               add [Guard (Printf.sprintf "exact:clone-capacity-%d-rows-%d(%s:the-copy-is-not-an-exact-allocation)" (oi k) (gi key) key)])
             ["SR"; "FR"; "UR"; "PR"; "DR"]
       | "newseq" ->
           if panicked then add [Guard ("newseq:unexpected-panic(" ^ params ^ ")")]
       | _ -> ());   (* pssm, resz, scan, gibbs, count, setup: only the sanitizer verdict counts *)
      !issues
  | _ -> if r = "-" then [] else [Guard ("bad-record:" ^ r)]

(* ---------- mode `srcfp`: source-derived footprints (translate/footprint_exec.py) ----------
   line: <id> kernel=<name> k=v ... accs=<buf>:<off>:<width>:<r|w>:<align>,...
   The access list the Python interpreter derived from the kernel's SOURCE for these parameters is
   compared (as a set, accesses of width >= 4) with the list of the Coq footprint model, and checked
   by the extracted all_ok against the extents of the model. *)
let srcfp_line (line : string) : string =
  let toks = String.split_on_char ' ' line in
  let id = List.hd toks in
  let f = List.map kv (List.tl toks) in
  let gs k = try List.assoc k f with Not_found -> "" in
  let gi k = match List.assoc_opt k f with
    | None -> 0
    | Some v -> (match int_of_string_opt v with Some n -> n | None -> failwith ("unparsable-number:" ^ k ^ "=" ^ v)) in
  let parse_acc t = match String.split_on_char ':' t with
    | [b; o; w; rw; al] -> (int_of_string b, int_of_string o, int_of_string w, rw = "w", int_of_string al)
    | _ -> failwith ("bad access " ^ t) in
  let src = if gs "accs" = "-" then [] else List.map parse_acc (split ',' (gs "accs")) in
  let tup (a : access) = (int_of_nat a.abuf, iz a.aoff, iz a.awidth, a.awrite, iz a.aalign) in
  let untup (b, o, w, wrt, al) = { abuf = nat_of_int b; aoff = z o; awidth = z w; awrite = wrt; aalign = z al } in
  let show (b, o, w, wrt, al) = Printf.sprintf "buf%d+%d..+%d%s(align%d)" b o w (if wrt then "w" else "r") al in
  let kernel = gs "kernel" in
  let es = match kernel with "score_u8_avx2_shuffle" | "argmax_u8_avx2" | "max_u8_avx2" -> 1 | _ -> 4 in
  let c = if gs "C" = "" then 32 else gi "C" in
  let p = { pK = z (gi "K"); pL = z (gi "L"); pSR = z (gi "SR"); pwrap = z (gi "wrap"); pM = z (gi "M");
            pa = z (gi "a"); pb = z (gi "b"); psst = z (gi "sst"); ppst = z (gi "pst"); pdst = z (gi "dst") } in
  let rows = z (gi "rows") and st = z (gi "st") in
  let model, ext, balign =
    match kernel with
    | "encode_into_avx2" -> fp_encode_into_avx2 (z (gi "L")), ext_encode (z (gi "L")) (z (gi "L")), balign_slices
    | "encode_into_sse2" -> fp_encode_into_sse2 (z (gi "L")), ext_encode (z (gi "L")) (z (gi "L")), balign_slices
    | "stripe_avx2" -> fp_stripe_avx2 (z (gi "L")) (z (gi "ost")), ext_stripe (z (gi "L")) (z (gi "ost")), balign_stripe
    | "score_f32_avx2_permute" -> fp_score_f32_avx2_permute p, ext_score (z 4) p, balign_mat_src
    | "score_f32_avx2_gather" -> fp_score_f32_avx2_gather p, ext_score (z 4) p, balign_mat_src
    | "score_u8_avx2_shuffle" -> fp_score_u8_avx2_shuffle p, ext_score (z 1) p, balign_mat_src
    | "score_sse2" -> fp_score_sse2 (z c) p, ext_score (z 4) p, balign_mat_src
    | "argmax_f32_avx2" -> fp_argmax_f32_avx2 rows st, ext_max (z 4) rows st (z 128), balign_mat_src
    | "max_f32_avx2" -> fp_max_f32_avx2 rows st, ext_max (z 4) rows st (z 32), balign_mat_src
    | "argmax_u8_avx2" -> fp_argmax_u8_avx2 rows st, ext_max (z 1) rows st (z 64), balign_mat_src
    | "max_u8_avx2" -> fp_max_u8_avx2 rows st, ext_max (z 1) rows st (z 32), balign_mat_src
    | "argmax_sse2" -> fp_argmax_sse2 (z c) rows st, ext_max (z 4) rows st (z (4 * c)), balign_mat_src
    | "encode_into_neon" -> fp_encode_into_neon (z (gi "L")), ext_encode (z (gi "L")) (z (gi "L")), balign_slices
    | "score_f32_neon" -> fp_score_f32_neon (z c) p, ext_score (z 4) p, balign_mat16
    | "score_u8_neon" -> fp_score_u8_neon (z c) p, ext_score (z 1) p, balign_mat16
    | k -> failwith ("unknown kernel " ^ k) in
  ignore es;
  let wide = List.filter (fun (_, _, w, _, _) -> w >= 4) in
  let m = List.sort_uniq compare (wide (List.map tup model)) in
  let sset = List.sort_uniq compare (wide src) in
  let rec first_diff a b = match a, b with
    | [], [] -> None
    | x :: _, [] -> Some ("model-only:" ^ show x)
    | [], y :: _ -> Some ("source-only:" ^ show y)
    | x :: a', y :: b' -> if x = y then first_diff a' b'
                          else if compare x y < 0 then Some ("model-only:" ^ show x) else Some ("source-only:" ^ show y) in
  let src_accs = List.map untup src in
  (* the NEON scoring wrappers as transcribed from neon.rs (with the row-range check of commit 9cd9b52:
     ranged = true; before that commit — finding F26 — they had none) *)
  let neon_wrapper = match kernel with
    | "score_f32_neon" -> Some (wrap_score_f32_neon true (z c) p)
    | "score_u8_neon" -> Some (wrap_score_u8_neon true (z c) p)
    | _ -> None in
  let sets_equal = (first_diff m sset = None) in
  (* what the wrapper does according to its SOURCE (interpreter): 2 = enters the kernel, 1 = returns early,
     0 = panics; compared with the model's wrapper *)
  let code = function Ok (Entered _) -> 2 | Ok Skipped -> 1 | _ -> 0 in
  match neon_wrapper with
  | Some g when gs "entered" <> "" && gi "entered" <> code g ->
      Printf.sprintf "%s DIFF srcfp:%s:wrapper-guard-source=%d-model=%d(2=enters,1=returns,0=panics;K=%d,L=%d,SR=%d,wrap=%d,M=%d,rows=%d..%d)"
        id kernel (gi "entered") (code g) (gi "K") (gi "L") (gi "SR") (gi "wrap") (gi "M") (gi "a") (gi "b")
  | Some g when code g <> 2 -> Printf.sprintf "%s OK 0" id
  | Some (Ok (Entered accs)) when sets_equal && not (check_C06 ext balign accs) ->
      (* (this was finding F26, repaired in 9cd9b52; by fp_score_*_neon_safe it cannot happen while the guard
         comparison above passes) model (wrapper + kernel as in neon.rs) and source-derived footprint agree, the
         call passes the guards neon.rs has, and the extracted checker rejects an access *)
      Printf.sprintf "%s PROPFAIL srcfp:%s:neon-wrapper-lacks-the-row-range-guard:%s(static:source-interpreter+model,not-executed;K=%d,L=%d,SR=%d,wrap=%d,M=%d,rows=%d..%d,C=%d)"
        id kernel (match first_bad ext balign accs with Some a -> show_acc a | None -> "?")
        (gi "K") (gi "L") (gi "SR") (gi "wrap") (gi "M") (gi "a") (gi "b") c
  | _ ->
  if not (check_C06 ext balign src_accs) then
    Printf.sprintf "%s DIFF srcfp:%s:source-derived-access-fails-the-checker:%s" id kernel
      (match first_bad ext balign src_accs with Some a -> show_acc a | None -> "?")
  else match first_diff m sset with
    | None -> Printf.sprintf "%s OK %d" id (List.length sset)
    | Some d -> Printf.sprintf "%s DIFF srcfp:%s:%s(model-%d-accesses,source-%d)" id kernel d (List.length m) (List.length sset)

let () =
  if Array.length Sys.argv > 1 && Sys.argv.(1) = "srcfp" then begin
    (try
      while true do
        let line = input_line stdin in
        if String.length line > 0 && line.[0] <> '#' then
          print_endline (try srcfp_line line with e ->
            (List.hd (String.split_on_char ' ' line)) ^ " DIFF srcfp:driver-exception:" ^ Printexc.to_string e)
      done
    with End_of_file -> ());
    exit 0
  end;
  try
    while true do
      let line = input_line stdin in
      if String.length line > 0 && line.[0] <> '#' then begin
        let (inp, obs) =
          match Str.bounded_split (Str.regexp_string " => ") line 2 with
          | [a; b] -> (a, b) | [a] -> (a, "") | _ -> ("?", "") in
        let id = List.hd (String.split_on_char ' ' inp) in
        let has sub = try ignore (Str.search_forward (Str.regexp_string sub) inp 0); true with Not_found -> false in
        if has " kernel=" && has " accs=" then print_endline (srcfp_line inp) else
        let (verd, recs) =
          match Str.bounded_split (Str.regexp_string " :: ") obs 2 with
          | [a; b] -> (a, b) | [a] -> (a, "-") | _ -> ("", "-") in
        let vf = List.map kv (split ' ' verd) in
        let asan = try List.assoc "asan" vf with Not_found -> "NOASAN" in
        let dbg = try List.assoc "dbg" vf with Not_found -> "?" in
        let rel = try List.assoc "rel" vf with Not_found -> "-" in
        let dbg2 = try List.assoc "dbg2" vf with Not_found -> "-" in
        let msan = try List.assoc "msan" vf with Not_found -> "-" in
        let issues =
          try List.concat_map handle_record (split ';' recs)
          with e -> [Guard ("driver-exception:" ^ Printexc.to_string e)] in
        let starts p s = String.length s >= String.length p && String.sub s 0 (String.length p) = p in
        let model_bad = List.filter_map (function ModelBad (d, past) -> Some (d, past) | _ -> None) issues in
        let invariants = List.filter_map (function Invariant d -> Some d | _ -> None) issues in
        let guards = List.filter_map (function Guard d -> Some d | _ -> None) issues in
        let model_txt = match model_bad with
          | [] -> "model=clean" | (d, _) :: _ -> "model-predicts=" ^ d in
        let msan_blind = starts "MSAN(not-seen-written" msan in
        let real_error = starts "ASAN" asan || starts "CRASH" asan || starts "CRASH" dbg || starts "ASAN" rel || starts "CRASH" rel || starts "CRASH" dbg2 in
        if msan_blind && not real_error then
          (* score / striped cells filled by non-temporal stores only: invisible to MemorySanitizer — the
             initialisation tie is broken (the wrappers no longer default-initialise the rows), not the property *)
          Printf.printf "%s DIFF initialisation-not-confirmed:msan=%s(cells-written-by-non-temporal-stores-only-are-invisible-to-the-sanitizer)\n" id msan
        else if (starts "MSAN" msan && not msan_blind) || starts "CRASH" msan then
          Printf.printf "%s PROPFAIL uninitialised-memory msan=%s asan=%s dbg=%s\n" id msan asan dbg
        else if starts "ASAN" asan || starts "CRASH" asan || starts "CRASH" dbg || starts "ASAN" rel || starts "CRASH" rel || starts "CRASH" dbg2 then
          Printf.printf "%s PROPFAIL memory-error asan=%s rel=%s dbg=%s dbg2=%s %s%s\n" id asan rel dbg dbg2 model_txt
            (match guards with [] -> "" | g :: _ -> " guard=" ^ g)
        else if starts "NOTRUN" asan || starts "NOTRUN" dbg || starts "NOTRUN" rel || starts "NOTRUN" dbg2 || starts "NOTRUN" msan then
          Printf.printf "%s DIFF not-run-after-repeated-hangs-of-the-implementation\n" id
        else if starts "HANG" asan || starts "HANG" dbg || starts "HANG" rel || starts "HANG" dbg2 || starts "HANG" msan then
          Printf.printf "%s DIFF implementation-did-not-terminate asan=%s rel=%s dbg=%s\n" id asan rel dbg
        else if invariants <> [] then
          Printf.printf "%s PROPFAIL %s\n" id (List.hd invariants)
        else if asan = "NOASAN" || rel = "NOASAN" || msan = "NOMSAN" || dbg = "NOASAN" || dbg2 = "NOASAN" then
          Printf.printf "%s DIFF no-sanitizer-verdict(ASan-build-missing)\n" id
        else if List.exists snd model_bad then
          Printf.printf "%s DIFF model-predicts-access-past-the-allocation-sanitizer-clean:%s\n" id
            (fst (List.find snd model_bad))
        else if guards <> [] then
          Printf.printf "%s DIFF %s\n" id (List.hd guards)
        else if model_bad <> [] then
          (* the proven-sound check_C06 rejected an access of the MODEL's footprint on the parameters the kernel was
             entered with (inside the observed capacity): by the theorems of C06.v this cannot happen for the kernel
             and extents the guards admit, so the driver picked another kernel / extent than the code: broken tie *)
          Printf.printf "%s DIFF model-access-outside-owned-rows:%s\n" id (fst (List.hd model_bad))
        else
          Printf.printf "%s OK\n" id
      end
    done
  with End_of_file -> ()
