(* Driver for the extracted model of the PyO3 glue (property C17).

   stdin : observation lines of `lmpy py c17_main.py run`
             <id> h=<op>;<op>;... => abc=<dna>/<protein> o0=<outcome> o1=... or=<core call>|<result> ...
           (or `... => abort=<why>` when the interpreter died, `... => harness-error=...`)
   stdout: one verdict per case:  <id> OK | <id> PROPFAIL <detail> | <id> DIFF <detail>

   The extracted glue model (Pyglue_model.run_call) is run over the history with the core
   library *as observed by lmcore* plugged in for the record [core]: every core operation is a
   lookup in the oracle table of the case (`or=` tokens).  PROPFAIL is decided by the extracted,
   proved-sound checker check_C17 (value prescribed by the core differs / value where an
   exception is due / exception where a value is due / PanicException or abort where the core
   does not panic); DIFF = model and implementation disagree otherwise (kind of exception,
   oracle entry missing, history dependence of a core result, lazy and eager reading of a scanner differ).
   Every call is also run through Pyglue_model.run_call_lazy (scanners as lazy state over the live sequence
   object); `mt` (thread) ops are judged from the worker's own comparison of concurrent and sequential
   results. *)
module BZ = Z
open Pyglue_model

exception Miss of string

(* the core operation (name of the oracle entry) that was last seen to panic *)
let last_panic : string ref = ref ""

(* ------------------------------------------------------------------ numbers *)
let rec nat_of_int n = if n <= 0 then O else S (nat_of_int (n - 1))
let rec int_of_nat = function O -> 0 | S n -> 1 + int_of_nat n

let rec pos_of_bz (n : BZ.t) : positive =
  if BZ.equal n BZ.one then XH
  else if BZ.is_even n then XO (pos_of_bz (BZ.shift_right n 1))
  else XI (pos_of_bz (BZ.shift_right n 1))
let z_of_bz n =
  if BZ.sign n = 0 then Z0 else if BZ.sign n > 0 then Zpos (pos_of_bz n) else Zneg (pos_of_bz (BZ.neg n))
let rec bz_of_pos = function
  | XH -> BZ.one
  | XO p -> BZ.shift_left (bz_of_pos p) 1
  | XI p -> BZ.succ (BZ.shift_left (bz_of_pos p) 1)
let bz_of_z = function Z0 -> BZ.zero | Zpos p -> bz_of_pos p | Zneg p -> BZ.neg (bz_of_pos p)
let z_of_string s = z_of_bz (BZ.of_string s)
let string_of_z z = BZ.to_string (bz_of_z z)
let z_of_int n = z_of_bz (BZ.of_int n)
let int_of_z z = BZ.to_int (bz_of_z z)

let split c s = if s = "" then [] else String.split_on_char c s

(* ------------------------------------------------------------------ text *)
let hex_of_bytes (b : int list) = String.concat "" (List.map (Printf.sprintf "%02x") b)
let bytes_of_hex (h : string) : int list =
  let n = String.length h / 2 in
  List.init n (fun i -> int_of_string ("0x" ^ String.sub h (2 * i) 2))

let utf8_encode (cps : int list) : int list =
  List.concat_map (fun c ->
      if c < 0x80 then [c]
      else if c < 0x800 then [0xC0 lor (c lsr 6); 0x80 lor (c land 0x3F)]
      else if c < 0x10000 then [0xE0 lor (c lsr 12); 0x80 lor ((c lsr 6) land 0x3F); 0x80 lor (c land 0x3F)]
      else [0xF0 lor (c lsr 18); 0x80 lor ((c lsr 12) land 0x3F); 0x80 lor ((c lsr 6) land 0x3F); 0x80 lor (c land 0x3F)])
    cps

let rec utf8_decode (b : int list) : int list =
  match b with
  | [] -> []
  | x :: r when x < 0x80 -> x :: utf8_decode r
  | x :: y :: r when x land 0xE0 = 0xC0 -> (((x land 0x1F) lsl 6) lor (y land 0x3F)) :: utf8_decode r
  | x :: y :: z :: r when x land 0xF0 = 0xE0 ->
      (((x land 0x0F) lsl 12) lor ((y land 0x3F) lsl 6) lor (z land 0x3F)) :: utf8_decode r
  | x :: y :: z :: w :: r when x land 0xF8 = 0xF0 ->
      (((x land 0x07) lsl 18) lor ((y land 0x3F) lsl 12) lor ((z land 0x3F) lsl 6) lor (w land 0x3F)) :: utf8_decode r
  | x :: r -> (0xDC00 + x) :: utf8_decode r      (* undecodable byte: kept apart, never valid *)

let zl (l : int list) = List.map z_of_int l
let il (l : z list) = List.map int_of_z l
let hex_of_cps (cps : z list) = hex_of_bytes (utf8_encode (il cps))
let hex_or_dash s = if s = "" then "-" else s
let hx (name : z list option) = match name with None -> "N" | Some cps -> "s" ^ hex_of_cps cps
let unhx (tok : string) : z list option =
  if tok = "N" then None else Some (zl (utf8_decode (bytes_of_hex (String.sub tok 1 (String.length tok - 1)))))

(* ------------------------------------------------------------------ value notation *)
let rec parse_pv (s : string) (i : int) : pyval * int =
  match s.[i] with
  | 'N' -> (PNone, i + 1)
  | 'T' -> (PBool true, i + 1)
  | 'F' -> (PBool false, i + 1)
  | 'O' -> (PObj, i + 1)
  | ('i' | 'f' | 's' | 'y' | 'V') as c ->
      let j = String.index_from s i '.' in
      let body = String.sub s (i + 1) (j - i - 1) in
      let v = match c with
        | 'i' -> PInt (z_of_string body)
        | 'f' -> PFloat (z_of_string body)
        | 's' -> PStr (zl (utf8_decode (bytes_of_hex body)))
        | 'y' -> PBytes (zl (bytes_of_hex body))
        | _ -> PRef (nat_of_int (int_of_string body)) in
      (v, j + 1)
  | ('L' | 'U' | 'D' | 'G') as c ->
      let rec items i acc =
        if s.[i] = ')' then (List.rev acc, i + 1)
        else let (v, i') = parse_pv s i in items i' (v :: acc) in
      let (l, i') = items (i + 2) [] in
      (match c with
       | 'L' -> (PList l, i')
       | 'U' -> (PTuple l, i')
       | 'G' -> (PGen l, i')
       | _ ->
           let rec pairs = function a :: b :: r -> (a, b) :: pairs r | _ -> [] in
           (PDict (pairs l), i'))
  | c -> failwith (Printf.sprintf "bad value notation %c" c)

let pv s = fst (parse_pv s 0)
let opt_pv s = if s = "-" then None else Some (pv s)

(* ------------------------------------------------------------------ rendering of contents *)
let tag = function Dna -> "D" | Protein -> "P"
let bits_txt (l : z list) = String.concat "," (List.map string_of_z l)
let rows_txt (m : z list list) = if m = [] then "-" else String.concat "/" (List.map bits_txt m)

let fields s = String.split_on_char ':' s

(* visible part of a weight / scoring matrix content: without the background *)
let vis_bg s = match fields s with [k; t; _; rows] -> k ^ ":" ^ t ^ ":" ^ rows | _ -> s
(* visible part of a StripedScores content "sc:<len>:<rows>:<cells>": the first len scores *)
let vis_sc s =
  match fields s with
  | [_; len; rows; cells] ->
      let len = int_of_string len and rows = int_of_string rows in
      if len = 0 || rows = 0 then "sc:" ^ string_of_int len ^ ":-" else begin
        let m = Array.of_list (List.map (fun r -> Array.of_list (split ',' r)) (split '/' cells)) in
        let v = List.init len (fun i -> m.(i mod rows).(i / rows)) in
        "sc:" ^ string_of_int len ^ ":" ^ String.concat "," v
      end
  | _ -> s
let vis_sq s = match fields s with k :: t :: _ -> k ^ ":" ^ t | _ -> s
(* a count matrix shows its counts, not the number of sequences: "cm:<abc>:<n>:<rows>" *)
let vis_cm s = match fields s with [k; t; _; rows] -> k ^ ":" ^ t ^ ":" ^ rows | _ -> s
let string_of_codes (l : z list) = String.concat "" (List.map (fun c -> String.make 1 (Char.chr (int_of_z c))) l)
let codes_of_string (s : string) = zl (List.map Char.code (List.of_seq (String.to_seq s)))
let text_of_sq s = match fields s with [_; _; _; text] -> if text = "-" then "" else text | _ -> ""

let render_obj (o : (string, string, string, string, string) obj) : string =
  match o with
  | OCount (_, c) -> vis_cm c
  | OWeight (_, w) -> vis_bg w
  | OScoring (_, s) -> vis_bg s
  | OSeq (_, q) -> vis_sq q
  | OScores sc -> vis_sc sc
  | OScanner _ -> "scanner"
  | OMotif _ | OLoaded _ -> "?"
  | OEncoded (a, s) -> "es:" ^ tag a ^ ":" ^ hex_or_dash (hex_of_cps s)
  (* the distribution object is the same at every access and belongs to this matrix alone *)
  | ODist d -> string_of_codes d ^ ":same=1:shared=0"
  | OFile -> "file"
  | OLoader _ -> "loader"

let render_motif (m : (string, string, string) motif) : string =
  let kind = match m.m_kind with
    | MPlain -> "motif+N+N+N"
    | MJaspar d -> "jaspar+" ^ hx d ^ "+N+N"
    | MUniprobe -> "uniprobe+N+N+N"
    | MTransfac (d, i, a) -> "transfac+" ^ hx d ^ "+" ^ hx i ^ "+" ^ hx a in
  Printf.sprintf "mo+%s+%s+%s+%s+%s+%s" (tag m.m_abc) (hx m.m_name)
    (match m.m_counts with None -> "N" | Some c -> vis_cm c) (vis_bg m.m_pwm) (vis_bg m.m_pssm) kind

let exc_name = function
  | ValueError -> "ValueError" | TypeError -> "TypeError" | OverflowError -> "OverflowError"
  | RuntimeError -> "RuntimeError" | OSError -> "OSError" | UnicodeError -> "UnicodeError"
  | AttributeError -> "AttributeError" | NameError -> "NameError" | KeyError -> "KeyError"

let exc_of_name = function
  | "ValueError" -> Some ValueError | "TypeError" -> Some TypeError | "OverflowError" -> Some OverflowError
  | "RuntimeError" -> Some RuntimeError
  | "OSError" | "FileNotFoundError" | "IsADirectoryError" | "NotADirectoryError" | "PermissionError" | "IOError" -> Some OSError
  | "UnicodeError" | "UnicodeEncodeError" | "UnicodeDecodeError" -> Some UnicodeError
  | "AttributeError" -> Some AttributeError | "NameError" -> Some NameError | "KeyError" -> Some KeyError
  | _ -> None

(* result -> (visible text, tail outcome for loads) *)
let render_result (r : (string, string, string, string, string) result) : string * unit outcome option =
  match r with
  | RObj (OMotif m) -> (render_motif m, None)
  | RObj o -> (render_obj o, None)
  | RIdx l -> ("li:" ^ hex_or_dash (bits_txt l), None)
  | RMaxv None -> ("fo:none", None)
  | RMaxv (Some b) -> ("fo:" ^ string_of_z b, None)
  | RArgv None -> ("io:none", None)
  | RArgv (Some n) -> ("io:" ^ string_of_z n, None)
  | RF64 b -> ("d:" ^ string_of_z b, None)
  | RF32 b -> ("fo:" ^ string_of_z b, None)
  | RHits (h, ended) ->
      ("h:" ^ hex_or_dash (String.concat "/" (List.map (fun (p, s) -> string_of_z p ^ "," ^ string_of_z s) h))
       ^ ":" ^ (if ended then "1" else "0"), None)
  | RLoad (ms, tail) -> (String.concat "&" ("ld" :: List.map render_motif ms), Some tail)
  | RLoadSeq items ->
      (String.concat "&" ("ld" :: List.map (function
           | Value m -> render_motif m | PyExc e -> "E:" ^ exc_name e | Panic -> "P") items), None)
  | RUnit -> ("deleted", None)
  | RBool b -> ((if b then "b:1" else "b:0"), None)
  | RStr t -> ("s:" ^ hex_or_dash (hex_of_cps t), None)

(* ------------------------------------------------------------------ the core library = oracle table *)
let make_core (tbl : (string, string) Hashtbl.t) : (string, string, string, string, string, string) core =
  let find key = match Hashtbl.find_opt tbl key with Some v -> v | None -> raise (Miss key) in
  let cres key conv = match find key with
    | "P" -> (last_panic := (match String.index_opt key '~' with Some i -> String.sub key 0 i | None -> key)); CPanic
    | "E" -> CErr | v -> COk (conv v) in
  let id x = x in
  let zlist v = List.map z_of_string (split ',' v) in
  let after_colon v = match String.index_opt v ':' with Some i -> String.sub v (i + 1) (String.length v - i - 1) | None -> v in
  let zopt v = match after_colon v with "none" -> None | b -> Some (z_of_string b) in
  let pseudo_txt = function PsScalar x -> "S" ^ string_of_z x | PsArray p -> "A" ^ bits_txt p in
  let fmt_txt = function Jaspar -> "jaspar" | Jaspar16 -> "jaspar16" | Uniprobe -> "uniprobe" | Transfac -> "transfac" in
  let parse_items v =
    if v = "none" then [] else
    List.map (fun it ->
        match String.split_on_char '+' it with
        | ["err"; "invalid"] -> RErr EInvalidData
        | ["err"; "io"] -> RErr EIo
        | ["err"; "nom"] -> RErr ENom
        | ["panic"] -> RPanic
        | ["ok"; "jaspar"; name; desc; _; _; c] ->
            ROk (RecJaspar ((match unhx name with Some n -> n | None -> []), unhx desc, c))
        | ["ok"; "uniprobe"; name; _; _; _; f] -> ROk (RecUniprobe ((match unhx name with Some n -> n | None -> []), f))
        | ["ok"; "transfac"; name; desc; i; a; c] ->
            ROk (RecTransfac (unhx name, unhx desc, unhx i, unhx a, (if c = "N" then None else Some c)))
        | _ -> failwith ("bad reader item " ^ it))
      (String.split_on_char '&' v) in
  { c_count_new = (fun a m -> cres (Printf.sprintf "count_new~%s~%s" (tag a) (rows_txt m)) id);
    c_encode_ok = (fun a s -> cres (Printf.sprintf "encode~%s~%s" (tag a) (hex_or_dash (hex_of_cps s))) (fun _ -> ()));
    c_from_seqs = (fun a l ->
        let txt = if l = [] then "none" else String.concat "," (List.map (fun s -> hex_or_dash (hex_of_cps s)) l) in
        cres (Printf.sprintf "from_seqs~%s~%s" (tag a) txt) id);
    c_to_freq = (fun c p -> cres (Printf.sprintf "to_freq~%s~%s" c (pseudo_txt p)) id);
    c_to_weight = (fun f -> cres ("to_weight~" ^ f) id);
    c_bg_uniform = (fun a -> zlist (find ("bg_uniform~" ^ tag a)));
    c_bg_new = (fun a p -> cres (Printf.sprintf "bg_new~%s~%s" (tag a) (bits_txt p)) zlist);
    c_w_bg = (fun w -> zlist (find ("weight_bg~" ^ w)));
    c_rescale = (fun w g -> cres (Printf.sprintf "rescale~%s~%s" w (bits_txt g)) id);
    c_to_scoring_base = (fun w b -> cres (Printf.sprintf "to_scoring_base~%s~%s" w (string_of_z b)) id);
    c_scoring_new = (fun a g m -> cres (Printf.sprintf "scoring_new~%s~%s~%s" (tag a) (bits_txt g) (rows_txt m)) id);
    c_revcomp = (fun s -> cres ("revcomp~" ^ s) id);
    c_max_score = (fun s -> cres ("max_score~" ^ s) (fun v -> z_of_string (after_colon v)));
    c_cm_eq = (fun x y -> find (Printf.sprintf "eq~%s~%s" x y) = "true");
    c_wm_eq = (fun x y -> find (Printf.sprintf "eq~%s~%s" x y) = "true");
    c_sm_eq = (fun x y -> find (Printf.sprintf "eq~%s~%s" x y) = "true");
    c_dist_sf = (fun x -> cres ("dist_sf~" ^ x) codes_of_string);
    (* the scores are part of the content "sm:<abc>:<background>:<rows>" *)
    c_sm_cells = (fun s -> match fields s with
        | [_; _; _; rows] when rows <> "-" -> List.map zlist (split '/' rows)
        | _ -> []);
    c_stripe = (fun a s -> cres (Printf.sprintf "stripe~%s~%s" (tag a) (hex_or_dash (hex_of_cps s))) id);
    c_configure = (fun q s -> cres (Printf.sprintf "configure~%s~%s" q s) id);
    c_score = (fun s q -> cres (Printf.sprintf "score~%s~%s" s q) id);
    c_threshold = (fun sc t -> cres (Printf.sprintf "threshold~%s~%s" sc (string_of_z t))
                      (fun v -> let b = after_colon v in if b = "-" then [] else zlist b));
    c_max = (fun sc -> cres ("max~" ^ sc) zopt);
    c_argmax = (fun sc -> cres ("argmax~" ^ sc) zopt);
    c_dist_pvalue = (fun s x -> cres (Printf.sprintf "dist_pvalue~%s~%s" s (string_of_z x)) (fun v -> z_of_string (after_colon v)));
    c_dist_score = (fun s x -> cres (Printf.sprintf "dist_score~%s~%s" s (string_of_z x)) (fun v -> z_of_string (after_colon v)));
    c_tfm_pvalue = (fun s x -> cres (Printf.sprintf "tfm_pvalue~%s~%s" s (string_of_z x)) (fun v -> z_of_string (after_colon v)));
    c_tfm_score = (fun s x -> cres (Printf.sprintf "tfm_score~%s~%s" s (string_of_z x)) (fun v -> z_of_string (after_colon v)));
    c_scan = (fun s q t b ->
        cres (Printf.sprintf "scan_all~%s~%s~%s~%s" s q (string_of_z t) (string_of_z b))
          (fun v -> let b = after_colon v in
            if b = "-" then [] else
            List.map (fun h -> match split ',' h with [p; x] -> (z_of_string p, z_of_string x) | _ -> failwith "hit")
              (split '/' b)));
    c_read_faulty = (fun desc f a ->
        let d = string_of_codes desc in
        let (mode, hex) = match String.index_opt d '|' with
          | Some i -> (String.sub d 0 i, String.sub d (i + 1) (String.length d - i - 1)) | None -> (d, "") in
        (* items: "ctor!" first when a call of the stream failed inside the constructor of the reader;
           "<item>!" when one failed during that next(); "stop" = the reader ended *)
        match find (Printf.sprintf "read_faulty~%s~%s~%s~%s" (fmt_txt f) (tag a) mode (hex_or_dash hex)) with
        | "P" -> (false, [(Some RPanic, false)])
        | "none" -> (false, [])
        | v ->
            let toks = String.split_on_char '&' v in
            let (ctor, toks) = match toks with "ctor!" :: r -> (true, r) | r -> (false, r) in
            (ctor, List.map (fun t ->
                 let n = String.length t in
                 let (t, fired) = if n > 0 && t.[n - 1] = '!' then (String.sub t 0 (n - 1), true) else (t, false) in
                 if t = "stop" then (None, fired)
                 else match parse_items t with [it] -> (Some it, fired) | _ -> failwith ("bad reader item " ^ t)) toks));
    c_lazy_next = (fun id j ->
        match find (Printf.sprintf "lnext~%d~%d" (int_of_nat id) (int_of_nat j)) with
        | "stop" -> None
        | "P" -> Some RPanic
        | v -> (match parse_items v with [it] -> Some it | _ -> failwith "lazy item"));
    c_read = (fun f a data ->
        match find (Printf.sprintf "read~%s~%s~%s" (fmt_txt f) (tag a) (hex_or_dash (hex_of_bytes (il data)))) with
        | "P" -> [RPanic]
        | v -> parse_items v) }

(* ------------------------------------------------------------------ ops *)
let which_of = function "c" -> O | "w" -> S O | _ -> S (S O)

(* what is left to read from a real file object that was used before it is handed to load():
   f<b|u|z><k> k bytes consumed by read(k) (buffered / raw FileIO / gzip), fk<k> seek(k),
   fn<n> n lines consumed by readline(), fe read to the end *)
let rec drop n l = if n <= 0 then l else match l with [] -> [] | _ :: r -> drop (n - 1) r
let rec drop_lines n l =
  if n <= 0 then l else
  let rec one = function [] -> [] | 10 :: r -> r | _ :: r -> one r in
  drop_lines (n - 1) (one l)

let file_of_mode mode data : file_arg =
  let raw = bytes_of_hex (if data = "-" then "" else data) in
  let bytes = zl raw in
  let num () = int_of_string (String.sub mode 2 (String.length mode - 2)) in
  match mode with
  | "p" | "b" | "pb" | "pP" -> FileData bytes      (* path as str / bytes / pathlib.Path *)
  | "q" | "e" -> FileMissing
  | "x" -> FileNoRead
  | "t" | "fx" -> FileNotBytes
  | "o" -> FileFaulty (FTooMany, codes_of_string ("o|" ^ (if data = "-" then "" else data)))   (* every read() returns too much *)
  | "r0" | "fe" -> FileData []
  | m when String.length m > 1 && m.[0] = 'X' ->
      (* what read() does wrong: k raises KeyError, p PermissionError(13), o OSError without errno, s / n return
         str / None, m returns too many bytes, c closes the file (later reads raise ValueError) *)
      let fl = match m.[1] with
        | 'k' -> FRaises KeyError | 'p' | 'o' -> FRaises OSError | 's' | 'n' -> FNotBytes | 'm' -> FTooMany
        | 'c' -> FRaises ValueError | _ -> failwith ("bad file mode " ^ m) in
      FileFaulty (fl, codes_of_string (m ^ "|" ^ (if data = "-" then "" else data)))
  | m when String.length m > 2 && m.[0] = 'f' && (m.[1] = 'b' || m.[1] = 'u' || m.[1] = 'z' || m.[1] = 'k') ->
      FileData (zl (drop (num ()) raw))
  | m when String.length m > 2 && m.[0] = 'f' && m.[1] = 'n' -> FileData (zl (drop_lines (num ()) raw))
  | m when String.length m > 1 && m.[0] = 'r' -> FileData bytes
  | m -> failwith ("bad file mode " ^ m)

let parse_op (s : string) : call =
  let n x = nat_of_int (int_of_string x) in
  match String.split_on_char ':' s with
  | ["cm"; d; v; p] -> KCountInit (n d, pv v, opt_pv p)
  | ["nz"; d; c; pc] -> KNormalize (n d, n c, opt_pv pc)
  | ["lo"; d; w; bg; base] -> KLogOdds (n d, n w, opt_pv bg, opt_pv base)
  | ["sm"; d; v; bg; p] -> KScoringInit (n d, pv v, opt_pv bg, opt_pv p)
  | ["st"; d; q; p] -> KStripe (n d, pv q, opt_pv p)
  | ["ca"; d; m; q] -> KCalculate (n d, n m, pv q)
  | ["th"; sc; t] -> KThreshold (n sc, pv t)
  | ["mx"; sc] -> KMax (n sc)
  | ["am"; sc] -> KArgmax (n sc)
  | ["pv"; m; x; meth] -> KPvalue (n m, pv x, opt_pv meth)
  | ["sv"; m; x; meth] -> KScore (n m, pv x, opt_pv meth)
  | ["ms"; m] -> KMaxScore (n m)
  | ["rc"; d; m] -> KRevcomp (n d, n m)
  | ["sn"; d; m; q; t; b] | ["sc"; d; m; q; t; b] -> KScan (n d, pv m, pv q, opt_pv t, opt_pv b)
  | ["nx"; sc; k] -> KNext (n sc, (if k = "*" then None else Some (n k)))
  | ["cr"; d; seqs; p; nm] -> KCreate (n d, pv seqs, opt_pv p, opt_pv nm)
  | ["gm"; d; m; w] -> KGetMotif (n d, n m, which_of w)
  | ["ld"; d; mode; data; f; p] | ["lc"; d; mode; data; f; p] -> KLoad (n d, file_of_mode mode data, opt_pv f, opt_pv p)
  | ["gl"; d; l; i; w] -> KGetLoaded (n d, n l, n i, which_of w)
  | ["dl"; x] -> KDelete (n x)
  | ["es"; d; q; p] -> KEncode (n d, pv q, opt_pv p)
  | ["et"; d; e] -> KEncStripe (n d, n e)
  | ["cp"; d; x; _] -> KCopy (n d, n x)
  | ["eq"; x; y] -> KEq (n x, pv y)
  | ["sr"; x] -> KStr (n x)
  | ["sd"; d; m] -> KDist (n d, n m)
  | ["fo"; d; _] -> KFileNew (n d)
  | ["ll"; d; fl; f; p] -> KLoaderNew (n d, n fl, opt_pv f, opt_pv p)
  | ["ln"; l; k] -> KLoaderNext (n l, n k)
  | _ -> failwith ("bad op " ^ s)

(* R<k>. = the float returned by op k (as observed); None when op k returned no float *)
let resolve_refs (op : string) (outs : (string, string) Hashtbl.t) : string option =
  let re = Str.regexp "R\\([0-9]+\\)\\." in
  let ok = ref true in
  let res = Str.global_substitute re (fun s ->
      let k = Str.matched_group 1 s in
      match Hashtbl.find_opt outs k with
      | Some o when String.length o > 4 && String.sub o 0 4 = "V:d:" -> "f" ^ String.sub o 4 (String.length o - 4) ^ "."
      | _ -> ok := false; "N") op in
  if !ok then Some res else None

let sort_hits (h : string) = String.concat "/" (List.sort compare (split '/' h))

let short s = if String.length s <= 90 then s else String.sub s 0 90 ^ "..."

type obs = OV of string | OE of string | OP | OU

let parse_obs (s : string) : obs =
  if s = "P" then OP else if s = "U" then OU
  else if String.length s >= 2 && String.sub s 0 2 = "V:" then OV (String.sub s 2 (String.length s - 2))
  else if String.length s >= 2 && String.sub s 0 2 = "E:" then OE (String.sub s 2 (String.length s - 2))
  else OE ("?" ^ s)

let raw_exc_name : string ref = ref ""
let obs_outcome = function
  | OV v -> Value v
  | OE n -> (match exc_of_name n with Some e -> PyExc e | None -> raw_exc_name := n; PyExc NameError)
  | OP -> Panic
  | OU -> PyExc NameError

let show_outcome = function
  | Value v -> "V:" ^ short v
  | PyExc NameError when !raw_exc_name <> "" -> "E:" ^ !raw_exc_name
  | PyExc e -> "E:" ^ exc_name e
  | Panic -> "P"

(* a continued iteration as the worker drives it: at most 3 more items after the first one that is not a value *)
let cut_items (l : 'a outcome list) : 'a outcome list =
  let rec cut seen k = function
    | [] -> []
    | x :: r ->
        let bad = (match x with Value _ -> false | _ -> true) in
        if seen then (if k >= 3 then [] else x :: cut true (k + 1) r)
        else x :: cut bad 0 r in
  cut false 0 l

let kind_of want got =
  match want, got with
  | Panic, Panic -> "panic core-also-panics core-call=" ^ !last_panic
  | _, Panic -> "panic"
  | Value _, Value _ -> "value-mismatch"
  | Value _, PyExc _ -> "exception-for-value"
  | PyExc _, Value _ -> "value-for-exception"
  | _, _ -> "mismatch"

let () =
  let dna = String.concat "" (List.map (fun c -> String.make 1 (Char.chr (int_of_z c))) (symbols Dna)) in
  let prot = String.concat "" (List.map (fun c -> String.make 1 (Char.chr (int_of_z c))) (symbols Protein)) in
  try
    while true do
      let line = input_line stdin in
      if String.length line > 0 && line.[0] <> '#' then begin
        let (inp, obs) =
          match Str.bounded_split_delim (Str.regexp_string " => ") line 2 with
          | [a; b] -> (a, b) | [a] -> (a, "") | _ -> (line, "") in
        let id = match String.index_opt inp ' ' with Some i -> String.sub inp 0 i | None -> inp in
        let verdict = ref None in
        (* first failure of the most serious kind: PROPFAIL > PROPFAIL where the core panics as
           well (the known finding F25) > DIFF *)
        let contains s sub = try ignore (Str.search_forward (Str.regexp_string sub) s 0); true with Not_found -> false in
        let rank v d = if v = "DIFF" then 1 else if contains d "core-also-panics" then 2 else 3 in
        let set v d = match !verdict with
          | None -> verdict := Some (v, d)
          | Some (v0, d0) when rank v d > rank v0 d0 -> verdict := Some (v, d)
          | _ -> () in
        (try
           let hist =
             match List.find_opt (fun t -> String.length t > 2 && String.sub t 0 2 = "h=") (String.split_on_char ' ' inp) with
             | Some t -> String.sub t 2 (String.length t - 2) | None -> "" in
           let ops = split ';' hist in
           let toks = String.split_on_char ' ' obs in
           let tbl = Hashtbl.create 64 in
           let outs = Hashtbl.create 16 in
           let abc = ref "" in
           List.iter (fun t ->
               let n = String.length t in
               if n > 3 && String.sub t 0 3 = "or=" then begin
                 match String.index_opt t '|' with
                 | Some i -> Hashtbl.replace tbl (String.sub t 3 (i - 3)) (String.sub t (i + 1) (n - i - 1))
                 | None -> ()
               end else if n > 4 && String.sub t 0 4 = "abc=" then abc := String.sub t 4 (n - 4)
               else if n > 6 && String.sub t 0 6 = "abort=" then
                 set "PROPFAIL" ("abort:" ^ String.sub t 6 (n - 6) ^ " interpreter died or hung during the history")
               else if n > 14 && String.sub t 0 14 = "harness-error=" then set "DIFF" (short t)
               else if n > 1 && t.[0] = 'o' then
                 match String.index_opt t '=' with
                 | Some i -> Hashtbl.replace outs (String.sub t 1 (i - 1)) (String.sub t (i + 1) (n - i - 1))
                 | None -> ())
             toks;
           if !verdict = None then begin
             if !abc <> dna ^ "/" ^ prot then set "DIFF" ("alphabet tables differ: " ^ !abc);
             let core = make_core tbl in
             let st = ref [] in
             (* the scanners of the lazy reading (run_call_lazy): they follow the live sequence objects *)
             let ls = ref [] in
             (* per scanner slot: hits handed out so far by the model / by Python *)
             let acc : (string, string list * string list) Hashtbl.t = Hashtbl.create 4 in
             List.iteri (fun i op ->
                 let opname = String.sub op 0 2 in
                 let where = Printf.sprintf "op%d:%s" i opname in
                 let o = match Hashtbl.find_opt outs (string_of_int i) with Some s -> Some (parse_obs s) | None -> None in
                 (try
                    match resolve_refs op outs with
                    | None -> if o <> Some OU then set "DIFF" (where ^ " refers to a result that does not exist")
                    | Some op when opname = "mt" ->
                        (* threads: not part of the sequential model; the observation itself says whether every
                           thread obtained what the same calls give sequentially *)
                        let slot = nat_of_int (int_of_string (List.nth (String.split_on_char ':' op) 1)) in
                        (match lookup !st slot, o with
                         | Some (OScoring _), Some (OV "mt:ok") -> ()
                         | Some (OScoring _), Some OP -> set "PROPFAIL" (where ^ " panic PanicException in a thread sharing the matrix")
                         | Some (OScoring _), Some (OV v) -> set "PROPFAIL" (where ^ " value-mismatch concurrent and sequential results differ: " ^ short v)
                         | Some (OScoring _), _ -> set "DIFF" (where ^ " unexpected observation")
                         | _, Some OU -> ()
                         | _, _ -> set "DIFF" (where ^ " model: slot unbound, implementation called"))
                    | Some op ->
                    let c = parse_op op in
                    (* history-free specification of calculate / scan: the untouched sequence *)
                    (match c with
                     | KCalculate (_, self, PRef nq) ->
                         (match lookup !st self, lookup !st nq with
                          | Some (OScoring (a, s)), Some (OSeq (aq, q)) ->
                              (try
                                 (match core.c_stripe aq (zl (List.map Char.code (List.of_seq (String.to_seq (text_of_sq q))))) with
                                  | COk fresh ->
                                      let (o1, _) = glue_calculate core a s aq fresh in
                                      let (o2, _) = glue_calculate core a s aq q in
                                      let r x = match x with Value v -> "V:" ^ render_obj v | PyExc e -> "E:" ^ exc_name e | Panic -> "P" in
                                      if r o1 <> r o2 then set "DIFF" (where ^ " core result depends on the history of the sequence object")
                                  | _ -> ())
                               with Miss _ -> ())
                          | _ -> ())
                     | KScan (_, PRef np, PRef nq, thr, bs) ->
                         (match lookup !st np, lookup !st nq, glue_scan_args thr bs with
                          | Some (OScoring (a, s)), Some (OSeq (aq, q)), Value (t, b) ->
                              (try
                                 (match core.c_stripe aq (zl (List.map Char.code (List.of_seq (String.to_seq (text_of_sq q))))) with
                                  | COk fresh ->
                                      let (o1, _) = glue_scan core a s aq fresh t b in
                                      let (o2, _) = glue_scan core a s aq q t b in
                                      let r x = match x with
                                        | Value (OScanner h) -> "V:" ^ String.concat "/" (List.map (fun (p, x) -> string_of_z p ^ "," ^ string_of_z x) h)
                                        | Value _ -> "V" | PyExc e -> "E:" ^ exc_name e | Panic -> "P" in
                                      if r o1 <> r o2 then set "DIFF" (where ^ " core hits depend on the history of the sequence object")
                                  | _ -> ())
                               with Miss _ -> ())
                          | _ -> ())
                     | _ -> ());
                    last_panic := "";
                    let (step0, st0) = run_call core !st c in
                    (* a continued load: only the items the worker asked for exist afterwards *)
                    let (step, st') = match step0, c with
                      | Done (Value (RLoadSeq items)), KLoad (dst, _, _, _) ->
                          let items' = cut_items items in
                          (Done (Value (RLoadSeq items')),
                           bind_slot (unbind st0 dst) dst
                             (OLoaded (List.concat_map (function Value m -> [m] | _ -> []) items')))
                      | _ -> (step0, st0) in
                    (* the same call in the lazy reading of the scanners: a scan over the sequence object as it is
                       now, minus the hits handed out, must give what was fixed when the scanner was made *)
                    (match (try Some (run_call_lazy core !st !ls c) with Miss key -> set "DIFF" (where ^ " live-scanner oracle-miss " ^ short key); None) with
                     | Some ((lstep, _), ls') ->
                         ls := ls';
                         if lstep <> step0 then
                           set "DIFF" (where ^ " live scanner: a scan of the sequence object as it is now does not continue the hits fixed when the scanner was made")
                     | None -> ());
                    st := st';
                    (match step, o with
                     | _, None -> set "DIFF" (where ^ " no observation")
                     | Unbound, Some OU -> ()
                     | Unbound, Some _ -> set "DIFF" (where ^ " model: slot unbound, implementation called")
                     | Done _, Some OU -> set "DIFF" (where ^ " implementation: slot unbound, model called")
                     | Done (Value (RHits (wh, wend))), Some (OV g) when opname = "nx" ->
                         (* hits: the *set* handed out over the life of the scanner is the property (C02);
                            the order / chunk contents only the model = implementation tie *)
                         let slot = List.nth (String.split_on_char ':' op) 1 in
                         let (want_s, _) = render_result (RHits (wh, wend)) in
                         let (gh, gend) = match String.split_on_char ':' g with
                           | ["h"; h; e] -> ((if h = "-" then [] else split '/' h), e = "1")
                           | _ -> ([], false) in
                         let whs = List.map (fun (p, x) -> string_of_z p ^ "," ^ string_of_z x) wh in
                         let (wa, ga) = match Hashtbl.find_opt acc slot with Some x -> x | None -> ([], []) in
                         let wa = wa @ whs and ga = ga @ gh in
                         Hashtbl.replace acc slot (wa, ga);
                         (* decided by the extracted check_hits (C17.check_hits_sound / _complete: true exactly when the
                            two lists are permutations of each other); a hit of Python that is not "pos,bits" counts
                            as a mismatch *)
                         let hit_of_string h = match String.split_on_char ',' h with
                           | [p; x] -> (try Some (z_of_string p, z_of_string x) with _ -> None)
                           | _ -> None in
                         let same_hits a b =
                           let a' = List.map hit_of_string a and b' = List.map hit_of_string b in
                           if List.mem None a' || List.mem None b' then false
                           else check_hits (List.filter_map (fun x -> x) a') (List.filter_map (fun x -> x) b') in
                         if (wend || gend) && not (same_hits wa ga) then
                           set "PROPFAIL" (Printf.sprintf "%s hit-set-mismatch core=%s python=%s" where
                                             (short (String.concat "/" (List.sort compare wa))) (short (String.concat "/" (List.sort compare ga))))
                         else if "V:" ^ want_s <> "V:" ^ g then
                           set "DIFF" (Printf.sprintf "%s model=%s python=%s" where (short want_s) (short g))
                     | Done (Value (RLoadSeq items)), Some (OV g) ->
                         (* iteration over a misbehaving file object, item by item *)
                         let got_items = match String.split_on_char '&' g with "ld" :: r -> r | r -> r in
                         let canon x =
                           if x = "P" then Panic
                           else if String.length x >= 2 && String.sub x 0 2 = "E:" then
                             (match exc_of_name (String.sub x 2 (String.length x - 2)) with
                              | Some e -> PyExc e | None -> PyExc NameError)
                           else Value x in
                         let want_items = List.map (function
                             | Value m -> Value (render_motif m) | PyExc e -> PyExc e | Panic -> Panic) items in
                         (* the worker asks for at most 3 more items after the first exception it sees; the core
                            reader was driven 3 items beyond the first *reader* error, which may come later (a record
                            that only the conversion refuses, e.g. TRANSFAC without counts, is no reader error) *)
                         let want_items = cut_items want_items in
                         let gi = List.map canon got_items in
                         (* decided by the extracted check_items (C17.check_items_sound); the branches below only
                            word the detail *)
                         if not (check_items String.equal want_items gi) && List.length gi <> List.length want_items then
                           set "PROPFAIL" (Printf.sprintf "%s load-items-mismatch core=%d items python=%d items: %s" where
                                             (List.length want_items) (List.length gi) (short g))
                         else if List.length gi <> List.length want_items then
                           set "DIFF" (where ^ " check_items accepted lists of different lengths (driver bug)")
                         else
                           List.iteri (fun k (w, o) ->
                               if not (check_C17 String.equal w o) then
                                 set "PROPFAIL" (Printf.sprintf "%s item%d %s core=%s python=%s" where k (kind_of w o) (show_outcome w) (show_outcome o))
                               else if not (same_outcome String.equal w o) then
                                 set "DIFF" (Printf.sprintf "%s item%d model=%s python=%s" where k (show_outcome w) (show_outcome o)))
                             (List.combine want_items gi)
                     | Done want, Some ob ->
                         let got = obs_outcome ob in
                         let (want_s, want_tail) =
                           match want with
                           | Value r -> let (s, t) = render_result r in (Value s, t)
                           | PyExc e -> (PyExc e, None)
                           | Panic -> (Panic, None) in
                         (* loads: motifs compared as text, the end of the iteration as an outcome *)
                         let (got_s, got_tail) =
                           match got, want_tail with
                           | Value v, Some _ ->
                               let items = String.split_on_char '&' v in
                               let rec cut acc = function
                                 | [] -> (List.rev acc, Value ())
                                 | [x] when x = "P" -> (List.rev acc, Panic)
                                 | [x] when String.length x >= 2 && String.sub x 0 2 = "E:" ->
                                     (List.rev acc,
                                      (match exc_of_name (String.sub x 2 (String.length x - 2)) with
                                       | Some e -> PyExc e | None -> PyExc NameError))
                                 | x :: r -> cut (x :: acc) r in
                               let (ms, t) = cut [] items in
                               (Value (String.concat "&" ms), Some t)
                           | g, _ -> (g, None) in
                         let bad1 = not (check_C17 String.equal want_s got_s) in
                         let bad2 = match want_tail, got_tail with
                           | Some wt, Some gt -> not (check_C17 (fun () () -> true) wt gt)
                           | _ -> false in
                         if bad1 || bad2 then begin
                           let k = if bad1 then kind_of want_s got_s else
                               (match got_tail with Some Panic -> "panic" | _ -> "load-end-mismatch") in
                           set "PROPFAIL" (Printf.sprintf "%s %s core=%s python=%s" where k (show_outcome want_s) (show_outcome got_s))
                         end else begin
                           let d1 = not (same_outcome String.equal want_s got_s) in
                           let d2 = match want_tail, got_tail with
                             | Some wt, Some gt -> not (same_outcome (fun () () -> true) wt gt)
                             | _ -> false in
                           if d1 || d2 then
                             set "DIFF" (Printf.sprintf "%s model=%s python=%s" where (show_outcome want_s) (show_outcome got_s))
                         end)
                  with
                  | Miss key -> set "DIFF" (where ^ " oracle-miss " ^ short key)
                  | Failure m -> set "DIFF" (where ^ " driver: " ^ short m)
                  | Not_found -> set "DIFF" (where ^ " driver: not found")
                  | Invalid_argument m -> set "DIFF" (where ^ " driver: " ^ short m)))
               ops
           end
         with
         | Failure m -> set "DIFF" ("driver: " ^ short m)
         | Not_found -> set "DIFF" "driver: not found"
         | Invalid_argument m -> set "DIFF" ("driver: " ^ short m));
        (match !verdict with
         | None -> Printf.printf "%s OK\n" id
         | Some (v, d) -> Printf.printf "%s %s %s\n" id v d)
      end
    done
  with End_of_file -> ()
