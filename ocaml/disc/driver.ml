(* Driver for the extracted discretisation / u8 kernel model (property C08).
   Reads observation lines produced by `disc run` on stdin:
     <id> kind=.. mat=.. seq=.. thr=.. bytes=.. sub=lo:hi => <key=value ...>
   and prints one verdict line per case:
     <id> OK | <id> PROPFAIL <why> | <id> DIFF <why>

   PROPFAIL (decided on the implementation's own numbers with the extracted checker
   [first_bad], i.e. the property itself):
     "under-estimate ..."                 a byte score is below scale(real score) although the matrix
                                          satisfies the conditioning predicate [well_conditioned]
     "ill-conditioned under-estimate ..." the same on a matrix that fails the predicate
                                          (the known IEEE-level gap, see DiscIEEE.v)
     "[ill-conditioned ]under-estimate ... impl-scale(real)=.."  the same with the implementation's OWN
                                          dm.scale(real score) instead of the model's scale
     "[negative-zero-factor ]threshold-transfer-lost ..."   a position whose real score meets a threshold t (IEEE <= on the
                                          observed bit patterns) has a byte score below the implementation's
                                          own dm.scale(t)   (checker first_bad_impl, DiscImplCheck.v)
     "backend-mismatch ..."               two arms / entry points disagree on a byte score
   DIFF: the implementation differs from the bit-exact binary32 / u8 model. *)
open Disc_model

let rec nat_of_int n = if n <= 0 then O else S (nat_of_int (n - 1))
let int_of_nat n = let rec go acc = function O -> acc | S m -> go (acc + 1) m in go 0 n

let rec pos_of_int n =
  if n = 1 then XH else if n land 1 = 0 then XO (pos_of_int (n lsr 1)) else XI (pos_of_int (n lsr 1))
let z_of_int n = if n = 0 then Z0 else if n > 0 then Zpos (pos_of_int n) else Zneg (pos_of_int (-n))
let rec int_of_pos = function XH -> 1 | XO p -> 2 * int_of_pos p | XI p -> 2 * int_of_pos p + 1
let int_of_z = function Z0 -> 0 | Zpos p -> int_of_pos p | Zneg p -> - (int_of_pos p)

let split c s = if s = "" || s = "-" then [] else String.split_on_char c s

let kv tok = match String.index_opt tok '=' with
  | Some i -> (String.sub tok 0 i, String.sub tok (i + 1) (String.length tok - i - 1))
  | None -> (tok, "")

let fbits s = f_of_bits (z_of_int (int_of_string s))
let bits_of f = int_of_z (f_to_bits f)

let sym_of = function 'A' -> 0 | 'C' -> 1 | 'T' -> 2 | 'G' -> 3 | _ -> 4
(* Protein: AminoAcid discriminants (abc.rs), X = 20 is the wildcard / default symbol *)
let psyms = "ACDEFGHIKLMNPQRSTVWYX"
let psym_of c = match String.index_opt psyms c with Some i -> i | None -> 20

(* junk in the alignment padding of the discrete matrix rows (27 bytes per row) *)
let pads i = List.init 27 (fun k -> z_of_int ((200 + 7 * int_of_nat i + k) land 255))

let show_scores (r : z sscores res) : string =
  match r with
  | Ok sc ->
      let rows = z_sc_rows sc in
      let cells = List.concat_map (fun r -> List.map (fun x -> string_of_int (int_of_z x)) r) rows in
      Printf.sprintf "%d:%d:%s" (List.length rows) (int_of_nat (z_sc_max sc))
        (if cells = [] then "-" else String.concat "," cells)
  | _ -> "P"

(* byte score of position i in an observed `rows:max:cells` string *)
let parse_scores s : (int * int * int array) option =
  match String.split_on_char ':' s with
  | [r; mx; cells] ->
      Some (int_of_string r, int_of_string mx, Array.of_list (List.map int_of_string (split ',' cells)))
  | _ -> None

let () =
  try
    while true do
      let line = input_line stdin in
      if String.length line > 0 && line.[0] <> '#' then begin
        let (inp, obs) =
          match Str.bounded_split (Str.regexp_string " => ") line 2 with
          | [a; b] -> (a, b) | [a] -> (a, "") | _ -> failwith "bad line" in
        let toks = String.split_on_char ' ' inp in
        let id = List.hd toks in
        let fields = List.map kv (List.tl toks) in
        let get k = List.assoc k fields in
        let ofields = List.map kv (String.split_on_char ' ' obs) in
        let oget k = try List.assoc k ofields with Not_found -> "?" in
        let propfail = ref None and diff = ref None in
        (* comparisons / property checks that could not be made on this case although nothing disagrees: never
           silent, they are printed behind the OK verdict (`OK skipped=a,b`) and counted by the input histogram
           of props/c08.py where they follow from the input (matrix outside the theorem, empty motif) *)
        let skips = ref [] in
        let skip w = if not (List.mem w !skips) then skips := w :: !skips in
        let set_pf v = if !propfail = None then propfail := Some v in
        let set_df v = if !diff = None then diff := Some v in
        (try
          let mat = List.map (fun r -> List.map fbits (split ',' r)) (split '/' (get "mat")) in
          let m = List.length mat in
          let protein = (try get "alpha" = "P" with Not_found -> false) in
          let kk = if protein then 21 else 5 in
          let seq = if get "seq" = "-" then [] else
              List.init (String.length (get "seq")) (fun i -> (if protein then psym_of else sym_of) (get "seq").[i]) in
          let l = List.length seq in
          let k5 = nat_of_int kk in
          let in_theorem = List.for_all (fun r -> List.for_all f_is_finite (List.filteri (fun j _ -> j < kk - 1) r)) mat in
          (match f_to_discrete k5 mat, oget "disc" with
           | Panic _, "P" -> skip "everything:to_discrete-panics(NaN-among-the-non-wildcard-cells,as-modelled)"
           | Panic _, _ -> set_df "model-panics-implementation-does-not"
           | Ok _, "P" -> set_df "to_discrete-panicked"
           | Ok d, _ ->
               let cmp key model = if oget key <> model then set_df (Printf.sprintf "%s impl=%s model=%s" key (oget key) model) in
               let blist l = if l = [] then "-" else String.concat "," (List.map (fun x -> string_of_int (bits_of x)) l) in
               cmp "f" (string_of_int (bits_of (f_d_factor d)));
               cmp "o" (string_of_int (bits_of (f_d_offset d)));
               cmp "os" (blist (f_d_offsets d));
               cmp "mn" (match f_min_score k5 mat with Ok x -> string_of_int (bits_of x) | _ -> "P");
               cmp "mx" (match f_max_score k5 mat with Ok x -> string_of_int (bits_of x) | _ -> "P");
               let dd = f_d_data d in
               cmp "d" (if dd = [] then "-" else
                          String.concat "/" (List.map (fun r -> String.concat "," (List.map (fun x -> string_of_int (int_of_z x)) r)) dd));
               (* the implementation's own factor / offset drive scale, unscale and the property check *)
               let ifac = (try fbits (oget "f") with _ -> f_d_factor d) in
               let ioff = (try fbits (oget "o") with _ -> f_d_offset d) in
               let thr = List.map fbits (split ',' (get "thr")) in
               cmp "sc" (String.concat "," (List.map (fun t -> string_of_int (int_of_z (f_scale_with ifac ioff t))) thr));
               let bytes = List.map int_of_string (split ',' (get "bytes")) in
               cmp "un" (String.concat "," (List.map (fun b -> string_of_int (bits_of (f_unscale_with ifac ioff (z_of_int b)))) bytes));
               (* sequence, striped in closed form and configured for the motif *)
               let ss = striped k5 (nat_of_int 32) (configure_wrap_of (nat_of_int m)) (List.map nat_of_int seq) in
               let npos = if l >= m then l - m + 1 else 0 in
               let positions = List.init npos (fun i -> i) in
               let reals = List.map (fun i -> f_real_score mat ss (nat_of_int i)) positions in
               let jn l = if l = [] then "-" else String.concat "," l in
               cmp "rs" (jn (List.map (function Ok x -> string_of_int (bits_of x) | _ -> "P") reals));
               let ireals = (try List.map fbits (split ',' (oget "rs")) with _ -> []) in
               cmp "ss" (jn (List.map (fun x -> string_of_int (int_of_z (f_scale_with ifac ioff x))) ireals));
               let idd = (try List.map (fun r -> List.map (fun x -> z_of_int (int_of_string x)) (split ',' r)) (split '/' (oget "d")) with _ -> dd) in
               cmp "ds" (jn (List.map (fun i -> match sk_disc_score idd ss (nat_of_int i) with Ok b -> string_of_int (int_of_z b) | _ -> "P") positions));
               (* u8 kernels, on the implementation's discrete cells: the kernels, wrappers and tables GENERATED
                  from the source (GenDiscU8.v) -- Score<u8> of the static pipelines (gen_pipeline_u8) and the
                  arms of the dispatcher as compiled on x86 hosts (gen_dispatch_u8_x86) *)
               let c32 = nat_of_int 32 and c16 = nat_of_int 16 in
               let ss16 = striped k5 c16 (configure_wrap_of (nat_of_int m)) (List.map nat_of_int seq) in
               let nrows sx = nat_of_int (List.length sx.ss_rows - int_of_nat sx.ss_wrap) in
               (* every (kernel, columns, row range) is evaluated once.  The generic kernel model indexes lists
                  (quadratic in the motif width): for DNA motifs wider than 64 rows on a configured sequence its
                  result is computed with the lane kernel that is PROVED equal to it for every row range
                  (C08_generic_eq_avx2 / C08_avx2_source_is_model at 32 columns, C08_neon_eq_generic at 16). *)
               let memo = Hashtbl.create 8 in
               let run_s id c sx lo hi =
                 let fast = (not protein) && m > 64 && id = UKGeneric in
                 let id' = if fast then (if int_of_nat c = 32 then UKAvx2Shuffle else UKNeon) else id in
                 let key = (id', int_of_nat c, int_of_nat lo, int_of_nat hi) in
                 match Hashtbl.find_opt memo key with
                 | Some v -> v
                 | None ->
                     let v = show_scores (run_u8_kernel gen_avx2_u8 gen_neon_u8 id' c idd pads sx lo hi) in
                     Hashtbl.add memo key v; v in
               let full id c sx = run_s id c sx O (nrows sx) in
               let sub = List.map int_of_string (split ':' (get "sub")) in
               let part a = run_s (gen_dispatch_u8_x86 a) c32 ss (nat_of_int (List.nth sub 0)) (nat_of_int (List.nth sub 1)) in
               let cmpk key model = if oget key <> "U" then cmp key model in
               let model_gen = full (gen_pipeline_u8 D4Generic) c32 ss in
               cmpk "gen" model_gen;
               cmpk "sse" (full (gen_pipeline_u8 D4Sse2) c32 ss);
               cmpk "g16" (full (gen_pipeline_u8 D4Generic) c16 ss16);
               cmpk "s16" (full (gen_pipeline_u8 D4Sse2) c16 ss16);
               if not protein then begin
                 cmpk "avx" (full (gen_pipeline_u8 D4Avx2) c32 ss);
                 cmpk "dG" (full (gen_dispatch_u8_x86 D4Generic) c32 ss);
                 cmpk "dS" (full (gen_dispatch_u8_x86 D4Sse2) c32 ss);
                 cmpk "dA" (full (gen_dispatch_u8_x86 D4Avx2) c32 ss);
                 cmpk "sG" (part D4Generic);
                 cmpk "sA" (part D4Avx2);
                 (* the NEON kernel as translated from neon.rs (never compiled on this host) against the generic
                    model, on a sequence configured for the motif: 32 and 16 columns *)
                 if m > 0 then begin
                   let neon c sx = full (gen_pipeline_u8 D4Neon) c sx in
                   if neon c32 ss <> model_gen then
                     set_pf "backend-mismatch neon-model (kernel translated from neon.rs) differs from generic, 32 columns";
                   if neon c16 ss16 <> full (gen_pipeline_u8 D4Generic) c16 ss16 then
                     set_pf "backend-mismatch neon-model (kernel translated from neon.rs) differs from generic, 16 columns"
                 end
               end;
               (* all arms agree (an arm may panic only where the model says so: empty motif on AVX2).  Without a
                  reference from the generic pipeline there is nothing to compare with: that is a DIFF, not a silent OK *)
               let ref_full = oget "gen" and ref_part = oget "sG" in
               let is_matrix v = (match parse_scores v with Some _ -> true | None -> false) in
               if not (is_matrix ref_full) then
                 set_df (Printf.sprintf "property-not-checked:no-generic-reference gen=%s" (String.sub ref_full 0 (min 12 (String.length ref_full))));
               List.iter (fun key ->
                   let v = oget key in
                   if v = "U" then skip (key ^ ":pipeline-unavailable-on-this-host")
                   else if v = "?" then (if not protein then set_df (Printf.sprintf "property-not-checked:%s-not-observed" key))
                   else if is_matrix v && is_matrix ref_full && v <> ref_full then
                     set_pf (Printf.sprintf "backend-mismatch %s differs from generic" key)
                   else if v = "P" && is_matrix ref_full && m > 0 then
                     set_pf (Printf.sprintf "backend-mismatch %s panicked, generic did not" key)
                   else if v = "P" && m = 0 then skip (key ^ ":panics-on-the-empty-motif(as-modelled)")
                   else if not (is_matrix v) then set_df (Printf.sprintf "property-not-checked:%s=%s" key (String.sub v 0 (min 12 (String.length v)))))
                 (if protein then ["sse"] else ["avx"; "dG"; "dS"; "dA"; "sse"]);
               (let v = oget "s16" and r = oget "g16" in
                if v = "U" then skip "s16:pipeline-unavailable-on-this-host"
                else if is_matrix v && is_matrix r then (if v <> r then set_pf "backend-mismatch s16 differs from generic (16 columns)")
                else set_df (Printf.sprintf "property-not-checked:16-column-layout g16=%s s16=%s"
                               (String.sub r 0 (min 8 (String.length r))) (String.sub v 0 (min 8 (String.length v)))));
               if not protein then
                 (let v = oget "sA" in
                  if v = "U" then skip "sA:pipeline-unavailable-on-this-host"
                  else if is_matrix v && is_matrix ref_part then (if v <> ref_part then set_pf "backend-mismatch sA differs from generic")
                  else if v = "P" && ref_part = "P" then skip "sub-range:both-arms-panic(as-modelled)"
                  else if v = "P" && m = 0 then skip "sA:panics-on-the-empty-motif(as-modelled)"
                  else if v = "P" || ref_part = "P" then ()   (* one arm panics: compared with the model above (cmpk sG / sA) *)
                  else set_df "property-not-checked:sub-range-not-observed");
               (* histories on ONE reused StripedScores<u8, U32> buffer: every step through the extracted history
                  model (DiscHistory.hstep: resize of the caller's buffer + the kernel's writes into it), compared
                  step by step (rows, max_index, checksum) and in full at the end *)
               let hist_keys = ref [] in
               (* [field]: the input field with the histories; observation keys <kp><k> / <fp><k>; [cols] columns.
                  Protein cases and the 16-column layout only have the generic and SSE2 pipelines (kernel id by
                  gen_pipeline_u8), DNA at 32 columns also AVX2 and the forced arms of the dispatcher *)
               let run_hists field kp fp colsn =
               (let cN = nat_of_int colsn in
                match (try Some (get field) with Not_found -> None) with
                | None -> ()
                | Some hs ->
                    let sub_list l a b = List.filteri (fun i _ -> i >= a && i < b) l in
                    let motif_variant v = match v with
                      | 1 -> sub_list mat 0 ((m + 1) / 2)
                      | 2 -> sub_list mat 1 m
                      | 3 -> if m <= 12 then mat @ mat else mat
                      | _ -> mat in
                    let seq_variant v = match v with
                      | 1 -> sub_list seq 0 (l / 3)
                      | 2 -> sub_list (seq @ seq) 0 (min (2 * l) (l + 40))
                      | 3 -> sub_list seq 0 (min l ((max m 1) - 1))
                      | 4 -> sub_list seq 0 (max (l - 1) 0)
                      | _ -> seq in
                    let digest sc =
                      let rows = z_sc_rows sc in
                      let d = ref 0 and idx = ref 0 in
                      List.iter (fun r -> List.iter (fun x ->
                          d := (!d + int_of_z x * ((!idx mod 251) + 1)) mod 1000003; incr idx) r) rows;
                      Printf.sprintf "%d:%d:%d" (List.length rows) (int_of_nat (z_sc_max sc)) !d in
                    let dcache = Hashtbl.create 4 in
                    let disc_of v =
                      match Hashtbl.find_opt dcache v with
                      | Some r -> r
                      | None ->
                          let r = if v = 0 then Some idd else
                              (match f_to_discrete k5 (motif_variant v) with Ok dv -> Some (f_d_data dv) | _ -> None) in
                          Hashtbl.add dcache v r; r in
                    List.iteri (fun k hist ->
                        let buf = ref (Some buf_empty) and obs = ref [] and cut = ref false in
                        List.iter (fun stp ->
                            if not !cut then begin
                              let t = String.split_on_char '.' stp in
                              let op = match t with
                                | ["R"; r; mx] -> `Op (HResize (nat_of_int (int_of_string r), nat_of_int (int_of_string mx)))
                                | ["Z"; v] -> `Op (HFill (z_of_int (int_of_string v)))
                                | [be; mv; sv; rg] ->
                                    let mv = int_of_string mv and sv = int_of_string sv in
                                    (match disc_of mv with
                                     | None -> `Stop "VP"
                                     | Some dv ->
                                         let simd_ok = (not protein) && colsn = 32 in
                                         let id = match be with
                                           | "G" -> Some (gen_pipeline_u8 D4Generic) | "S" -> Some (gen_pipeline_u8 D4Sse2)
                                           | "A" when simd_ok -> Some (gen_pipeline_u8 D4Avx2)
                                           | "g" when simd_ok -> Some (gen_dispatch_u8_x86 D4Generic)
                                           | "s" when simd_ok -> Some (gen_dispatch_u8_x86 D4Sse2)
                                           | "a" when simd_ok -> Some (gen_dispatch_u8_x86 D4Avx2)
                                           | _ -> None in
                                         match id with None -> `Stop "BAD" | Some id ->
                                         let mvl = List.length (motif_variant mv) in
                                         let sx = striped k5 cN (configure_wrap_of (nat_of_int mvl)) (List.map nat_of_int (seq_variant sv)) in
                                         let c = { hc_id = id; hc_dm = dv; hc_pads = pads; hc_seq = sx } in
                                         if rg = "F" then `Op (HScoreInto c)
                                         else (match List.map int_of_string (split ':' rg) with
                                             | [a; b] -> `Op (HRowsInto (c, nat_of_int a, nat_of_int b))
                                             | _ -> `Stop "BAD"))
                                | _ -> `Stop "BAD" in
                              match op, !buf with
                              | `Stop w, _ -> obs := w :: !obs; cut := true
                              | `Op o, Some b ->
                                  (match hstep gen_avx2_u8 gen_neon_u8 cN o b with
                                   | Ok b' -> buf := Some b'; obs := digest b' :: !obs
                                   | _ -> obs := "P" :: !obs; cut := true)
                              | _, None -> cut := true
                            end) (String.split_on_char ';' hist);
                        let hk = Printf.sprintf "%s%d" kp k and hfk = Printf.sprintf "%s%d" fp k in
                        let impl = oget hk in
                        (* a pipeline that does not exist on this host ends the observed history with `U` *)
                        let unavailable = String.length impl > 0 && impl.[String.length impl - 1] = 'U' in
                        if unavailable then skip (hk ^ ":pipeline-unavailable-on-this-host");
                        if not unavailable then begin
                          cmp hk (String.concat ";" (List.rev !obs));
                          cmp hfk (if !cut then "P" else match !buf with Some b -> show_scores (Ok b) | None -> "P");
                          if oget hk = "?" then set_df (Printf.sprintf "property-not-checked:%s-not-observed" hk);
                          (* the final buffer of a complete history is the score of the main motif on the main
                             sequence: one more source of byte scores for the property check below *)
                          if not !cut then hist_keys := hfk :: !hist_keys
                          else skip (hk ^ ":history-ends-with-a-panic(as-modelled)")
                        end) (String.split_on_char '|' hs)
               ) in
               run_hists "hist" "h" "hf" 32;
               run_hists "hist16" "h16_" "hf16_" 16;
               (* the property on the implementation's numbers *)
               (* byte score of position i in an observed score matrix: the extracted StripedScores Index<usize>
                  (DiscModel.sc_index) on the observed cells *)
               let u8s_memo = Hashtbl.create 16 in
               let rec u8s_of key =
                 match Hashtbl.find_opt u8s_memo key with
                 | Some r -> r
                 | None -> let r = u8s_of_raw key in Hashtbl.add u8s_memo key r; r
               and u8s_of_raw key =
                 if key = "ds" then (try Some (List.map int_of_string (split ',' (oget "ds"))) with _ -> None)
                 else
                   let cols = if key = "g16" || key = "s16" || (String.length key > 5 && String.sub key 0 5 = "hf16_") then 16 else 32 in
                   match parse_scores (oget key) with
                   | Some (rows, mx, cells) when rows > 0 && Array.length cells = rows * cols ->
                       let sc = { sc_rows = List.init rows (fun r -> List.init cols (fun c -> z_of_int cells.(r * cols + c)));
                                  sc_max = nat_of_int mx } in
                       (try Some (List.map (fun i -> match z_sc_index sc (nat_of_int i) with Ok b -> int_of_z b | _ -> raise Exit) positions)
                        with _ -> None)
                   | _ -> None in
               (* byte sources; a source whose byte scores equal those of an earlier source is checked once *)
               let sources =
                 let seen = ref [] in
                 List.filter (fun key ->
                     match u8s_of key with
                     | None -> false
                     | Some u -> if List.mem u !seen then false else (seen := u :: !seen; true))
                   (["ds"; "gen"; "avx"; "dG"; "dS"; "dA"; "sse"; "g16"; "s16"] @ List.rev !hist_keys) in
               let tag () = if well_conditioned mat ifac then "" else "ill-conditioned " in
               (* every expected source of byte scores must be there when there are positions to check *)
               if npos > 0 then
                 List.iter (fun key ->
                     let v = oget key in
                     if v <> "U" && u8s_of key = None then begin
                       (* the empty motif: L + 1 positions, but the score matrices have no cell for position L when
                          L is a multiple of the row count (and none at all for the empty sequence); AVX2 arms panic *)
                       if m = 0 then skip (key ^ ":empty-motif(no-cell-for-every-position)")
                       else set_df (Printf.sprintf "property-not-checked:%s=%s" key (String.sub v 0 (min 12 (String.length v))))
                     end)
                   (if protein then ["ds"; "gen"; "sse"; "g16"; "s16"] else ["ds"; "gen"; "avx"; "dG"; "dS"; "dA"; "sse"; "g16"; "s16"]);
               if not in_theorem then skip "property:matrix-outside-the-theorem(non-finite-non-wildcard-cell)"
               else if List.length ireals <> npos then
                 set_df (Printf.sprintf "property-not-checked:real-scores rs=%s" (let v = oget "rs" in String.sub v 0 (min 16 (String.length v))));
               if in_theorem && List.length ireals = npos then begin
                 (* (a) scale recomputed by the model from the observed factor / offset *)
                 let check key =
                   match u8s_of key with
                   | Some u when List.length u = npos ->
                       (match f_first_bad ifac ioff O (List.map2 (fun b r -> (z_of_int b, r)) u ireals) with
                        | None -> ()
                        | Some i ->
                            let i = int_of_nat i in
                            set_pf (Printf.sprintf "%sunder-estimate pos=%d via=%s u8=%d scale(real)=%d" (tag ()) i key
                                      (List.nth u i) (int_of_z (f_scale_with ifac ioff (List.nth ireals i)))))
                   | _ -> () in
                 List.iter check sources;
                 (* (b) the implementation's OWN images: ss = dm.scale(real score of position i),
                    sc = dm.scale(threshold j); main clause and threshold transfer
                    (first_bad_impl, proved sound in DiscImplProofs.v) *)
                 let ints key = (try Some (List.map int_of_string (split ',' (oget key))) with _ -> None) in
                 (match ints "ss", ints "sc" with
                  | Some iss, Some isc when List.length iss = npos && List.length isc = List.length thr ->
                      let thrp = List.map2 (fun t s -> (t, z_of_int s)) thr isc in
                      let check_impl key =
                        match u8s_of key with
                        | Some u when List.length u = npos ->
                            let obs = List.map2 (fun (b, r) s -> ((z_of_int b, r), z_of_int s)) (List.combine u ireals) iss in
                            (match f_first_bad_impl O thrp obs with
                             | None -> ()
                             | Some (FailPos i) ->
                                 let i = int_of_nat i in
                                 set_pf (Printf.sprintf "%sunder-estimate pos=%d via=%s u8=%d impl-scale(real)=%d real=%d" (tag ()) i key
                                           (List.nth u i) (List.nth iss i) (bits_of (List.nth ireals i)))
                             | Some (FailThr (i, j)) ->
                                 let i = int_of_nat i and j = int_of_nat j in
                                 (* factor -0.0 (sign bit set): scale is not monotone there.  to_discrete cannot produce it any
                                    more (F14b repaired in /repo fd98893, C08_factor_sign_clear); the tag stays for regressions *)
                                 let ntag = if (not (factor_sign_clear ifac)) && bits_of ifac = 0x80000000 then "negative-zero-factor " else "" in
                                 set_pf (Printf.sprintf "%sthreshold-transfer-lost pos=%d via=%s u8=%d real=%d >= thr=%d but impl-scale(thr)=%d" ntag i key
                                           (List.nth u i) (bits_of (List.nth ireals i)) (bits_of (List.nth thr j)) (List.nth isc j)))
                        | _ -> () in
                      List.iter check_impl sources
                  | _ -> set_df "property-not-checked:implementation-images ss / sc missing or of the wrong length")
               end)
        with e -> set_df ("driver-exception " ^ Printexc.to_string e));
        (match !propfail, !diff with
         | Some p, _ -> print_endline (id ^ " PROPFAIL " ^ p)
         | None, Some d -> print_endline (id ^ " DIFF " ^ d)
         | None, None ->
             print_endline (id ^ " OK" ^ (if !skips = [] then "" else " skipped=" ^ String.concat "," (List.rev !skips))))
      end
    done
  with End_of_file -> ()
