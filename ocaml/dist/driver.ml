(* Driver for the extracted score-distribution model (property C11).
   Reads observation lines of `dist run` (see harness/src/bin/dist.rs) and prints
     <id> OK | <id> PROPFAIL <why> | <id> DIFF <why>
   PROPFAIL: the implementation's observations contradict the property, decided by the
   checker extracted from Coq (DistInst.check_C11_fails, proved sound in
   C11.check_C11_sound: table in [0,1] and non-increasing, p-values inside the brackets of
   the exact tails, p-values monotone, round trips) -- plus panics inside the property's
   domain, which are not values and are reported by this driver directly;
   DIFF: the observations differ from the bit-exact binary64 model.
   Nothing fails open: the checker run is DistStrictModel.check_C11_strict_fails (= check_C11_fails on the
   domain: C11_strict_checker_eq) whose kind 8 "bracket probes handed over but the exact scale could not be
   established" is printed as DIFF cannot-judge; and what each case was judged on (domain, which exact table,
   how many probes bracket-checked, hypotheses of the binary64 theorems) is appended as one line to
   c11-judged.log next to this executable (env C11_JUDGED_LOG=0 disables it), summarised into the evidence
   notes by props/c11.py. *)
open Dist_model

let rec nat_of_int n = if n <= 0 then O else S (nat_of_int (n - 1))
let rec int_of_nat = function O -> 0 | S n -> 1 + int_of_nat n

(* ---- unsigned 64-bit words <-> Z ---- *)
let rec pos_of_u64 (x : int64) : positive =
  (* x <> 0, unsigned *)
  if x = 1L then XH
  else
    let rest = Int64.shift_right_logical x 1 in
    if Int64.logand x 1L = 0L then XO (pos_of_u64 rest) else XI (pos_of_u64 rest)
let z_of_u64 (x : int64) : z = if x = 0L then Z0 else Zpos (pos_of_u64 x)
let rec u64_of_pos = function
  | XH -> 1L
  | XO p -> Int64.shift_left (u64_of_pos p) 1
  | XI p -> Int64.logor (Int64.shift_left (u64_of_pos p) 1) 1L
let u64_of_z = function Z0 -> 0L | Zpos p -> u64_of_pos p | Zneg p -> Int64.neg (u64_of_pos p)
let z_of_int n = if n >= 0 then z_of_u64 (Int64.of_int n) else (match z_of_u64 (Int64.of_int (-n)) with Zpos p -> Zneg p | z -> z)
let int_of_z z = Int64.to_int (u64_of_z z)
let u64_of_string s = Int64.of_string ("0u" ^ s)
let show_u64 x = Printf.sprintf "%Lu" x

let is_nan64 (b : int64) =
  Int64.logand b 0x7FF0000000000000L = 0x7FF0000000000000L && Int64.logand b 0x000FFFFFFFFFFFFFL <> 0L
let canon64 b = if is_nan64 b then 0x7FF8000000000000L else b
let is_nan32 (b : int64) =
  Int64.logand b 0x7F800000L = 0x7F800000L && Int64.logand b 0x007FFFFFL <> 0L
let canon32 b = if is_nan32 b then 0x7FC00000L else b

let f64_of_u64 b : F64.t = x_f64_of_bits (z_of_u64 b)
let u64_of_f64 (x : F64.t) = u64_of_z (x_f64_to_bits x)
let f32_of_u64 b = x_f32_of_bits (z_of_u64 b)
let f64_of_f32bits b : F64.t = x_f64_of_f32 (f32_of_u64 b)
let f32bits_of_f64 (x : F64.t) = u64_of_z (x_f32_to_bits (x_f64_to_f32 x))

let split c s = if s = "" || s = "-" then [] else String.split_on_char c s
let kv tok = match String.index_opt tok '=' with
  | Some i -> (String.sub tok 0 i, String.sub tok (i + 1) (String.length tok - i - 1))
  | None -> (tok, "")

(* ---- rationals for messages ---- *)
let float_of_q (x : q) : float =
  (* approximate value, for messages only: mantissa and binary exponent kept apart so that thousands of bits
     in numerator and denominator do not overflow *)
  let rec bits = function XH -> [true] | XO p -> false :: bits p | XI p -> true :: bits p in
  let mant_exp p =
    let b = List.rev (bits p) in   (* most significant first *)
    let n = List.length b in
    let rec take k l acc = match l with x :: r when k > 0 -> take (k - 1) r (2.0 *. acc +. (if x then 1.0 else 0.0)) | _ -> acc in
    let used = min n 60 in
    (take used b 0.0, n - used) in
  match x.qnum with
  | Z0 -> 0.0
  | Zpos p | Zneg p ->
      let (mn, en) = mant_exp p and (md, ed) = mant_exp x.qden in
      let v = ldexp (mn /. md) (en - ed) in
      (match x.qnum with Zneg _ -> -. v | _ -> v)

let q_of_ints a b : q = { qnum = z_of_int a; qden = (match z_of_int b with Zpos p -> p | _ -> XH) }

let eps : q = { qnum = Zpos XH; qden = (match z_of_u64 (Int64.shift_left 1L 30) with Zpos p -> p | _ -> XH) }

let max_words = 70000
let max_grid = 20000.0
let float_of_z (z : z) : float =
  let rec fpos = function XH -> 1.0 | XO p -> 2.0 *. fpos p | XI p -> 2.0 *. fpos p +. 1.0 in
  match z with Z0 -> 0.0 | Zpos p -> fpos p | Zneg p -> -. fpos p
(* one line per case: what the verdict rests on (counted and reported by props/c11.py `extra`) *)
let judged_log : out_channel option Lazy.t = lazy (
  match (try Sys.getenv "C11_JUDGED_LOG" with Not_found -> "") with
  | "0" -> None
  | path ->
      let path = if path = "" then Filename.concat (Filename.dirname Sys.executable_name) "c11-judged.log" else path in
      (try Some (open_out_gen [Open_wronly; Open_creat; Open_append] 0o644 path) with _ -> None))
let log_judged id fields =
  match Lazy.force judged_log with
  | Some oc -> output_string oc (id ^ " " ^ String.concat " " (List.map (fun (k, v) -> k ^ "=" ^ v) fields) ^ "\n"); flush oc
  | None -> ()
let prof = (try Sys.getenv "DIST_PROF" <> "" with Not_found -> false)
let tick = ref (Sys.time ())
let lap name = if prof then begin let t = Sys.time () in Printf.eprintf "  %s %.3fs\n" name (t -. !tick); tick := t end

let process line =
  let (inp, obs) =
    match Str.bounded_split (Str.regexp_string " => ") line 2 with
    | [a; b] -> (a, b) | [a] -> (a, "") | _ -> failwith "bad line" in
  let toks = String.split_on_char ' ' inp in
  let id = List.hd toks in
  let fields = List.map kv (List.tl toks) in
  let get k = try List.assoc k fields with Not_found -> "" in
  let otoks = String.split_on_char ' ' obs in
  let ofields = List.map kv otoks in
  let oget k = try List.assoc k ofields with Not_found -> "" in
  let propfail = ref [] and diff = ref [] in
  let scope = ref false in
  let prefix = ref "" in
  let pf s = if !scope then propfail := (!prefix ^ s) :: !propfail in
  let df s = diff := s :: !diff in
  let labelled s =
    List.exists (fun l -> String.length s >= String.length l && String.sub s 0 (String.length l) = l)
      ["unscale-inexact"] in
  let finish () =
    let pfs = List.rev !propfail in
    let pfs = List.filter (fun s -> not (labelled s)) pfs @ List.filter labelled pfs in
    match pfs, List.rev !diff with
    | p :: _, _ -> Printf.printf "%s PROPFAIL %s\n" id p
    | [], d :: _ -> Printf.printf "%s DIFF %s\n" id d
    | [], [] -> Printf.printf "%s OK\n" id in
  if obs = "bgerr" then (log_judged id [("domain", "background-rejected")]; Printf.printf "%s OK\n" id)
  else if obs = "HARNESSPANIC" || obs = "" then (Printf.printf "%s DIFF harness-failed\n" id)
  else begin
    let m_bits : int64 list list =
      List.map (fun r -> List.map u64_of_string (split ',' r)) (split ';' (get "m")) in
    let mrows = List.length m_bits in
    let bg_bits = List.map u64_of_string (split ',' (oget "bgf")) in
    let cells64 : F64.t cell list list = List.map (List.map (fun b -> CFin (f64_of_f32bits b))) m_bits in
    let bg64 = List.map f64_of_f32bits bg_bits in
    (* scope of the property: finite non-wildcard cells, wildcard finite or -inf (decided in Coq) *)
    let finite32 b = Int64.logand b 0x7F800000L <> 0x7F800000L in
    let mvals : F64.t list list = List.map (List.map f64_of_f32bits) m_bits in
    let in_scope = c11_in_scope mvals bg64 in
    scope := in_scope;
    (* the lower edge of the domain: without any non-infinite cell (M = 0, only -inf cells) the construction is the
       panic of min_by(..).unwrap(), outside the property's quantifier (C11_no_finite_cell_panics) *)
    let has_cell = c11_has_finite_cell mvals in
    let domain = if in_scope then "in" else if not has_cell then "out:no-finite-cell" else "out:non-finite-cell" in
    let bg_ok = f64_bg_ok bg64 and dims_ok = f64_dims_ok (nat_of_int (List.length bg64)) (nat_of_int mrows) in
    (* f32_matrix_ok_any: no NaN cell, and two different non-infinite cells or a constant of magnitude <= 2^52 -- then the
       scale part is a theorem (C11_scale_pred_f32) *)
    let f32_ok = f32_matrix_ok_any (List.map (List.map z_of_u64) m_bits) in
    let jl = ref [("domain", domain); ("M", string_of_int mrows);
                  ("f64hyp", if bg_ok && dims_ok then "yes" else "no"); ("f32ok", if f32_ok then "yes" else "no")] in
    let note k v = jl := !jl @ [(k, v)] in
    if not (f64_ninf_agrees cells64) then df "model-selfcheck disc_ninf";
    lap "parse";
    (* build_fast = build (C11_build_fast_eq): linear-time reversal of the pdf *)
    let model = f64_build_fast cells64 bg64 in
    lap "f64_build";
    let built_panic = List.mem "BUILDPANIC" otoks in
    (match model, built_panic with
     | Ok _, true ->
         df "build: implementation panicked, model did not";
         if in_scope then pf "build-panic (implementation only; matrix inside the property's domain)"
     | (Panic s), false -> df (Printf.sprintf "build: model panics at site %d, implementation did not" (int_of_nat s))
     | (Err _ | OutOfFuel), _ -> df "build: model error"
     | Panic s, true ->
         note "build" (Printf.sprintf "panic-site-%d(both)" (int_of_nat s));
         (* a matrix without a finite cell must panic at site 1 and nowhere else *)
         if not has_cell && int_of_nat s <> 1 then df (Printf.sprintf "build: no finite cell but model panics at site %d" (int_of_nat s));
         if in_scope then pf (Printf.sprintf "build-panic site=%d (matrix inside the property's domain)" (int_of_nat s))
     | Ok d, false ->
         note "build" "ok";
         if not has_cell then df "build: no finite cell but the model answers";
         (* hypotheses of the binary64 theorems on this case (C11_table_binary64 needs f64hyp; C11_pvalue_monotone_binary64_built
            also the scale part) *)
         note "scalepred" (if f64_scale_pred d then "yes" else "no");
         (* C11_scale_pred_f32 on this case: a model self-check like disc_ninf (cannot fail unless extraction and proof diverge) *)
         if f32_ok && not (f64_scale_pred d) then df "model-selfcheck f32_matrix_ok_any without f64_scale_pred";
         (* ---------- the table ---------- *)
         let runs = List.map (fun t -> match String.split_on_char '*' t with
             | [b; c] -> (u64_of_string b, int_of_string c) | _ -> failwith "bad rle") (split ',' (oget "sf")) in
         let n_impl = List.fold_left (fun a (_, c) -> a + c) 0 runs in
         let impl_sf_vals : F64.t list =
           List.concat_map (fun (b, c) -> let v = f64_of_u64 b in List.init c (fun _ -> v)) runs in
         let impl_sf_bits = Array.make n_impl 0L in
         let _ = List.fold_left (fun i (b, c) -> Array.fill impl_sf_bits i c (canon64 b); i + c) 0 runs in
         let model_sf = Array.of_list (List.map u64_of_f64 d.d_sf) in
         if Array.length model_sf <> n_impl then
           df (Printf.sprintf "sf length %d model %d" n_impl (Array.length model_sf))
         else begin
           let bad = ref (-1) in
           Array.iteri (fun i b -> if !bad < 0 && b <> impl_sf_bits.(i) then bad := i) model_sf;
           if !bad >= 0 then
             df (Printf.sprintf "sf[%d] impl=%s model=%s" !bad (show_u64 impl_sf_bits.(!bad)) (show_u64 model_sf.(!bad)))
         end;
         lap "table";
         (* min_pvalue *)
         let show_res = function
           | Ok x -> show_u64 (canon64 (u64_of_f64 x)) | Panic _ -> "P" | _ -> "E" in
         let canon_obs s = if s = "P" then "P" else show_u64 (canon64 (u64_of_string s)) in
         if canon_obs (oget "minp") <> show_res (f64_min_pvalue d) then
           df (Printf.sprintf "min_pvalue impl=%s model=%s" (oget "minp") (show_res (f64_min_pvalue d)));
         (* ---------- pvalue probes: replay, and collection of the observations ---------- *)
         let pr_bits = List.map u64_of_string (split ',' (get "pr")) in
         let pv_obs = split ',' (oget "pv") in
         let nwords = List.fold_left (fun acc r ->
             let k = List.length (List.filter (fun (c, b) -> finite32 c && Int64.logand b 0x7FFFFFFFL <> 0L)
                                    (List.combine r bg_bits)) in
             if acc > max_words then acc else acc * k) 1 m_bits in
         let exact = in_scope && nwords <= max_words in
         (* the exact tails on the integer grid of the scores (DistGridModel.conv_tableZ, same checker as through the
            table of all words by C11_grid_checker_eq) when that grid is small and smaller than the number of words:
            long motifs (too many words) and any matrix with cells on a coarse grid; grid_size bounds the number of
            distinct word scores: sum over the rows of (max - min) of the integer cells at the common exponent, divided by
            the power of two they all share, + 1 *)
         let grid_size =
           if in_scope then begin
             let zc = c11_zc mvals in
             (* the integer cells share the factor 2^t (the common exponent is that of the finest cell): t = the least
                number of trailing zero bits *)
             let rec val2 = function XO p -> 1 + val2 p | _ -> 0 in
             let t = List.fold_left (fun acc row -> List.fold_left (fun acc o ->
                 match o with Some (Zpos p) | Some (Zneg p) -> min acc (val2 p) | _ -> acc) acc row) max_int zc in
             let unit = if t = max_int then 1.0 else 2.0 ** float_of_int t in
             List.fold_left (fun acc row ->
                 let vs = List.filter_map (fun o -> match o with Some z -> Some (float_of_z z) | None -> None) row in
                 match vs with
                 | [] -> acc
                 | v :: r -> acc +. (List.fold_left max v r -. List.fold_left min v r) /. unit) 1.0 zc
           end else infinity in
         let grid = in_scope && grid_size <= max_grid && (not exact || grid_size < float_of_int nwords) in
         let per_probe = if grid then 2 * int_of_float grid_size else 2 * nwords in
         let budget = ref 2_500_000 in
         let pv_list = ref [] and br_list = ref [] in   (* reversed *)
         if List.length pr_bits <> List.length pv_obs then df "pvalue: observation count"
         else
           List.iteri (fun i (sb, po) ->
               let s64 = f64_of_f32bits sb in
               let mres = f64_pvalue d s64 in
               if canon_obs po <> show_res mres then
                 df (Printf.sprintf "pvalue probe#%d score=%s impl=%s model=%s" i (show_u64 sb) po (show_res mres));
               if po = "P" then begin
                 if in_scope then pf (Printf.sprintf "pvalue-panic probe#%d score=%s" i (show_u64 sb))
               end else if not (is_nan32 sb) then begin
                 let pv64 = f64_of_u64 (u64_of_string po) in
                 pv_list := (s64, pv64) :: !pv_list;
                 if (exact || grid) && finite32 sb && !budget > 0 then begin
                   budget := !budget - per_probe;
                   br_list := (i, sb, po, (s64, pv64)) :: !br_list
                 end
               end) (List.combine pr_bits pv_obs);
         lap "probes";
         (* ---------- score probes and round trips: replay and collection ---------- *)
         let rt_list = ref [] in   (* reversed: (tag, i, pbits, sobs, robs, (p, rt)) *)
         let check_score tag i pbits sobs robs =
           let p64 = f64_of_u64 pbits in
           let ms = f64_score d p64 in
           let ms_txt = (match ms with Ok x -> show_u64 (canon32 (f32bits_of_f64 x)) | Panic _ -> "P" | _ -> "E") in
           let sobs_c = if sobs = "P" then "P" else show_u64 (canon32 (u64_of_string sobs)) in
           if sobs_c <> ms_txt then
             df (Printf.sprintf "score %s#%d p=%s impl=%s model=%s" tag i (show_u64 pbits) sobs ms_txt)
           else begin
             let mr = f64_roundtrip d p64 in
             if canon_obs robs <> show_res mr then
               df (Printf.sprintf "roundtrip %s#%d p=%s impl=%s model=%s" tag i (show_u64 pbits) robs (show_res mr))
           end;
           let p_in01 = (let v = Int64.float_of_bits pbits in v > 0.0 && v < 1.0) in
           if (sobs = "P" || robs = "P") then begin
             if in_scope && p_in01 then pf (Printf.sprintf "score-panic %s#%d p=%s" tag i (show_u64 pbits))
           end else
             rt_list := (tag, i, pbits, sobs, robs, (p64, f64_of_u64 (u64_of_string robs))) :: !rt_list
         in
         let ps_bits = List.map u64_of_string (split ',' (get "ps")) in
         let sc_obs = split ',' (oget "sc") in
         if List.length ps_bits <> List.length sc_obs then df "score: observation count"
         else List.iteri (fun i (pb, o) ->
             match String.split_on_char ':' o with
             | [s; r] -> check_score "ps" i pb s r
             | _ -> df "score: bad observation") (List.combine ps_bits sc_obs);
         List.iteri (fun i o ->
             match String.split_on_char ':' o with
             | [p; s; r] -> check_score "si" i (u64_of_string p) s r
             | _ -> df "score: bad sx observation") (split ',' (oget "sx"));
         (* Distribution<f32>::sample: the sampled score is score(p) of the drawn p *)
         List.iteri (fun i o ->
             match String.split_on_char ':' o with
             | [p; sv] ->
                 let p64 = f64_of_u64 (u64_of_string p) in
                 let ms = f64_sample d p64 in
                 let ms_txt = (match ms with Ok x -> show_u64 (canon32 (f32bits_of_f64 x)) | Panic _ -> "P" | _ -> "E") in
                 let sv_c = if sv = "P" then "P" else show_u64 (canon32 (u64_of_string sv)) in
                 if sv_c <> ms_txt then
                   df (Printf.sprintf "sample #%d p=%s impl=%s model=%s" i p sv ms_txt);
                 if sv = "P" && in_scope then pf (Printf.sprintf "sample-panic #%d p=%s" i p)
             | _ -> df "sample: bad observation") (split ',' (oget "sm"));
         (* scale / unscale called directly (absent in old replay files: skipped) *)
         let sk_obs = split ',' (oget "sk") in
         if sk_obs <> [] then begin
           if List.length sk_obs <> List.length pr_bits then df "scale: observation count"
           else List.iteri (fun i (sb, o) ->
               let mt = (match f64_scale d (f64_of_f32bits sb) with
                   | Ok z -> string_of_int (int_of_z z) | Panic _ -> "P" | _ -> "E") in
               if o <> mt then df (Printf.sprintf "scale probe#%d score=%s impl=%s model=%s" i (show_u64 sb) o mt))
               (List.combine pr_bits sk_obs)
         end;
         List.iter (fun o ->
             match String.split_on_char ':' o with
             | [i; v] ->
                 let mt = (match f64_unscale_m d (z_of_int (int_of_string i)) with
                     | Ok x -> show_u64 (canon32 (f32bits_of_f64 x)) | Panic _ -> "P" | _ -> "E") in
                 let vc = if v = "P" then "P" else show_u64 (canon32 (u64_of_string v)) in
                 if vc <> mt then df (Printf.sprintf "unscale index=%s impl=%s model=%s" i v mt)
             | _ -> df "unscale: bad observation") (split ',' (oget "us"));
         lap "scores";
         (* ---------- the property, decided by the extracted checker ---------- *)
         let pvl = List.rev !pv_list and brl = List.rev !br_list and rtl = List.rev !rt_list in
         (* check_C11_red_fails grid = check_C11_fails (C11_red_checker_eq): weights without their common power of two *)
         let nfin = List.length (List.filter (fun (s64, _) -> x_f64_is_finite s64) pvl) in
         note "bracket" (if not in_scope then "none:out-of-domain"
                         else if grid then "grid" else if exact then "words"
                         else "none:too-many-words");
         note "judged" (Printf.sprintf "%d/%d" (List.length brl) nfin);
         note "roundtrips" (string_of_int (List.length rtl));
         (* check_C11_strict_fails = check_C11_red_fails ++ kind 8 (cannot judge) *)
         let fails = check_C11_strict_fails grid mvals bg64 impl_sf_vals pvl
             (List.map (fun (_, _, _, x) -> x) brl) (List.map (fun (_, _, _, _, _, x) -> x) rtl) in
         lap "check_C11";
         List.iter (fun (kind, idx) ->
             match int_of_nat kind, int_of_nat idx with
             | (1 | 2) as code, _ ->
                 (* name the offending entry (for the message only) *)
                 let bad = ref (-1) in
                 Array.iteri (fun i b -> if !bad < 0 then begin
                     let v = Int64.float_of_bits b in
                     if not (v >= 0.0 && v <= 1.0) then bad := i
                     else if i + 1 < n_impl && not (Int64.float_of_bits impl_sf_bits.(i + 1) <= v) then bad := i + 1 end) impl_sf_bits;
                 let v = if !bad >= 0 then Int64.float_of_bits impl_sf_bits.(!bad) else nan in
                 if code = 1 then pf (Printf.sprintf "sf-range sf[%d]=%.17g outside [0,1]" !bad v)
                 else pf (Printf.sprintf "sf-monotone sf[%d]=%.17g above its predecessor" !bad v)
             | (3 | 4 | 5) as code, bi ->
                 let (i, sb, po, _) = List.nth brl bi in
                 let pvb = u64_of_string po in
                 let pvf = Int64.float_of_bits pvb in
                 let sf_ = Int32.float_of_bits (Int64.to_int32 sb) in
                 if code = 5 then pf (Printf.sprintf "pvalue-range probe#%d pv=%s" i po)
                 else begin
                   (* the violated bound, recomputed for the message only *)
                   let (bound, dq) =
                     (match q_stage_a (c11_qm mvals) with
                      | Ok (_, scale) ->
                          let dd = qdiv (qplus (qdiv (inject_Z (z_of_int mrows)) (q_of_ints 2 1)) (q_of_ints 1 1)) scale in
                          let sq = f64_to_Q (f64_of_f32bits sb) in
                          let (bgz', t) = c11_red (c11_j bg64) (c11_zb bg64) in
                          let tab = (if grid then conv_tableZ else word_tableZ) (c11_zc mvals) bgz' in
                          (float_of_q (tail_dy tab (c11_k mvals) (Z.sub (c11_j bg64) t) (z_of_int mrows)
                                         (if code = 3 then qplus sq dd else qminus sq dd)), float_of_q dd)
                      | _ -> (nan, nan)) in
                   let label = if code = 3 then "bracket-below" else "bracket-above" in
                   pf (Printf.sprintf "%s probe#%d score=%.9g pvalue=%.17g %s exact tail %.17g at s%sd d=%.6g M=%d"
                         label i sf_ pvf (if code = 3 then "<" else ">") bound (if code = 3 then "+" else "-") dq mrows)
                 end
             | 6, _ ->
                 pf "pvalue-monotone a larger score got a larger p-value"
             | 7, ri ->
                 let (tag, i, pbits, sobs, robs, (p64, _)) = List.nth rtl ri in
                 (* the known finding is "the predicate of C11_roundtrip_binary64 is false": scale(unscale(i)) <> i
                    for some index of the table (evaluated on the model of this case, only when a round trip fails) *)
                 let _ = p64 in
                 let rtv = Int64.float_of_bits (u64_of_string robs) in
                 let inexact = not (f64_unscale_exact_on d.d_scale_f d.d_offset d.d_rows (nat_of_int (List.length d.d_sf))) in
                 let label = if inexact then "unscale-inexact roundtrip" else "roundtrip" in
                 pf (Printf.sprintf "%s %s#%d p=%.17g score=%.9g pvalue(score(p))=%.17g > p" label tag i
                       (Int64.float_of_bits pbits) (Int32.float_of_bits (Int64.to_int32 (u64_of_string sobs))) rtv)
             | 8, _ ->
                 (* never inside the domain for K >= 2 (C11_bracket_always_judged): a broken tie, not OK *)
                 note "unjudged" "kind8";
                 df "cannot-judge: bracket probes handed over but the exact scale could not be established (check_C11_strict_fails kind 8)"
             | k, i -> pf (Printf.sprintf "check_C11 kind=%d index=%d" k i)) fails);
    log_judged id !jl;
    finish ()
  end

let () =
  try
    while true do
      let line = input_line stdin in
      if String.length line > 0 && line.[0] <> '#' then
        (try process line with e ->
           let id = List.hd (String.split_on_char ' ' line) in
           Printf.printf "%s DIFF driver-exception %s\n" id (Printexc.to_string e))
    done
  with End_of_file -> ()
