(* Driver for the extracted pwm model (properties C09 and C10).

   usage: driver c09 | driver c10      (observation lines of `pwm c09|c10 run` on stdin)

   For every case it prints  <id> OK | <id> PROPFAIL <why> | <id> DIFF <why>.
   PROPFAIL: an extracted property checker (coq/pwm/PwmCheck.v, PwmCheck2.v, PwmLog.v)
   rejected the implementation's observation.  DIFF: the observation differs from the
   extracted binary32 model (bit-exact up to the logarithm, through the libm oracle table
   after it), or an oracle entry is not a logarithm (extracted interval checker
   log_pair_ok, PwmLog.v) / the table is not monotone (check_log_mono).
   A comparison that a checker could not make (its guard failed: see the *_skipped
   functions of PwmCheck2.v) is counted and printed behind the verdict:
   `<id> OK skipped=<what>:<n>,...` -- never a silent OK. *)
open Pwm_model

(* ---------- conversions ---------- *)
let nat_of_int n = let rec go acc n = if n <= 0 then acc else go (S acc) (n - 1) in go O n
let int_of_nat n = let rec go acc = function O -> acc | S m -> go (acc + 1) m in go 0 n
let rec pos_of_int n =
  if n = 1 then XH else if n land 1 = 0 then XO (pos_of_int (n lsr 1)) else XI (pos_of_int (n lsr 1))
let z_of_int n = if n = 0 then Z0 else if n > 0 then Zpos (pos_of_int n) else Zneg (pos_of_int (-n))
let rec int_of_pos = function XH -> 1 | XO p -> 2 * int_of_pos p | XI p -> 2 * int_of_pos p + 1
let int_of_z = function Z0 -> 0 | Zpos p -> int_of_pos p | Zneg p -> - (int_of_pos p)
let n_of_int n = if n = 0 then N0 else Npos (pos_of_int n)
let int_of_n = function N0 -> 0 | Npos p -> int_of_pos p
(* unsigned 64-bit decimal -> N (OCaml ints have 63 bits) *)
let n_of_u64 (s : string) : n =
  let v = Int64.of_string ("0u" ^ s) in
  let rec go (v : int64) : positive option =
    if Int64.equal v 0L then None
    else
      let lo = Int64.logand v 1L and hi = Int64.shift_right_logical v 1 in
      match go hi with
      | None -> Some XH                                  (* v = 1 *)
      | Some p -> Some (if Int64.equal lo 1L then XI p else XO p) in
  match go v with None -> N0 | Some p -> Npos p
let rec pos_bits = function XH -> 1 | XO p | XI p -> 1 + pos_bits p
let q_of_frac a b = { qnum = z_of_int a; qden = pos_of_int b }

let fb (b : int) = xf_of_bits (z_of_int b)
let bf x = int_of_z (xf_to_bits x)
let ocaml_float b = Int32.float_of_bits (Int32.of_int (if b land 0x80000000 <> 0 then b - 0x100000000 else b))
let canon b = if (b land 0x7F800000) = 0x7F800000 && (b land 0x7FFFFF) <> 0 then 0x7FC00000 else b

let ops = f32ops

(* ---------- parsing ---------- *)
let split c s = if s = "" then [] else String.split_on_char c s
let ints s = List.map int_of_string (split ',' s)
let imatrix s = List.map ints (split ';' s)
let kv tok = match String.index_opt tok '=' with
  | Some i -> (String.sub tok 0 i, String.sub tok (i + 1) (String.length tok - i - 1))
  | None -> (tok, "")
let fields s = List.filter_map (fun t -> if t = "" then None else Some (kv t)) (String.split_on_char ' ' s)

let frow l = List.map fb l
let fmat m = List.map frow m
let nmat m = List.map (List.map n_of_int) m
let show_frow r = String.concat "," (List.map (fun x -> string_of_int (bf x)) r)
let show_fmat m = String.concat ";" (List.map show_frow m)

let alphabet a =
  if a = "prot" then (protein_K, protein_str, protein_symbols) else (dna_K, dna_str, dna_symbols)

let sym_index (_, str, syms) c =
  let code = Char.code c in
  let rec go s y = match s, y with
    | x :: s', i :: y' -> if int_of_nat x = code then i else go s' y'
    | _, _ -> failwith (Printf.sprintf "bad symbol %c" c) in
  go str syms

let parse_seq al s = if s = "-" then [] else List.init (String.length s) (fun i -> sym_index al s.[i])
let parse_seqs al s = List.map (parse_seq al) (split '/' s)

(* ---------- verdict ---------- *)
exception Stop
let propfail = ref None
let diff = ref None
let pf s = if !propfail = None then propfail := Some s
let df s = if !diff = None then diff := Some s
(* a DIFF ends the stage-by-stage walk: later stages would only repeat it *)
let df_stop s = df s; raise Stop
(* comparisons that were not made (guard of an extracted checker failed), per case *)
let skips : (string * int) list ref = ref []
let skip name n =
  if n > 0 then
    skips := (match List.assoc_opt name !skips with
        | Some k -> (name, k + n) :: List.remove_assoc name !skips
        | None -> (name, n) :: !skips)
let show_skips () =
  if !skips = [] then ""
  else " skipped=" ^ String.concat "," (List.map (fun (a, n) -> Printf.sprintf "%s:%d" a n) (List.rev !skips))

(* ---------- logarithm oracle ---------- *)
let tab : (int * int, int) Hashtbl.t = Hashtbl.create 64
let oracle_miss = ref false
let tab_add kind i o =
  let i = canon i and o = canon o in
  match Hashtbl.find_opt tab (kind, i) with
  | Some o' when o' <> o -> df (Printf.sprintf "oracle-inconsistent kind=%d in=%d" kind i)
  | Some _ -> ()
  | None -> Hashtbl.replace tab (kind, i) o
let lookup kind x =
  match Hashtbl.find_opt tab (kind, canon (bf x)) with
  | Some o -> fb o
  | None -> oracle_miss := true; fb 0x7FC00000
let l2 x = lookup 2 x
let l10 x = lookup 10 x
let ln x = lookup 0 x
let p2 x = lookup 3 x
let kind_of_base b = if b = 0x40000000 then 2 else if b = 0x41200000 then 10 else 0
let base_value kind lnb = match kind with 2 -> 2.0 | 10 -> 10.0 | _ -> exp 1.0

let tab_add_matrix kind (inm : int list list) (outm : int list list) =
  if List.length inm <> List.length outm then df "oracle-shape" else
  List.iter2 (fun ir orow ->
      if List.length ir <> List.length orow then df "oracle-shape" else
      List.iter2 (fun i o -> tab_add kind i o) ir orow) inm outm

(* kind 3 = 2f32.powf(x): 2^NaN = NaN, 2^-inf = 0, 2^+inf = +inf, otherwise within 1e-4 of
   OCaml's double-precision 2.0 ** x (overflow -> +inf, underflow -> denormal or 0), monotone *)
let validate_pow2 l =
  List.iter (fun (i, o) ->
      let x = ocaml_float i and y = ocaml_float o in
      if Float.is_nan x then (if not (Float.is_nan y) then df "oracle 2^NaN")
      else if x = neg_infinity then (if o <> 0 then df "oracle 2^-inf<>0")
      else if x = infinity then (if y <> infinity then df "oracle 2^inf")
      else begin
        let e = 2.0 ** x in
        let ok = if e > 3.4028235e38 then (y = infinity || y >= 3.4e38)
          else (not (Float.is_nan y)) && Float.abs (y -. e) <= 1e-4 *. e +. 1e-44 in
        if not ok then df (Printf.sprintf "oracle-inaccurate kind=3 in=%d out=%d" i o)
      end) l;
  let fin = List.filter (fun (i, _) -> not (Float.is_nan (ocaml_float i))) l in
  let sorted = List.sort (fun (a, _) (b, _) -> compare (ocaml_float a) (ocaml_float b)) fin in
  let rec mono = function
    | (i1, o1) :: ((i2, o2) :: _ as r) ->
        if ocaml_float i1 < ocaml_float i2 && ocaml_float o1 > ocaml_float o2
        then df (Printf.sprintf "oracle-not-monotone kind=3 in=%d,%d" i1 i2);
        mono r
    | _ -> () in
  mono sorted

(* memo of the pure extracted function ln_iv_f32 (enclosure of ln x by verified interval arithmetic on
   extracted Z: ~1 ms per call), keyed by the bit pattern; it lives as long as the process.  The extracted
   checkers log_pair_ok_k_pre / check_score_cell_real_pre take that enclosure as an argument
   (= log_pair_ok / check_score_cell_real when it is ln_iv_f32 of the same number: PwmLogProofs.v *_pre_eq) *)
let ln_memo = Hashtbl.create 4096
let ln_iv b =
  match Hashtbl.find_opt ln_memo b with
  | Some r -> r
  | None -> let r = ln_iv_f32 (fb b) in Hashtbl.replace ln_memo b r; r
let lpo_memo : (int * int * int, bool) Hashtbl.t = Hashtbl.create 4096
let lpo kind i o =
  let key = (kind, canon i, canon o) in
  match Hashtbl.find_opt lpo_memo key with
  | Some r -> r
  | None -> let r = log_pair_ok_k_pre (ln_iv (canon i)) (nat_of_int kind) (fb i) (fb o) in
      Hashtbl.replace lpo_memo key r; r

(* validation of every value of the oracle table by the EXTRACTED checkers (C09; review C09/1):
   each (input, output) pair of kind 2 / 10 / 0 is a logarithm (log_pair_ok: NaN / negative -> NaN,
   0 -> -inf, +inf -> +inf, 1 -> 0, otherwise within 2^-20 relative of the real log2 / log10 / ln),
   and the table is monotone on its non-negative inputs (check_log_mono on the sorted list; the
   sorting is hand-written, the checker re-checks the order).  Kind 3 (2^x) as before. *)
let validate_oracle_exact () =
  let by_kind = Hashtbl.create 4 in
  Hashtbl.iter (fun (k, i) o ->
      let l = try Hashtbl.find by_kind k with Not_found -> [] in
      Hashtbl.replace by_kind k ((i, o) :: l)) tab;
  Hashtbl.iter (fun k l ->
      if k = 3 then validate_pow2 l else begin
        List.iter (fun (i, o) ->
            if not (lpo k i o) then df (Printf.sprintf "oracle-not-logarithm kind=%d in=%d out=%d" k i o)) l;
        let pos = List.filter (fun (i, _) -> let x = ocaml_float i in (not (Float.is_nan x)) && x >= 0.0) l in
        let sorted = List.sort (fun (a, _) (b, _) -> compare (ocaml_float a) (ocaml_float b)) pos in
        if not (check_log_mono (List.map (fun (i, o) -> (fb i, fb o)) sorted))
        then df (Printf.sprintf "oracle-not-monotone kind=%d" k)
      end) by_kind

(* C10 (the logarithm is not part of that property; DIFF path only): the cheaper hand-written
   re-validation in double precision:
   log 0 = -inf, log of a negative number / NaN is NaN, log +inf = +inf, monotone,
   and b^(log_b x) = x up to 1e-4 (computed with OCaml's double-precision pow) *)
let validate_oracle () =
  let by_kind = Hashtbl.create 4 in
  Hashtbl.iter (fun (k, i) o ->
      let l = try Hashtbl.find by_kind k with Not_found -> [] in
      Hashtbl.replace by_kind k ((i, o) :: l)) tab;
  Hashtbl.iter (fun k l ->
      if k = 3 then validate_pow2 l else begin
      let b = base_value k 0 in
      List.iter (fun (i, o) ->
          let x = ocaml_float i and y = ocaml_float o in
          if Float.is_nan x then (if not (Float.is_nan y) then df (Printf.sprintf "oracle log(NaN) kind=%d" k))
          else if x = 0.0 then (if o <> 0xFF800000 then df (Printf.sprintf "oracle log(0)<>-inf kind=%d" k))
          else if x < 0.0 then (if not (Float.is_nan y) then df (Printf.sprintf "oracle log(neg) kind=%d" k))
          else if x = infinity then (if y <> infinity then df (Printf.sprintf "oracle log(inf) kind=%d" k))
          else begin
            let back = b ** y in
            if Float.is_nan y || Float.abs (back -. x) > 1e-4 *. x +. 1e-44
            then df (Printf.sprintf "oracle-inaccurate kind=%d in=%d out=%d" k i o)
          end) l;
      let pos = List.filter (fun (i, _) -> let x = ocaml_float i in (not (Float.is_nan x)) && x >= 0.0) l in
      let sorted = List.sort (fun (a, _) (b, _) -> compare (ocaml_float a) (ocaml_float b)) pos in
      let rec mono = function
        | (i1, o1) :: ((i2, o2) :: _ as r) ->
            if ocaml_float i1 < ocaml_float i2 && ocaml_float o1 > ocaml_float o2
            then df (Printf.sprintf "oracle-not-monotone kind=%d in=%d,%d" k i1 i2);
            mono r
        | _ -> () in
      mono sorted end) by_kind

(* ---------- helpers on observations ---------- *)
let eps_freq = q_of_frac 1 100000          (* 1e-5 absolute on frequencies *)
let rel_w = q_of_frac 1 1000000            (* 1e-6 relative on weights *)
let tiny = { qnum = z_of_int 1; qden = pos_of_int (1 lsl 60) }  (* absolute slack for denormals *)
let abs_s = q_of_frac 1 100000             (* scores: 1e-5 absolute + 1e-5 relative *)
let rel_s = q_of_frac 1 100000
let rel_c = q_of_frac 1 1000000            (* commuting routes: 1e-6 relative (~16 ulp) *)
let slack_bg = q_of_frac 1 100000
let zero_q = q_of_frac 0 1

let res_of_bg_spec k spec : f32 list res =
  if spec = "none" || spec = "uni" then Ok (bg_uniform ops k)
  else if String.length spec > 4 && String.sub spec 0 4 = "new:" then
    bg_new ops (frow (ints (String.sub spec 4 (String.length spec - 4))))
  else if String.length spec >= 4 && String.sub spec 0 4 = "cnt:" then
    bg_from_counts ops (List.map n_of_int (ints (String.sub spec 4 (String.length spec - 4))))
  else failwith ("bad bg spec " ^ spec)

let bg_spec_new spec =
  if String.length spec > 4 && String.sub spec 0 4 = "new:"
  then Some (frow (ints (String.sub spec 4 (String.length spec - 4)))) else None

let pseudo_of k spec =
  let body = String.sub spec 2 (String.length spec - 2) in
  if spec.[0] = 's' then pseudo_scalar ops k (fb (int_of_string body)) else frow (ints body)

let same_fm name model obs =
  if not (fm_same model obs) then df_stop (Printf.sprintf "%s model=%s" name (show_fmat model))

(* counts stage shared by C09 and C10: returns the observed count matrix or stops *)
let counts_stage al k get geto ~check =
  let obs_cm = geto "cm" in
  if obs_cm = Some "P" then (pf "count-matrix-panic"; raise Stop);
  match get "seqs" with
  | Some s ->
      let seqs = parse_seqs al s in
      let model = from_sequences k seqs in
      let obs = (match obs_cm with
          | Some "Err" -> Err O
          | Some m -> Ok (nmat (imatrix m), n_of_int (int_of_string (Option.get (geto "n"))))
          | None -> df_stop "no-cm-observation") in
      if check && not (check_counts k seqs obs) then pf "counts-not-occurrences-or-length-check";
      (match model, obs with
       | Ok (m, n), Ok (m', n') -> if not (cm_same m m') || n <> n' then df_stop "counts-model"; m'
       | Err _, Err _ -> raise Stop
       | _, _ -> df_stop "counts-model-result-kind")
  | None ->
      let m = nmat (imatrix (Option.value (get "counts") ~default:"")) in
      (match count_new m, obs_cm with
       | Ok (m0, n), Some om when om <> "Err" ->
           let m' = nmat (imatrix om) in
           if not (cm_same m0 m') then (if check then pf "count-new-changed-data"; df_stop "count-new-model");
           if n <> n_of_int (int_of_string (Option.get (geto "n"))) then df_stop "count-new-n";
           m'
       | _, _ -> df_stop "count-new-result-kind")

let get_fm geto name =
  match geto name with
  | None -> df_stop ("missing-observation " ^ name)
  | Some "P" -> pf ("unexpected-panic " ^ name); raise Stop
  | Some s -> fmat (imatrix s)

let is_zero x = let b = bf x in b = 0 || b = 0x80000000

(* enclosure of ln base and "base > 1" (extracted base_iv), once per base *)
let base_iv_tab = Hashtbl.create 64
let base_iv_memo base_b =
  match Hashtbl.find_opt base_iv_tab base_b with
  | Some r -> r
  | None -> let r = base_iv (fb base_b) in Hashtbl.replace base_iv_tab base_b r; r
let score_real_tab : (int * bool * int * int, bool) Hashtbl.t = Hashtbl.create 4096
let score_real base_b lbp b w o =
  (* check_score_cell_real_pre looks at the background only through `bg == 0.0` *)
  let key = (base_b, is_zero b, bf w, bf o) in
  match Hashtbl.find_opt score_real_tab key with
  | Some r -> r
  | None -> let r = check_score_cell_real_pre (ln_iv (bf w)) lbp b w o in Hashtbl.replace score_real_tab key r; r

(* ---------- C09 ---------- *)
let c09_scores al k get geto (sm : f32 list list) =
  (* min / max / windows of scoring matrix [sm] *)
  let seq = parse_seq al (Option.value (get "seq") ~default:"-") in
  let cols = nat_of_int (int_of_string (Option.value (get "cols") ~default:"32")) in
  let l = List.length seq and m = List.length sm in
  let xpos = ints (Option.value (get "xpos") ~default:"") in
  let positions = (if l >= m then List.init (l - m + 1) (fun i -> i) else []) @ xpos in
  let obs_scalar name model =
    match geto name, model with
    | Some "P", Panic _ -> None
    | Some "P", _ -> pf ("unexpected-panic " ^ name); None
    | Some s, Ok v -> let b = int_of_string s in
        if canon b <> bf v then df (Printf.sprintf "%s model=%d" name (bf v)); Some (fb b)
    | Some s, _ -> df (name ^ " model-panics"); Some (fb (int_of_string s))
    | None, _ -> df ("missing-observation " ^ name); None in
  let mn = obs_scalar "mn" (min_score ops k sm) in
  let mx = obs_scalar "mx" (max_score ops k sm) in
  let win = split ',' (Option.value (geto "win") ~default:"") in
  if List.length win <> List.length positions then df "win-count"
  else List.iteri (fun idx (p, w) ->
      let model = score_position ops k cols sm seq (nat_of_int p) in
      (match w, model with
       | "P", Panic _ -> ()
       | "P", _ -> if p + m <= l then pf (Printf.sprintf "unexpected-panic score_position %d" p)
                   else df (Printf.sprintf "score_position %d panics, model does not" p)
       | s, Ok v -> if canon (int_of_string s) <> bf v then df (Printf.sprintf "win[%d] model=%d" p (bf v))
       | _, _ -> df (Printf.sprintf "win[%d] model-panics" p));
      if w <> "P" && p + m <= l && idx <= l - m && window_clean k (nat_of_int m) seq (nat_of_int p) then
        (match mn, mx with
         | Some a, Some b ->
             let wv = fb (int_of_string w) in
             if window_skipped a b wv then skip "window:nan" 1;
             if not (check_window a b wv) then pf (Printf.sprintf "window-outside-min-max pos=%d" p)
         | _, _ -> skip "window:min_score-or-max_score-panicked" 1)) (List.combine positions win)

let c09_pipe al k get geto =
  let cm = counts_stage al k get geto ~check:true in
  (* background *)
  let bgspec = Option.get (get "bg") in
  let mbg = res_of_bg_spec k bgspec in
  (match geto "bg" with
   | Some "P" -> pf "unexpected-panic background"; raise Stop
   | Some "Err" -> (match mbg with Err _ -> raise Stop | _ -> df_stop "background-rejected-model-accepts")
   | _ -> ());
  (match bg_spec_new bgspec with
   | Some v -> if bg_must_reject slack_bg v then pf "invalid-background-accepted"
   | None -> ());
  let mbg = (match mbg with Ok b -> b | _ -> df_stop "background-accepted-model-rejects") in
  (* frequencies *)
  let pseudo = pseudo_of k (Option.get (get "ps")) in
  let fq = get_fm geto "fq" in
  (* check_freq2 (PwmCheck2.v): a row is judged iff the pseudocounts are finite and >= 0 and the exact
     total is in (0, 2^100] (a function of the input); a non-finite observed cell on a judged row fails *)
  if not (check_freq2 eps_freq pseudo cm fq) then pf "frequency-not-(count+pseudo)/total";
  skip "freq-row:pseudo-or-total-outside-domain" (int_of_nat (freq_skips pseudo cm));
  same_fm "fq" (to_freq ops pseudo cm) fq;
  (* weights *)
  let wm = get_fm geto "wm" in
  let wbg = frow (ints (Option.get (geto "wbg"))) in
  if not (row_same mbg wbg) then df_stop "background-values";
  if not (check_weight rel_w tiny wbg fq wm) then pf "weight-not-frequency/background";
  skip "weight-cell:non-finite" (int_of_nat (weight_skips wbg fq wm));
  same_fm "wm" (to_weight ops wbg fq) wm;
  (* oracle table *)
  let wmi = imatrix (Option.get (geto "wm")) in
  let base_b = int_of_string (Option.get (get "base")) in
  let base = fb base_b in
  let kind = kind_of_base base_b in
  tab_add_matrix 2 wmi (imatrix (Option.get (geto "L2")));
  tab_add_matrix kind wmi (imatrix (Option.get (geto "LB")));
  tab_add 0 base_b (int_of_string (Option.get (geto "lnb")));
  tab_add 2 0 (int_of_string (Option.get (geto "l2z")));
  validate_oracle_exact ();
  (* section hypotheses of one_step_eq_two_step, on the actual values *)
  if bf (l2 f32_zero) <> 0xFF800000 then df "assumption flog2 0 = -inf fails";
  (* scores.  Two extracted checks per cell (the iteration over the cells and the memo are hand-written):
     (1) check_score_cell_real (PwmLog.v, sound: C09_check_score_cell_real_sound): the OBSERVED score is the
         logarithm, in the requested base, of the OBSERVED weight -- within 2^-20 relative of the real number
         ln w / ln base, enclosed by verified interval arithmetic; no oracle involved; -inf at a zero background
         (base > 1).  Not applicable to bases without a logarithm function (NaN, infinite, <= 0, 1): counted.
     (2) check_score_cell2 (PwmCheck2.v): the observed score against the value computed from the libm oracle
         (as coded: log2 / log10 / ln w / ln base), also for those bases; a NaN expected value is counted. *)
  let check_scores name obs expected_cell base_b =
    let niz = base_gt_one (fb base_b) in
    let lbp = base_iv_memo base_b in
    List.iteri (fun i (orow, wrow) ->
        if List.length orow <> List.length wrow || List.length orow <> List.length wbg
        then pf (Printf.sprintf "%s[%d]-row-shape" name i)
        else List.iteri (fun j ((o, w), b) ->
            let e = expected_cell w in
            if score_cell_skipped niz e b then skip (name ^ "-cell:oracle-value-nan") 1;
            if not (check_score_cell2 abs_s rel_s niz e b o)
            then pf (Printf.sprintf "%s[%d][%d]-not-log-of-weight" name i j);
            (match lbp with
             | None -> skip (name ^ "-cell:base-without-real-logarithm") 1
             | Some p -> if not (score_real base_b p b w o)
                 then pf (Printf.sprintf "%s[%d][%d]-not-log-of-weight (real logarithm)" name i j)))
          (List.combine (List.combine orow wrow) wbg)) (List.combine obs wm) in
  let two_b = 0x40000000 in
  let s2 = get_fm geto "s2" in
  if List.length s2 <> List.length wm then pf "s2-shape";
  check_scores "s2" s2 l2 two_b;
  same_fm "s2" (to_scoring ops l2 l10 ln wm) s2;
  let s1 = get_fm geto "s1" in
  if List.length s1 <> List.length wm then pf "s1-shape";
  check_scores "s1" s1 l2 two_b;
  (* proved bit for bit (C09_one_step_eq_two_step): exact comparison (review C09/5) *)
  if not (check_one_step_two_step s1 s2) then pf "one-step-and-two-step-routes-disagree";
  same_fm "s1" (into_scoring ops l2 wbg fq) s1;
  (match geto "s1bg" with Some b -> if not (row_same wbg (frow (ints b))) then df "s1-background" | None -> ());
  let s1i = get_fm geto "s1i" in
  same_fm "s1i" (into_scoring ops l2 wbg fq) s1i;
  let sb = get_fm geto "sb" in
  if List.length sb <> List.length wm then pf "sb-shape";
  check_scores "sb" sb (flog ops l2 l10 ln base) base_b;
  same_fm "sb" (to_scoring_with_base ops l2 l10 ln base wm) sb;
  if !oracle_miss then df "oracle-miss";
  (* rescale *)
  let bg2spec = Option.get (get "bg2") in
  let mbg2 = res_of_bg_spec k bg2spec in
  (match geto "bg2", mbg2 with
   | Some "P", _ -> pf "unexpected-panic background2"
   | Some "Err", Err _ -> ()
   | Some "Err", _ -> df "background2-rejected-model-accepts"
   | _, Err _ -> (match bg_spec_new bg2spec with
       | Some v when bg_must_reject slack_bg v -> pf "invalid-background-accepted"
       | _ -> ()); df "background2-accepted-model-rejects"
   | _, Ok b2 ->
       (match bg_spec_new bg2spec with
        | Some v when bg_must_reject slack_bg v -> pf "invalid-background-accepted"
        | _ -> ());
       (match geto "rs" with
        | Some "P" -> pf "unexpected-panic rescale"
        | None -> df "missing-observation rs"
        | Some s ->
            let rs = fmat (imatrix s) in
            let rsbg = frow (ints (Option.get (geto "rsbg"))) in
            let (mb, md) = rescale ops wbg wm b2 in
            if not (check_rescale (q_of_frac 1 100000) tiny wbg rsbg fq rs) then pf "rescaled-weight-not-frequency/new-background";
            skip "rescale-cell:old-background-zero-or-non-finite" (int_of_nat (rescale_skips wbg rsbg fq rs));
            if not (row_same mb rsbg) then df "rescale-background";
            if not (fm_same md rs) then df (Printf.sprintf "rs model=%s" (show_fmat md)))
   | _, _ -> df "background2-model");
  (* min / max / windows on the matrix in the requested base *)
  c09_scores al k get geto sb

(* ---------- C09 kind=stat (round 3): entropy, consensus, Correlation, information content, 2^x ---------- *)
let slack_corr = q_of_frac 1 10000
let log2_ub k = if int_of_nat k <= 5 then (pos_of_int 233, pos_of_int 100) else (pos_of_int 440, pos_of_int 100)

let scalar_cmp name (model : f32 res) (obs : string) =
  match obs, model with
  | "P", Panic _ -> ()
  | "P", _ -> df (Printf.sprintf "%s panics, model does not" name)
  | s, Ok v -> if canon (int_of_string s) <> bf v then df (Printf.sprintf "%s model=%d" name (bf v))
  | _, _ -> df (Printf.sprintf "%s model-panics" name)

let pairs_of s = List.map (fun p -> match String.split_on_char ':' p with
    | [a; b] -> (int_of_string a, int_of_string b) | _ -> failwith "bad pair") (split ',' s)

(* one matrix type: [conv] = `x as f32`; [range] = apply the [-1,1] property check *)
let corr_stage ?periodic tag conv m m2 get geto ~range =
  let delays = ints (Option.value (get "delays") ~default:"") in
  let pairs = pairs_of (Option.value (get "dij") ~default:"") in
  let obs name = split ',' (Option.value (geto (tag ^ name)) ~default:"") in
  let each name inputs f =
    let o = obs name in
    if List.length o <> List.length inputs then df (tag ^ name ^ "-count")
    else List.iteri (fun idx (i, s) -> scalar_cmp (Printf.sprintf "%s%s[%d]" tag name idx) (f i) s) (List.combine inputs o) in
  each "auto" delays (fun d -> auto_correlation ops f32_sqrt conv m (nat_of_int d));
  each "dot" pairs (fun (i, j) -> dot ops conv m m2 (nat_of_int i) (nat_of_int j));
  each "norm" pairs (fun (i, _) -> norm ops f32_sqrt conv m (nat_of_int i));
  let one name = Option.value (geto (tag ^ name)) ~default:"?" in
  let cr = one "cross" and crr = one "crossr" in
  if cr = "?" || crr = "?" then df (tag ^ "cross-missing")
  else begin
    scalar_cmp (tag ^ "cross") (cross_correlation ops f32_sqrt conv m m2) cr;
    scalar_cmp (tag ^ "crossr") (cross_correlation ops f32_sqrt conv m2 m) crr;
    if cr = "P" || crr = "P" then pf (tag ^ "-cross_correlation-panics")
    else if not (check_corr_sym (fb (canon (int_of_string cr))) (fb (canon (int_of_string crr))))
    then pf (tag ^ "-cross_correlation-not-symmetric")
  end;
  (match periodic with
   | Some cmn ->
       let o = obs "auto" in
       if List.length o = List.length delays then
         List.iter2 (fun d s -> if s <> "P" && not (check_auto_periodic slack_corr cmn (nat_of_int d) (fb (int_of_string s)))
                      then pf (Printf.sprintf "%s-auto_correlation-of-periodic-matrix-not-1 delay=%d" tag d)) delays o
   | None -> ());
  if range then begin
    List.iter (fun s -> if s = "P" then pf (tag ^ "-auto_correlation-panics")
                else if not (check_corr_range slack_corr (fb (int_of_string s)))
                then pf (tag ^ "-auto_correlation-outside-[-1,1]")) (obs "auto");
    if cr <> "P" && cr <> "?" && not (check_corr_range slack_corr (fb (int_of_string cr)))
    then pf (tag ^ "-cross_correlation-outside-[-1,1]")
  end

let c09_stat al k get geto =
  let (_, str, _) = al in
  let wrap = (geto "prof" = Some "rel") in
  let cm = counts_stage al k get geto ~check:true in
  let cm2 = nmat (imatrix (Option.value (get "counts2") ~default:"")) in
  if geto "cm2" = Some "P" then (pf "unexpected-panic CountMatrix::new"; raise Stop);
  let add_list kind ni no =
    let i = ints (Option.value (geto ni) ~default:"") and o = ints (Option.value (geto no) ~default:"") in
    if List.length i <> List.length o then df ("oracle-shape " ^ ni) else List.iter2 (tab_add kind) i o in
  (* entropy, consensus *)
  add_list 2 "ELi" "ELo";
  let (num, den) = log2_ub k in
  (match geto "ent", entropy ops f32_neg l2 wrap cm with
   | Some "P", Panic _ -> ()
   | Some "P", _ -> pf "unexpected-panic entropy"
   | Some s, m ->
       let o = frow (ints s) in
       if not (check_entropy k num den slack_corr cm o) then pf "entropy-outside-[0,log2 K]";
       if List.length o = List.length cm then
         List.iter2 (fun row e -> if not (check_entropy_exact slack_corr row e)
                      then pf "entropy-of-one-symbol-not-0-or-of-two-equal-counts-not-1") cm o;
       (match m with
        | Ok e -> if not (row_same e o) then df (Printf.sprintf "ent model=%s" (show_frow e))
        | _ -> df "ent model-panics")
   | None, _ -> df "missing-observation ent");
  let chars = Array.of_list (List.map (fun c -> Char.chr (int_of_nat c)) str) in
  (match geto "cons", consensus ops k f32_neg l2 wrap cm with
   | Some "P", Panic _ -> ()
   | Some "P", _ -> pf "unexpected-panic consensus"
   | Some s, m ->
       let s = if String.length s >= 3 && String.sub s 0 3 = "ok:" then String.sub s 3 (String.length s - 3)
         else df_stop "bad-consensus-observation" in
       let idx c = let u = Char.uppercase_ascii c in
         let r = ref (-1) in Array.iteri (fun i x -> if Char.uppercase_ascii x = u then r := i) chars; !r in
       let js = List.init (String.length s) (fun i -> idx s.[i]) in
       if List.exists (fun j -> j < 0) js || not (check_consensus k cm (List.map nat_of_int js))
       then pf "consensus-symbol-not-a-row-maximum";
       (match m with
        | Ok l ->
            let ms = String.concat "" (List.map (fun (j, low) ->
                let c = chars.(int_of_nat j) in
                String.make 1 (if low then Char.lowercase_ascii c else Char.uppercase_ascii c)) l) in
            if ms <> s then df (Printf.sprintf "cons model=%s" ms)
        | _ -> df "cons model-panics")
   | None, _ -> df "missing-observation cons");
  corr_stage ~periodic:cm "c" conv_N cm cm2 get geto ~range:true;
  (* frequencies *)
  let pseudo = pseudo_of k (Option.get (get "ps")) in
  if geto "fq" = Some "P" then (pf "unexpected-panic to_freq"; raise Stop);
  let fq = get_fm geto "fq" and fq2 = get_fm geto "fq2" in
  same_fm "fq" (to_freq ops pseudo cm) fq;
  same_fm "fq2" (to_freq ops pseudo cm2) fq2;
  let unit_cells m = List.for_all (List.for_all (fun x ->
      let v = ocaml_float (bf x) in (not (Float.is_nan v)) && v >= 0.0 && v <= 1.0)) m in
  if not (unit_cells fq && unit_cells fq2) then skip "f-correlation-range:frequency-cells-outside-[0,1]" 1;
  corr_stage "f" conv_id fq fq2 get geto ~range:(unit_cells fq && unit_cells fq2);
  (* weights, WeightMatrix::information_content *)
  let mbg = (match res_of_bg_spec k (Option.get (get "bg")) with Ok b -> b | _ -> df_stop "stat-background-rejected") in
  if geto "bg" = Some "Err" then df_stop "background-rejected-model-accepts";
  let wm = get_fm geto "wm" and wm2 = get_fm geto "wm2" in
  let wbg = frow (ints (Option.get (geto "wbg"))) in
  if not (row_same mbg wbg) then df_stop "background-values";
  same_fm "wm" (to_weight ops wbg fq) wm;
  same_fm "wm2" (to_weight ops wbg fq2) wm2;
  add_list 2 "WLi" "WLo";
  tab_add_matrix 2 (imatrix (Option.get (geto "wm"))) (imatrix (Option.get (geto "L2")));
  tab_add_matrix 2 (imatrix (Option.get (geto "wm2"))) (imatrix (Option.get (geto "L22")));
  tab_add_matrix 3 (imatrix (Option.get (geto "sm"))) (imatrix (Option.get (geto "P2")));
  (match get "sm", geto "rP2" with
   | Some r, Some o -> tab_add_matrix 3 (imatrix r) (imatrix o)
   | _, _ -> ());
  validate_oracle_exact ();
  scalar_cmp "wic" (Ok (weight_information_content ops l2 wbg wm)) (Option.value (geto "wic") ~default:"P");
  corr_stage "w" conv_id wm wm2 get geto ~range:false;
  (* scores, ScoringMatrix::information_content, From<ScoringMatrix> for WeightMatrix *)
  let sm = get_fm geto "sm" and sm2 = get_fm geto "sm2" in
  same_fm "sm" (to_scoring ops l2 l10 ln wm) sm;
  same_fm "sm2" (to_scoring ops l2 l10 ln wm2) sm2;
  (match geto "sic" with
   | Some "P" -> pf "unexpected-panic ScoringMatrix::information_content"
   | Some v -> if not (check_sic (q_of_frac 1 1000) (q_of_frac 1 100000) wbg fq sm (fb (int_of_string v)))
       then pf "information-content-not-sum-of-frequency*score"
   | None -> ());
  scalar_cmp "sic" (Ok (scoring_information_content ops p2 wbg sm)) (Option.value (geto "sic") ~default:"P");
  corr_stage "s" conv_id sm sm2 get geto ~range:false;
  (match geto "w2" with
   | Some "P" -> pf "unexpected-panic WeightMatrix::from(ScoringMatrix)"
   | Some s ->
       let w2 = fmat (imatrix s) in
       (* 2^(log2 w) = w up to the libm error: relative 1e-4 (normal numbers), for the cells
          whose weight is finite and not negative (log2 of a negative weight is NaN) *)
       if List.length w2 <> List.length wm then pf "pow2-of-score-shape"
       else List.iter2 (fun r2 r ->
           if List.length r2 <> List.length r then pf "pow2-of-score-shape"
           else List.iter2 (fun x2 x ->
               let v = ocaml_float (bf x) in
               if (not (Float.is_nan v)) && v >= 0.0 && v < infinity
               then (if not (f32_close tiny (q_of_frac 1 10000) x2 x) then pf "pow2-of-score-not-the-weight")
               else skip "pow2-of-score:weight-nan-negative-or-inf" 1) r2 r) w2 wm;
       if not (fm_same (weight_of_scoring p2 sm) w2) then df "w2 model";
       (match geto "w2bg" with
        | Some b -> if not (row_same wbg (frow (ints b))) then pf "WeightMatrix::from(ScoringMatrix)-changed-background"
        | None -> df "missing-observation w2bg")
   | None -> df "missing-observation w2");
  (* arbitrary scoring data *)
  (match get "sm" with
   | Some r ->
       let raw = fmat (imatrix r) in
       scalar_cmp "rsic" (Ok (scoring_information_content ops p2 wbg raw)) (Option.value (geto "rsic") ~default:"P");
       (match geto "rw2" with
        | Some "P" -> pf "unexpected-panic WeightMatrix::from(raw)"
        | Some s -> if not (fm_same (weight_of_scoring p2 raw) (fmat (imatrix s))) then df "rw2 model"
        | None -> df "missing-observation rw2");
       corr_stage "r" conv_id raw sm get geto ~range:false
   | None -> ());
  (* discrete matrices: the u8 instantiation on the observed cells *)
  (match geto "dd", geto "dd2" with
   | Some "P", _ -> ()
   | Some d, Some d2 -> corr_stage "d" conv_N (nmat (imatrix d)) (nmat (imatrix d2)) get geto ~range:true
   | _, _ -> df "missing-observation dd");
  if !oracle_miss then df "oracle-miss"

(* does the usize sum of the counts overflow?  (exact, on N: more than 64 bits) *)
let total_overflows (c : n list) =
  match List.fold_left N.add N0 c with N0 -> false | Npos p -> pos_bits p > 64

let bg_result geto =
  match geto "r" with
  | Some "P" -> `P
  | Some "Err" -> `Err
  | Some s when String.length s >= 3 && String.sub s 0 3 = "Ok:" -> `Ok (String.sub s 3 (String.length s - 3))
  | _ -> df_stop "bad-result-observation"

let cmp_bg_result model obs =
  match model, obs with
  | Ok b, `Ok s -> if not (row_same b (frow (ints s))) then df (Printf.sprintf "background model=%s" (show_frow b))
  | Err _, `Err -> ()
  | _, `P -> pf "unexpected-panic"
  | Ok _, `Err -> df "rejected-model-accepts"
  | _, `Ok _ -> df "accepted-model-rejects"
  | _, _ -> df "model-result-kind"

(* property: frequencies = counts / total, Err when the total is 0 *)
let check_bg_obs name counts obs =
  let r = (match obs with
      | `Ok s -> Some (Ok (frow (ints s)))
      | `Err -> Some (Err O)
      | `P -> None) in
  match r with
  | None -> ()   (* reported as unexpected-panic by cmp_bg_result *)
  | Some r -> if not (check_bg_counts (q_of_frac 1 1000000) counts r)
      then pf (Printf.sprintf "background-%s-not-counts/total" name)

let c09_case line_in obs_s =
  let fi = fields line_in and fo = fields obs_s in
  let get k = List.assoc_opt k fi and geto k = List.assoc_opt k fo in
  let a = Option.value (get "a") ~default:"dna" in
  let al = alphabet a in
  let (k, _, _) = al in
  if List.mem_assoc "PANIC" fo then pf "unexpected-panic"
  else match Option.get (get "k") with
    | "pipe" -> c09_pipe al k get geto
    | "raw" -> c09_scores al k get geto (fmat (imatrix (Option.get (get "sm"))))
    | "stat" -> c09_stat al k get geto
    | "bgnew" ->
        let v = frow (ints (Option.get (get "v"))) in
        let obs = bg_result geto in
        (match obs with
         | `Ok s -> if bg_must_reject slack_bg v then pf "invalid-background-accepted";
             if not (row_same v (frow (ints s))) then pf "background-values-changed"
         | _ -> ());
        cmp_bg_result (bg_new ops v) obs
    | "bgcnt" ->
        (* counts are u64: parse through Int64 (OCaml's int has 63 bits) *)
        let c = List.map n_of_u64 (split ',' (Option.get (get "c"))) in
        let obs = bg_result geto in
        let wrap = (geto "prof" = Some "rel") in
        if not (total_overflows c) then check_bg_obs "from_counts" c obs
        else skip "from_counts:total-exceeds-usize" 1;
        (match bg_from_counts_ovf ops wrap c, obs with
         | Panic _, `P -> ()
         | Panic _, _ -> df "from_counts: model panics (usize overflow), implementation does not"
         | m, _ -> cmp_bg_result m obs)
    | "bgseq" ->
        let seqs = parse_seqs al (Option.get (get "seqs")) in
        let unk = Option.get (get "unk") = "1" in
        (* multi=1: from_sequences; multi=0: from_sequence(slice); multi=2: from_sequence(striped) *)
        let seqs = if Option.get (get "multi") = "1" then seqs
          else (match seqs with s :: _ -> [s] | [] -> [[]]) in
        let obs = bg_result geto in
        check_bg_obs "from_sequence(s)" (bg_counts_spec k seqs unk) obs;
        cmp_bg_result (bg_from_sequences ops k seqs unk) obs
    | "uni" -> cmp_bg_result (Ok (bg_uniform ops k)) (bg_result geto)
    | "fnew" ->
        let m = fmat (imatrix (Option.get (get "m"))) in
        let obs = bg_result geto in
        (match obs with
         | `Ok s -> if freq_must_reject (q_of_frac 1 100000) m then pf "invalid-frequency-matrix-accepted";
             if not (fm_same m (fmat (imatrix s))) then pf "frequency-data-changed"
         | _ -> ());
        (match freq_new ops m, obs with
         | Ok _, `Ok _ | Err _, `Err -> ()
         | _, `P -> pf "unexpected-panic"
         | Ok _, `Err -> df "rejected-model-accepts"
         | _, _ -> df "accepted-model-rejects")
    | kd -> df ("unknown-kind " ^ kd)

(* ---------- C10 ---------- *)
let c10_case line_in obs_s =
  let fi = fields line_in and fo = fields obs_s in
  let get k = List.assoc_opt k fi and geto k = List.assoc_opt k fo in
  let al = alphabet "dna" in
  let k = dna_K in
  if not complement_involutive_b then pf "complement-not-involutive";
  if List.mem_assoc "PANIC" fo then (pf "unexpected-panic"; raise Stop);
  let cm = counts_stage al k get geto ~check:false in
  if geto "bg" = Some "Err" then begin
    (match res_of_bg_spec k (Option.get (get "bg")) with Err _ -> () | _ -> df "background-rejected-model-accepts");
    raise Stop end;
  let gnm name = match geto name with Some s -> nmat (imatrix s) | None -> df_stop ("missing-observation " ^ name) in
  (* counts *)
  let c1 = gnm "c1" and c2 = gnm "c2" in
  if not (check_rc_N cm c1) then pf "count-rc-not-reversal+complement";
  if not (cm_same c2 cm) then pf "count-rc-twice-not-identity";
  if not (cm_same (rc_N cm) c1) then df "count-rc-model";
  if geto "c2n" <> geto "n" then pf "count-rc-twice-changed-sequence-count";
  if geto "c1n" <> geto "n" then df "count-rc-sequence-count";
  (* frequencies *)
  let psspec = Option.get (get "ps") in
  let pseudo = pseudo_of k psspec in
  let ps_sym = strand_symmetric pseudo in
  let fq = get_fm geto "fq" and f1 = get_fm geto "f1" and f2 = get_fm geto "f2" and fc = get_fm geto "fc" in
  same_fm "fq" (to_freq ops pseudo cm) fq;
  if not (check_rc_f32 fq f1) then pf "frequency-rc-not-reversal+complement";
  if not (fm_same f2 fq) then pf "frequency-rc-twice-not-identity";
  if not (fm_same (rc_f32 fq) f1) then df "frequency-rc-model";
  (* the relative tolerances of the commutation checks presuppose normal numbers: a
     subnormal frequency (smallest-normal / denormal pseudocount over a large total) has
     fewer significant bits, and the two roundings of x/s and x/s' may fall on adjacent
     subnormals; such cases are left to the bit-exact comparison with the model *)
  let normal_or_zero x =
    is_zero x || (let v = Float.abs (ocaml_float (bf x)) in Float.is_nan v || v >= 1.17549435e-38) in
  let wellcond = List.for_all (List.for_all normal_or_zero) fq && List.for_all (List.for_all normal_or_zero) fc in
  if ps_sym && not wellcond then skip "rc-commutation:subnormal-frequency" 1;
  let ps_sym = ps_sym && wellcond in
  if ps_sym && not (fm_close zero_q rel_c f1 fc) then pf "rc-does-not-commute-with-to_freq";
  same_fm "fc" (to_freq ops pseudo c1) fc;
  (* weights *)
  let wbg = frow (ints (Option.get (geto "wbg"))) in
  (match res_of_bg_spec k (Option.get (get "bg")) with
   | Ok b -> if not (row_same b wbg) then df_stop "background-values"
   | _ -> df_stop "background-accepted-model-rejects");
  let bg_sym = strand_symmetric wbg in
  let wm = get_fm geto "wm" and w1 = get_fm geto "w1" and w2 = get_fm geto "w2"
  and wc = get_fm geto "wc" and wcc = get_fm geto "wcc" in
  same_fm "wm" (to_weight ops wbg fq) wm;
  if not (check_rc_f32 wm w1) then pf "weight-rc-not-reversal+complement";
  if not (fm_same w2 wm) then pf "weight-rc-twice-not-identity";
  if not (row_same wbg (frow (ints (Option.get (geto "w1bg"))))) then pf "weight-rc-changed-background";
  if not (fm_same (rc_f32 wm) w1) then df "weight-rc-model";
  if bg_sym && not (fm_close zero_q rel_c w1 wc) then pf "rc-does-not-commute-with-to_weight";
  if bg_sym && ps_sym && not (fm_close zero_q rel_c w1 wcc) then pf "rc-does-not-commute-with-to_freq+to_weight";
  same_fm "wc" (to_weight ops wbg f1) wc;
  same_fm "wcc" (to_weight ops wbg fc) wcc;
  (* scores *)
  tab_add_matrix 2 (imatrix (Option.get (geto "wm"))) (imatrix (Option.get (geto "L2")));
  tab_add_matrix 2 (imatrix (Option.get (geto "wcc"))) (imatrix (Option.get (geto "L2c")));
  tab_add 2 0 (int_of_string (Option.get (geto "l2z")));
  validate_oracle ();
  let sc = get_fm geto "sc" and s1 = get_fm geto "s1" and s2 = get_fm geto "s2"
  and scw = get_fm geto "scw" and scc = get_fm geto "scc" in
  same_fm "sc" (to_scoring ops l2 l10 ln wm) sc;
  if not (check_rc_f32 sc s1) then pf "scoring-rc-not-reversal+complement";
  if not (fm_same s2 sc) then pf "scoring-rc-twice-not-identity";
  if not (fm_same (rc_f32 sc) s1) then df "scoring-rc-model";
  if not (fm_same s1 scw) then pf "rc-does-not-commute-with-to_scoring";
  if bg_sym && ps_sym && not (fm_close abs_s rel_s s1 scc) then pf "rc-does-not-commute-with-count->score";
  same_fm "scc" (into_scoring ops l2 wbg fc) scc;
  if !oracle_miss then df "oracle-miss";
  (* arbitrary scoring matrix *)
  let sm = fmat (imatrix (Option.get (get "sm"))) in
  let r1 = get_fm geto "r1" and r2 = get_fm geto "r2" in
  if not (check_rc_f32 sm r1) then pf "scoring-rc-not-reversal+complement (raw)";
  if not (fm_same r2 sm) then pf "scoring-rc-twice-not-identity (raw)";
  if not (fm_same (rc_f32 sm) r1) then df "raw-rc-model";
  let gbg name = match geto name with Some b -> frow (ints b) | None -> df_stop ("missing-observation " ^ name) in
  List.iter (fun name ->
      if not (row_same wbg (gbg name)) then pf (Printf.sprintf "rc-twice-changed-background %s" name))
    ["w2bg"; "s2bg"; "r2bg"];
  List.iter (fun name ->
      if not (row_same wbg (gbg name)) then df (Printf.sprintf "rc-background-model %s" name))
    ["s1bg"; "r1bg"];
  (* both strands *)
  let seq = parse_seq al (Option.value (get "seq") ~default:"-") in
  let rseq = parse_seq al (Option.get (geto "rseq")) in
  if rseq <> rc_seq_dna seq then pf "sequence-complement-differs-from-table";
  let cols = nat_of_int (int_of_string (Option.value (get "cols") ~default:"32")) in
  let l = List.length seq and m = List.length sm in
  let win = Array.of_list (split ',' (Option.value (geto "win") ~default:"")) in
  let rwin = Array.of_list (split ',' (Option.value (geto "rwin") ~default:"")) in
  let nwin = if l >= m then l - m + 1 else 0 in
  if Array.length win <> nwin || Array.length rwin <> nwin then df "win-count"
  else for i = 0 to nwin - 1 do
      let w = win.(i) and r = rwin.(l - m - i) in
      if w = "P" || r = "P" then pf (Printf.sprintf "unexpected-panic score_position %d" i)
      else begin
        let wv = fb (int_of_string w) and rv = fb (int_of_string r) in
        let terms = window_terms ops sm seq (nat_of_int i) in
        if mirror_skipped terms wv rv then skip "mirror:nan-or-inf" 1;
        if not (check_mirror terms wv rv)
        then pf (Printf.sprintf "mirrored-score-differs pos=%d fwd=%s rev=%s" i w r);
        (match score_position ops k cols sm seq (nat_of_int i) with
         | Ok v -> if bf v <> canon (int_of_string w) then df (Printf.sprintf "win[%d] model=%d" i (bf v))
         | _ -> df (Printf.sprintf "win[%d] model-panics" i));
        (match score_position ops k cols r1 rseq (nat_of_int (l - m - i)) with
         | Ok v -> if bf v <> canon (int_of_string r) then df (Printf.sprintf "rwin[%d] model=%d" (l - m - i) (bf v))
         | _ -> df (Printf.sprintf "rwin[%d] model-panics" (l - m - i)))
      end
    done

(* ---------- main ---------- *)
let () =
  let which = if Array.length Sys.argv > 1 then Sys.argv.(1) else "c09" in
  try
    while true do
      let line = input_line stdin in
      if String.length line > 0 && line.[0] <> '#' then begin
        let (inp, obs) =
          match Str.bounded_split_delim (Str.regexp_string " =>") line 2 with
          | [a; b] -> (a, b) | [a] -> (a, "") | _ -> (line, "") in
        let id = List.hd (String.split_on_char ' ' inp) in
        propfail := None; diff := None; oracle_miss := false; skips := []; Hashtbl.reset tab;
        (try
           if which = "c10" then c10_case inp obs else c09_case inp obs
         with
         | Stop -> ()
         | Not_found | Failure _ | Invalid_argument _ as e -> df ("driver-exception " ^ Printexc.to_string e));
        (match !propfail, !diff with
         | Some s, _ -> print_endline (id ^ " PROPFAIL " ^ s)
         | None, Some s -> print_endline (id ^ " DIFF " ^ s)
         | None, None -> print_endline (id ^ " OK" ^ show_skips ()))
      end
    done
  with End_of_file -> ()
