(* Driver for the extracted striping model (property C04).
   Reads observation lines produced by `stripe run` on stdin:
     <id> A=<alphabet> K=<k> C=<cols> idx=<i,..> ops=<op;op;...> => <obs>;<obs>;...
   (formats: see harness/src/bin/stripe.rs) and prints one verdict line per case:
     <id> OK | <id> PROPFAIL <why> | <id> DIFF <why>

   PROPFAIL: the implementation's own observation contradicts the property: decided
   by the extracted checker [check_C04] (proved sound: C04.C04_check_sound) on the
   implementation's matrix / len / wrap / Index results / counts with respect to the
   sequence striped last and the generic-versus-AVX2 comparison made by the harness
   ("backend-mismatch"), or an op of the history panicked (C04_striped_history: none may).
   DIFF: the observation differs from the extracted model's (matrix, len, wrap,
   Index results incl. panics, counts) although the property checker passed.
   The model is run through step3 (PliT.v): the provided Stripe::stripe / stripe_into are the TRANSLATED
   statement lists of pli/mod.rs (PliT.v over GenPli.v), configure / configure_wrap / Index /
   count_symbol(s) are the TRANSLATED statement lists of seq.rs (SeqT.v over GenSeq.v);
   `cl` (Clone) is the identity on the state, `fe` (From<EncodedSequence>) = to_striped with the forced arm,
   `vm` (DenseMatrix::from + StripedSequence::new) keeps the matrix and resets wrap;
   `sm` ops take the stream of draws from the observation (oracle), `nw` ops the matrix
   from the input; after them the padding is arbitrary and check_C04_pad decides. *)
open Stripe_model

let nat_cache = Array.make 4096 O
let () = for i = 1 to 4095 do nat_cache.(i) <- S nat_cache.(i - 1) done
let nat_of_int n =
  if n < 4096 then nat_cache.(max n 0)
  else begin
    let r = ref nat_cache.(4095) in
    for _ = 4096 to n do r := S !r done;
    !r
  end
let int_of_nat n = let rec go acc = function O -> acc | S m -> go (acc + 1) m in go 0 n

let split c s = if s = "" then [] else String.split_on_char c s

let kv tok = match String.index_opt tok '=' with
  | Some i -> (String.sub tok 0 i, String.sub tok (i + 1) (String.length tok - i - 1))
  | None -> (tok, "")

let seq_of_string s : nat list =
  if s = "-" then [] else List.init (String.length s) (fun i -> nat_of_int (Char.code s.[i] - 97))

let string_of_seq (l : nat list) : string =
  if l = [] then "-" else String.concat "" (List.map (fun x -> String.make 1 (Char.chr (97 + int_of_nat x))) l)

let row_string (l : nat list) : string =
  String.concat "" (List.map (fun x -> let v = int_of_nat x in if v < 26 then String.make 1 (Char.chr (97 + v)) else "?") l)

let matrix_string (m : nat list list) : string =
  if m = [] then "-" else String.concat "/" (List.map row_string m)

let matrix_of_string s : nat list list =
  if s = "-" then [] else List.map (fun r -> List.init (String.length r) (fun i -> nat_of_int (Char.code r.[i] - 97))) (split '/' s)

let backend_of = function
  | "g" -> BGeneric | "a" -> BAvx2
  | "dg" -> BDispatch AGeneric | "ds" -> BDispatch ASse2 | "da" -> BDispatch AAvx2
  (* the dispatcher compiled for arm / aarch64: replayed through the generic pipeline when the
     regenerated arm table (disp_stripe_arm) names the generic kernel; anything else cannot
     be replayed on this host *)
  | "ng" -> (match disp_stripe_arm NGeneric with KGeneric -> BGeneric | KAvx2 -> failwith "arm table: Generic arm names a kernel that cannot be replayed")
  | "nn" -> (match disp_stripe_arm NNeon with KGeneric -> BGeneric | KAvx2 -> failwith "arm table: Neon arm names a kernel that cannot be replayed")
  | b -> failwith ("bad backend " ^ b)

type rawop = R1 of op | RSample of int | RNew of nat list list * int | RClone | RFromEnc of arm * nat list | RVia

let parse_op c s : rawop =
  match String.split_on_char ':' s with
  | ["si"; b; q] ->
      if (b = "ng" || b = "nn") && int_of_nat disp_lanes_arm <> c then failwith "arm dispatcher at a column count that is not its lane count";
      R1 (OStripeInto (backend_of b, seq_of_string q))
  | ["st"; b; q] ->
      if (b = "ng" || b = "nn") && int_of_nat disp_lanes_arm <> c then failwith "arm dispatcher at a column count that is not its lane count";
      R1 (OStripe (backend_of b, seq_of_string q))
  | ["cf"; m] -> R1 (OConfigure (nat_of_int (int_of_string m)))
  | ["cw"; k] -> R1 (OConfigureWrap (nat_of_int (int_of_string k)))
  | ["sm"; _; n] -> RSample (int_of_string n)
  | ["nw"; n; rows] -> RNew (matrix_of_string rows, int_of_string n)
  | ["cl"] -> RClone
  | ["vm"] -> RVia
  | ["fe"; b; q] ->
      (match backend_of b with
       | BDispatch a -> RFromEnc (a, seq_of_string q)
       | _ -> failwith "From<EncodedSequence> only exists through the dispatching pipeline")
  | _ -> failwith ("bad op " ^ s)

let show_res_sym = function
  | Ok v -> String.make 1 (Char.chr (97 + int_of_nat v))
  | Panic _ -> "P"
  | Err _ -> "E"
  | OutOfFuel -> "F"

let ints_string (l : nat list) = String.concat "," (List.map (fun x -> string_of_int (int_of_nat x)) l)

let () =
  try
    while true do
      let line = input_line stdin in
      if String.length line > 0 && line.[0] <> '#' then begin
        let (inp, obs) =
          match Str.bounded_split_delim (Str.regexp_string " => ") line 2 with
          | [a; b] -> (a, b) | [a] -> (a, "") | _ -> failwith "bad line" in
        let toks = String.split_on_char ' ' inp in
        let id = List.hd toks in
        let verdict = ref "OK" in
        (* a PROPFAIL overrides an earlier DIFF; the first of each kind is kept *)
        let propfail s = if String.length !verdict < 8 || String.sub !verdict 0 8 <> "PROPFAIL" then verdict := "PROPFAIL " ^ s in
        let diff s = if !verdict = "OK" then verdict := "DIFF " ^ s in
        (try
          let fields = List.map kv (List.tl toks) in
          let get k = List.assoc k fields in
          let k = int_of_string (get "K") in
          let c = int_of_string (get "C") in
          let kn = nat_of_int k and cn = nat_of_int c in
          let idx = List.map int_of_string (split ',' (try get "idx" with Not_found -> "")) in
          let ops = List.map (parse_op c) (split ';' (get "ops")) in
          let obs_items = split ';' obs in
          let model = ref (Ok s_default) in
          let last = ref [] in
          (* after sample / new the padding is arbitrary: the weaker checker check_C04_pad
             (C04_check_pad_sound) decides until the next stripe op *)
          let pad = ref false in
          let rec walk n ops obs_items =
            match ops, obs_items with
            | [], [] -> ()
            | [], _ -> diff "too-many-observations"
            | _ :: _, [] -> diff (Printf.sprintf "op%d missing-observation" n)
            | ro :: orest, ob :: obrest ->
                let fields = String.split_on_char '|' ob in
                let extra = (match fields with [_; _; _; _; _; _; _; _; _; x] -> x | _ -> "-") in
                (* complete the op with the stream oracle of the observation *)
                let o3 = (match ro with
                  | R1 o -> O2 (O1 o)
                  | RClone -> OClone
                  | RVia -> OViaMatrix
                  | RFromEnc (a, q) -> OFromEnc (a, q)
                  | RNew (m, l) -> O2 (ONew (m, nat_of_int l))
                  | RSample l ->
                      (match String.split_on_char ',' extra with
                       | [d; e] ->
                           let draws = seq_of_string d and enc = seq_of_string e in
                           if List.exists (fun x -> int_of_nat x >= k) draws then propfail (Printf.sprintf "op%d sample draw is not a symbol" n);
                           (* EncodedSequence::sample(n) = the first n draws of the same stream *)
                           if enc <> enc_sample (fun i -> List.nth draws (int_of_nat i)) (nat_of_int l) then
                             propfail (Printf.sprintf "op%d encoded-sample is not the first %d draws" n l);
                           O2 (OSample (draws, nat_of_int l))
                       | _ -> if ob <> "P" then diff (Printf.sprintf "op%d no-stream-oracle" n); O2 (OSample ([], nat_of_int l)))) in
                let before = !model in
                let m' = (match before with Ok st -> step3 kn cn st o3 | r -> r) in
                (* the op2 the op amounts to (ONew of the current matrix for vm) *)
                let o2 = (match o3, before with
                  | O2 o, _ -> o
                  | OFromEnc (a, q), _ -> O1 (OStripe (BDispatch a, q))
                  | OViaMatrix, Ok st -> ONew (st.mat, st.slen)
                  | _, _ -> O1 (OConfigureWrap O)) in
                (* the sequence the buffer holds afterwards *)
                (match o3, before, m' with
                 | O2 (O1 (OStripeInto (_, q))), _, _ | O2 (O1 (OStripe (_, q))), _, _ | OFromEnc (_, q), _, _ -> last := q
                 | O2 (O1 _), _, _ | OClone, _, _ -> ()
                 | O2 (OSample _ | ONew _), _, Ok _ -> last := seq_after1 kn cn !last o2
                 (* DenseMatrix::from + new: the identity without look-ahead rows (C04_conversions_spec); with
                    look-ahead rows they become sequence rows and the logical sequence is re-read *)
                 | OViaMatrix, Ok st, Ok _ -> if st.swrap <> O then last := seq_after3_1 kn cn !last st o3
                 | _, _, _ -> ());
                (* the padding mode = which checker decides: the extracted Mode.pad_after1 (C04_mode_history);
                   an op that did not take place (Err / model failure) leaves it *)
                (match before, m' with
                 | Ok st, Ok _ -> pad := pad_after1 !pad st o3
                 | _, _ -> ());
                if ob = "E" then begin
                  (* StripedSequence::new returned Err(InvalidData): the buffer is unchanged *)
                  (match m' with
                   | Err _ -> ()
                   | _ -> (match o2 with
                           | ONew (m, l) when List.length m * c >= int_of_nat l && List.for_all (fun r -> List.length r = c) m ->
                               propfail (Printf.sprintf "op%d new rejects a matrix that holds the sequence" n);
                               (* vm took the buffer before new failed *)
                               (match o3 with OViaMatrix -> model := Ok s_default | _ -> ())
                           | _ -> diff (Printf.sprintf "op%d Err but the model succeeds" n)));
                  walk (n + 1) orest obrest
                end else begin
                (match m', ob with
                 | Err _, _ when ob <> "P" ->
                     (match o2 with
                      | ONew _ -> propfail (Printf.sprintf "op%d new accepts a matrix smaller than the sequence" n)
                      | _ -> ())
                 | _ -> ());
                model := (match m' with Err _ -> !model | r -> r);
                let m' = !model in
                if ob = "P" then begin
                  (* no operation of a history may panic *)
                  propfail (Printf.sprintf "op%d unexpected-panic" n);
                  (match m' with Ok _ -> () | _ -> ())
                end else begin
                  (match String.split_on_char '|' ob with
                   | [len; wrap; rows; mstr; ix; counts; count1; bm; all; _] ->
                       (* the harness marks len with `!` when is_empty() <> (len() = 0) or an as_ref() is not the
                          object / its matrix (hand-written path) *)
                       let len = if String.length len > 0 && len.[0] = '!' then begin
                           propfail (Printf.sprintf "op%d is_empty() / as_ref() inconsistent with len() / matrix()" n);
                           String.sub len 1 (String.length len - 1) end else len in
                       let ilen = int_of_string len and iwrap = int_of_string wrap and irows = int_of_string rows in
                       let imat = matrix_of_string mstr in
                       let ist = { mat = imat; slen = nat_of_int ilen; swrap = nat_of_int iwrap } in
                       let s = !last in
                       let sl = List.length s in
                       (* --- the property, on the implementation's own output: decided by the
                          extracted checker check_C04 (C04.C04_check_sound); the sub-checkers are
                          only re-run to name what failed --- *)
                       let ixs = if ix = "-" then "" else ix in
                       let ix_ok = String.length ixs = List.length idx in
                       if not ix_ok then diff (Printf.sprintf "op%d index-observation-count" n);
                       let res_of_char ch = if ch = 'P' then Panic O else Ok (nat_of_int (Char.code ch - 97)) in
                       let o_index = if ix_ok then List.mapi (fun j i -> (nat_of_int i, res_of_char ixs.[j])) idx else [] in
                       let res_of_counts str =
                         if str = "P" then Panic O
                         else (try Ok (List.map (fun x -> nat_of_int (int_of_string x)) (split ',' str)) with _ -> Panic O) in
                       (* generic versus AVX2 on clones of the buffer: the harness prints both states, the
                          extracted check_agree (C04_check_agree_sound) decides; a panic of either is a mismatch *)
                       let bmdetail = ref bm in
                       let agree =
                         if bm = "n" then true
                         else if String.length bm > 0 && bm.[0] = '!' then false
                         else (match String.split_on_char '~' bm with
                               | [g; a] ->
                                   let st_of x = (match String.split_on_char ',' x with
                                     | [l; w; m] -> { mat = matrix_of_string m; slen = nat_of_int (int_of_string l); swrap = nat_of_int (int_of_string w) }
                                     | _ -> failwith "bad backend-comparison field") in
                                   let gs = st_of g and avs = st_of a in
                                   let okb = check_agree kn cn s gs avs in
                                   if not okb then begin
                                     let gm = Array.of_list gs.mat and am = Array.of_list avs.mat in
                                     bmdetail :=
                                       if gs.slen <> avs.slen then Printf.sprintf "!len:%d:%d" (int_of_nat gs.slen) (int_of_nat avs.slen)
                                       else if gs.swrap <> avs.swrap then Printf.sprintf "!wrap:%d:%d" (int_of_nat gs.swrap) (int_of_nat avs.swrap)
                                       else if Array.length gm <> Array.length am then Printf.sprintf "!rows:%d:%d" (Array.length gm) (Array.length am)
                                       else begin
                                         let r = ref 0 in
                                         while !r < Array.length gm && gm.(!r) = am.(!r) do incr r done;
                                         if !r < Array.length gm then Printf.sprintf "!row%d:%s:%s" !r (row_string gm.(!r)) (row_string am.(!r))
                                         else "!both-kernels-wrong-in-the-same-way"
                                       end
                                   end;
                                   okb
                               | _ -> bmdetail := "!bad-backend-comparison-field"; false) in
                       let o_all = if String.contains all 'P' then Panic O else Ok (seq_of_string all) in
                       let ob = { o_st = ist; o_index = o_index; o_all = o_all; o_counts = res_of_counts counts;
                                  o_count1 = res_of_counts count1; o_agree = agree } in
                       if irows <> List.length imat then propfail (Printf.sprintf "op%d rows()=%d but %d rows listed" n irows (List.length imat))
                       else if not (check_mode kn cn !pad s ob) then begin
                         let lc = ints_string (lin_counts kn s) in
                         if List.exists (fun r -> List.length r <> c) imat then propfail (Printf.sprintf "op%d row-width" n)
                         else if !pad && not (check_pad kn cn s ist) then
                           propfail (Printf.sprintf "op%d not-padded-striped len=%d/%d wrap=%d rows=%d C=%d" n ilen sl iwrap irows c)
                         else if (not !pad) && not (check_striped kn cn s ist) then
                           propfail (Printf.sprintf "op%d not-striped len=%d/%d wrap=%d rows=%d C=%d" n ilen sl iwrap irows c)
                         else if not (check_wrap_rows kn ist) then propfail (Printf.sprintf "op%d wrap-row-shift" n)
                         else if o_all <> Ok s then begin
                           let exp = string_of_seq s in
                           let j = ref 0 in
                           while !j < String.length all && !j < String.length exp && all.[!j] = exp.[!j] do incr j done;
                           propfail (Printf.sprintf "op%d index-all first difference at %d (%d indexed, len %d)" n !j (if all = "-" then 0 else String.length all) sl)
                         end
                         else if counts <> lc then propfail (Printf.sprintf "op%d count_symbols %s expected %s" n counts lc)
                         else if count1 <> lc then propfail (Printf.sprintf "op%d count_symbol %s expected %s" n count1 lc)
                         else if not agree then propfail (Printf.sprintf "op%d backend-mismatch %s" n !bmdetail)
                         else if (not !pad) && not (check_index_beyond kn cn s ob) then begin
                           let rc = int_of_nat (seq_rows cn (nat_of_int sl)) * c in
                           List.iteri (fun j i ->
                               if i >= sl && ix_ok then begin
                                 if i < rc && ixs.[j] <> Char.chr (97 + k - 1) then
                                   propfail (Printf.sprintf "op%d index[%d]=%c in the padding, expected the wildcard" n i ixs.[j])
                                 else if i >= rc && ixs.[j] <> 'P' then
                                   propfail (Printf.sprintf "op%d index[%d]=%c beyond the matrix, expected a panic" n i ixs.[j])
                               end) idx;
                           propfail (Printf.sprintf "op%d index-beyond-end" n)
                         end
                         else begin
                           List.iteri (fun j i ->
                               if i < sl && ix_ok then begin
                                 let expect = Char.chr (97 + int_of_nat (List.nth s i)) in
                                 if ixs.[j] <> expect then
                                   propfail (Printf.sprintf "op%d index[%d]=%c expected %c" n i ixs.[j] expect)
                               end) idx;
                           propfail (Printf.sprintf "op%d check_C04" n)
                         end
                       end;
                       (* --- the model --- *)
                       (match m' with
                        | Ok mst ->
                            let ml = int_of_nat mst.slen and mw = int_of_nat mst.swrap in
                            if ml <> ilen then diff (Printf.sprintf "op%d len %d model %d" n ilen ml)
                            else if mw <> iwrap then diff (Printf.sprintf "op%d wrap %d model %d" n iwrap mw)
                            else if List.length mst.mat <> irows then diff (Printf.sprintf "op%d rows %d model %d" n irows (List.length mst.mat))
                            else if matrix_string mst.mat <> mstr then diff (Printf.sprintf "op%d matrix" n)
                            else begin
                              let mix = String.concat "" (List.map (fun i -> show_res_sym (s_index_t kn cn mst (nat_of_int i))) idx) in
                              if mix <> ixs then diff (Printf.sprintf "op%d index %s model %s" n ixs mix);
                              (* the model's own counting loops (unary arithmetic, 0.02 s per call at
                                 L = 1000, 0.25 s at L = 3000) are evaluated for sequences up to 300 symbols
                                 and after the last op of every history; the implementation's counts are compared with
                                 the linear sequence after EVERY op above (check_C04), and the model's
                                 counts are proved equal to those (C04_count_symbols_spec) *)
                              let heavy = sl <= 300 || obrest = [] in
                              if heavy then begin
                              (match count_symbols_t kn cn mst with
                               | Ok l -> if ints_string l <> counts then diff (Printf.sprintf "op%d count_symbols model %s" n (ints_string l))
                               | _ -> if counts <> "P" then diff (Printf.sprintf "op%d count_symbols model-panics" n));
                              let c1 = Array.of_list (split ',' count1) in
                              List.iter (fun x ->
                                  match count_symbol_t kn cn mst (nat_of_int x) with
                                  | Ok v -> if Array.length c1 <> k || c1.(x) <> string_of_int (int_of_nat v) then
                                              diff (Printf.sprintf "op%d count_symbol(%d) model %d" n x (int_of_nat v))
                                  | _ -> if count1 <> "P" then diff (Printf.sprintf "op%d count_symbol model-panics" n))
                                (if sl <= 300 then List.sort_uniq compare [0; k - 1; (n + sl) mod k] else [(n + sl) mod k])
                              end
                            end
                        | Panic site -> diff (Printf.sprintf "op%d model-panics site %d" n (int_of_nat site))
                        | Err e -> diff (Printf.sprintf "op%d model-err %d" n (int_of_nat e))
                        | OutOfFuel -> diff (Printf.sprintf "op%d model-out-of-fuel" n))
                   | _ -> diff (Printf.sprintf "op%d bad-observation" n));
                  walk (n + 1) orest obrest
                end
                end
          in
          walk 0 ops obs_items
        with e -> diff ("driver-exception " ^ Printexc.to_string e));
        print_endline (id ^ " " ^ !verdict)
      end
    done
  with End_of_file -> ()
