(* Driver for the extracted TRANSFAC reader model (properties C14 and C15, group transfac).

   usage: driver c14 | driver c15      (stdin: observation lines of `transfac c14|c15 run`)

   For every case the implementation's outcome sequences (one per chunking) are
     - checked against the property by the checkers extracted from Coq
       (Checkers.check_c14 / check_c15)                                   -> PROPFAIL
     - compared outcome by outcome with the extracted reader + parser model, run on
       the single-chunk stream and on the random chunking of the case      -> DIFF
   and, for canonical C14 cases, the bytes written by the harness' printer are compared
   with the Coq printer (TransfacPrint.print_file)                          -> DIFF.

   No verdict fails open (wave 3): a comparison that cannot be made is a DIFF, never a silent OK --
     a line echoed as `skip` must belong to the io group (carry a `fmt=` token other than transfac);
     a record outcome without its two to_freq fields                       -> DIFF to_freq-not-observed;
     a bundled file must say inst=1 (it is an instance of C14.reader_roundtrip: recogniser + extracted
     wf_file / print_file, records compared with expected_record) or inst=0 (it is declared not to be one:
     record count, chunking independence and model comparison only; counted by the SPEC histogram);
     the static fact "parse.rs uses no streaming combinator the model does not handle" is re-evaluated by
     the extracted TransfacCur.parse_streaming_modelled                     -> DIFF on every case.
   PROPFAIL is decided by extracted, proved checkers only: check_c15p (C15), check_c14p, check_same_chunkings
   and check_count (C14); their arguments (expected records of a generated case, `nrec` of a bundled file)
   come from the input line -- the harness' generator / the corpus are the oracle for what was written. *)
open Transfac_model

(* ---- conversions ---- *)
let rec nat_of_int n = if n <= 0 then O else S (nat_of_int (n - 1))
let rec int_of_nat = function O -> 0 | S n -> 1 + int_of_nat n
let rec pos_of_int n =
  if n = 1 then XH else if n land 1 = 0 then XO (pos_of_int (n lsr 1)) else XI (pos_of_int (n lsr 1))
let n_of_int n = if n = 0 then N0 else Npos (pos_of_int n)
let z_of_int n = if n = 0 then Z0 else if n > 0 then Zpos (pos_of_int n) else Zneg (pos_of_int (-n))
let rec int_of_pos = function XH -> 1 | XO p -> 2 * int_of_pos p | XI p -> 2 * int_of_pos p + 1
let int_of_z = function Z0 -> 0 | Zpos p -> int_of_pos p | Zneg p -> - (int_of_pos p)
let int_of_n = function N0 -> 0 | Npos p -> int_of_pos p

let byte_tab : byte array =
  Array.init 256 (fun i -> match byte_of_N (n_of_int i) with Some b -> b | None -> failwith "byte")
let int_of_byte (b : byte) = int_of_n (byte_to_N b)

let hexval c = match c with
  | '0'..'9' -> Char.code c - 48 | 'a'..'f' -> Char.code c - 87 | 'A'..'F' -> Char.code c - 55
  | _ -> failwith "hex"

(* hex string -> byte list (built from the end, no deep recursion) *)
let bytes_of_hex (s : string) : byte list =
  let n = String.length s / 2 in
  let acc = ref [] in
  for i = n - 1 downto 0 do
    acc := byte_tab.(16 * hexval s.[2 * i] + hexval s.[2 * i + 1]) :: !acc
  done;
  !acc

let bytes_of_string (s : string) : byte list =
  let acc = ref [] in
  for i = String.length s - 1 downto 0 do acc := byte_tab.(Char.code s.[i]) :: !acc done;
  !acc

let string_of_bytes (l : byte list) : string =
  let b = Buffer.create 64 in
  List.iter (fun x -> Buffer.add_char b (Char.chr (int_of_byte x))) l;
  Buffer.contents b

let split c s = if s = "" then [] else String.split_on_char c s

let opt_str s = if s = "-" then None else Some (bytes_of_hex (String.sub s 1 (String.length s - 1)))

let kv tok = match String.index_opt tok '=' with
  | Some i -> (String.sub tok 0 i, String.sub tok (i + 1) (String.length tok - i - 1))
  | None -> (tok, "")

(* ---- chunkings (same order as the harness: caps, then the cyclic pattern) ---- *)

(* chunks of the sizes given by [next_size] *)
let chunk_with (next_size : unit -> int) (data : byte list) : byte list list =
  let rec take k l acc = if k = 0 then (List.rev acc, l) else match l with
    | [] -> (List.rev acc, [])
    | x :: t -> take (k - 1) t (x :: acc) in
  let rec go l acc = match l with
    | [] -> List.rev acc
    | _ -> let (c, r) = take (max 1 (next_size ())) l [] in go r (c :: acc) in
  go data []

let chunk_pattern (pat : int list) data =
  let a = Array.of_list pat in
  let k = ref 0 in
  chunk_with (fun () -> let v = a.(!k mod Array.length a) in incr k; v) data

(* scripted stream (harness EvChunked): events `.`-joined, `Eo` = fill_buf fails, `Ei` = fill_buf is
   interrupted, `Ez` = fill_buf returns an empty slice once (transient end of input), <n> = the next n bytes become available (skipped when no byte is left); when the script
   is used up the rest of the data comes as one chunk *)
let estream_of_script (script : string) (data : byte list) : ev list =
  let rec take k l acc = if k = 0 then (List.rev acc, l) else match l with
    | [] -> (List.rev acc, [])
    | x :: t -> take (k - 1) t (x :: acc) in
  let rec go evs l acc = match evs with
    | [] -> List.rev (if l = [] then acc else EData l :: acc)
    | "Eo" :: r -> go r l (EFail :: acc)
    | "Ei" :: r -> go r l (EIntr :: acc)
    | "Ez" :: r -> go r l (EEof :: acc)
    | n :: r ->
        if l = [] then go r l acc
        else let (c, l') = take (max 1 (int_of_string n)) l [] in go r l' (EData c :: acc) in
  go (split '.' script) data []

(* ---- observations ---- *)

let parse_matrix prefix s : z list list option =
  if s = "-" then None
  else begin
    assert (s.[0] = prefix);
    let body = String.sub s 1 (String.length s - 1) in
    Some (List.map (fun r -> List.map (fun x -> z_of_int (int_of_string x)) (split ',' r)) (split '/' body))
  end

let parse_refs s : oref list =
  if s = "-" then [] else
  List.map (fun r -> match String.split_on_char ',' r with
    | [l; x; t; k; p] ->
        { or_local = n_of_int (int_of_string l); or_xref = opt_str x; or_title = opt_str t;
          or_link = opt_str k; or_pmid = opt_str p }
    | _ -> failwith "ref") (String.split_on_char '/' s)

exception Unknown_outcome of string

let parse_outcome (s : string) : obs =
  if s = "END" then BEnd
  else if s = "E:io" then BErr EIo
  else if s = "E:nom" then BErr ENom
  else if s = "PANIC" then BPanic
  else if s = "HANG" || s = "NOPROGRESS" then BHang
  else match String.split_on_char ':' s with
    | ["R"; id; ac; na; de; data; refs; counts] | ["R"; id; ac; na; de; data; refs; counts; _; _] ->
        BRec { o_id = opt_str id; o_ac = opt_str ac; o_name = opt_str na; o_desc = opt_str de;
               o_data = parse_matrix 'm' data; o_refs = parse_refs refs; o_counts = parse_matrix 'c' counts }
    | _ -> raise (Unknown_outcome s)

let parse_seq (s : string) : obs list = List.map parse_outcome (split '|' s)

(* ---- expected records of a generated C14 case ---- *)

let parse_prec (s : string) : prec * reference list option =
  match String.split_on_char ':' s with
  | id :: ac :: na :: de :: syms :: rows :: refs :: more ->
      let rows = List.map (fun r -> match String.split_on_char ',' r with
        | l :: toks ->
            let (toks, tail) = match List.rev toks with
              | t :: rest when String.length t > 0 && t.[0] = '~' ->
                  (List.rev rest, bytes_of_hex (String.sub t 1 (String.length t - 1)))
              | _ -> (toks, []) in
            (bytes_of_string l, toks, tail)
        | [] -> failwith "row") (split '/' rows) in
      let refs = if refs = "-" then [] else
        List.map (fun r -> match String.split_on_char ',' r with
          | [l; x; t; k; p] ->
              { ref_local = n_of_int (int_of_string l); ref_xref = opt_str x; ref_title = opt_str t;
                ref_link = opt_str k; ref_pmid = opt_str p }
          | _ -> failwith "ref") (String.split_on_char '/' refs) in
      let (po, sep, order) = match more with
        | po :: sep :: rest ->
            (po = "1", (match opt_str sep with Some b -> b | None -> []),
             (match rest with [o] when o <> "-" && o <> "" -> Some (String.split_on_char ',' o) | _ -> None))
        | _ -> (false, bytes_of_string "  ", None) in
      (* own blanks of a symbol / count: "<sephex>^<text>", else the record's separator *)
      let with_sep (e : string) = match String.index_opt e '^' with
        | Some i -> (bytes_of_hex (String.sub e 0 i), bytes_of_string (String.sub e (i + 1) (String.length e - i - 1)))
        | None -> (sep, bytes_of_string e) in
      let rows = List.map (fun (l, toks, tail) ->
        { pr_label = l; pr_toks = List.map with_sep toks; pr_tail = tail }) rows in
      let syms_b : (byte list * byte) list =
        if syms = "-" then []
        else if String.contains syms '^' then
          List.map (fun e -> match with_sep e with (h, [c]) -> (h, c) | _ -> failwith "sym") (String.split_on_char ',' syms)
        else List.map (fun c -> (sep, c)) (bytes_of_string syms) in
      let fldp k pad v = match opt_str v with Some x -> [IField (k, pad, x)] | None -> [] in
      let fld k v = fldp k (bytes_of_string "  ") v in
      let matrix = if syms_b = [] then [] else [IMatrix (po, syms_b, rows)] in
      let rec string_of_n_dec n = string_of_int (int_of_n n) in
      let ref_item (x : reference) =
        IRef (bytes_of_string (string_of_n_dec x.ref_local), x.ref_xref,
              (match x.ref_pmid with Some v -> [RX v] | None -> []) @
              (match x.ref_title with Some v -> [RT v] | None -> []) @
              (match x.ref_link with Some v -> [RL v] | None -> [])) in
      let items = match order with
        | None ->
            List.concat_map (fun l -> if l = [] then [] else l @ [IXX])
              [fld FAC ac; fld FID id; fld FNA na; fld FDE de; matrix]
        | Some codes ->
            List.concat_map (fun c -> match c with
              | "A" -> fld FAC ac | "I" -> fld FID id | "N" -> fld FNA na | "D" -> fld FDE de
              | c when String.length c >= 2 && c.[1] = '~' && String.contains "AIND" c.[0] ->
                  let pad = bytes_of_hex (String.sub c 2 (String.length c - 2)) in
                  (match c.[0] with 'A' -> fldp FAC pad ac | 'I' -> fldp FID pad id
                                  | 'N' -> fldp FNA pad na | _ -> fldp FDE pad de)
              | "M" -> matrix | "X" -> [IXX]
              | c when String.length c >= 2 && c.[0] = 'R' ->
                  [ref_item (List.nth refs (int_of_string (String.sub c 1 (String.length c - 1))))]
              | c when String.length c >= 1 && c.[0] = 'c' ->
                  (match List.map bytes_of_hex (String.split_on_char '.' (String.sub c 1 (String.length c - 1))) with
                   | t :: ts -> [ICC (t, ts)]
                   | [] -> failwith "cc")
              | c when String.length c >= 1 && c.[0] = 'd' ->
                  (match String.split_on_char '.' (String.sub c 1 (String.length c - 1)) with
                   | [d; m; y; k; a] ->
                       [IDT (bytes_of_string d, bytes_of_string m, bytes_of_string y, k = "c", bytes_of_hex a)]
                   | _ -> failwith "dt")
              | c when String.length c >= 2 && c.[0] = 's' ->
                  let k = (match c.[1] with 'a' -> KBA | 's' -> KBS | 'f' -> KBF | _ -> KCO) in
                  [ISkip (k, bytes_of_hex (String.sub c 2 (String.length c - 2)))]
              | _ -> failwith "order") codes in
      (items, (match order with None -> Some refs | Some _ -> None))
  | _ -> failwith ("bad record " ^ s)

(* which observable of two records differs (diagnostics only) *)
let diff_fields (a : obs) (b : obs) : string =
  match a, b with
  | BRec x, BRec y ->
      String.concat "," (List.filter (fun s -> s <> "") [
        (if x.o_id <> y.o_id then "id" else ""); (if x.o_ac <> y.o_ac then "ac" else "");
        (if x.o_name <> y.o_name then "name" else ""); (if x.o_desc <> y.o_desc then "desc" else "");
        (if x.o_data <> y.o_data then "data" else ""); (if x.o_refs <> y.o_refs then "refs" else "");
        (if x.o_counts <> y.o_counts then "counts" else "") ])
  | _, _ -> "kind"

let show_obs = function
  | BRec _ -> "R" | BErr EIo -> "E:io" | BErr ENom -> "E:nom" | BEnd -> "END" | BPanic -> "PANIC" | BHang -> "HANG"
let show_seq l =
  let n = List.length l in
  if n <= 6 then String.concat "|" (List.map show_obs l)
  else Printf.sprintf "R*%d|%s" (n - 1) (show_obs (List.nth l (n - 1)))


(* ---- recognizer: is this file, byte for byte, an output of TransfacPrint.print_file? ----
   Untrusted helper: it proposes (vv, crlf, fnl, records); the caller confirms with the extracted
   wf_file and print_file that the file is an instance of the round-trip theorem. *)
exception Not_canonical

let recognize (data : string) : (byte list option * bool * bool * prec list) option =
  let is_blank c = c = ' ' || c = '\t' in
  let is_digit c = c >= '0' && c <= '9' in
  let b = bytes_of_string in
  try
    let n = String.length data in
    let crlf = (try ignore (Str.search_forward (Str.regexp_string "\r\n") data 0); true with Not_found -> false) in
    let fnl = n > 0 && data.[n - 1] = '\n' in
    let lines = String.split_on_char '\n' data in
    let lines = if fnl then (match List.rev lines with "" :: r -> List.rev r | _ -> lines) else lines in
    let nl = List.length lines in
    let lines = List.mapi (fun i l ->
      if crlf && (i < nl - 1 || fnl) then begin
        let k = String.length l in
        if k > 0 && l.[k - 1] = '\r' then String.sub l 0 (k - 1) else raise Not_canonical
      end else l) lines in
    let starts p l = String.length l >= String.length p && String.sub l 0 (String.length p) = p in
    let rest k l = String.sub l k (String.length l - k) in
    let span f l i = let j = ref i in while !j < String.length l && f l.[!j] do incr j done; !j in
    let (vv, lines) = match lines with
      | l0 :: "XX" :: "//" :: tl when starts "VV  " l0 -> (Some (b (rest 4 l0)), tl)
      | _ -> (None, lines) in
    let recs = ref [] and items = ref [] in
    let rec go = function
      | [] -> if !items <> [] then raise Not_canonical
      | "//" :: tl -> recs := List.rev !items :: !recs; items := []; go tl
      | "XX" :: tl -> items := IXX :: !items; go tl
      | l :: tl when String.length l >= 2 ->
          let code = String.sub l 0 2 in
          (match code with
           | "AC" | "ID" | "NA" | "DE" ->
               let k = (match code with "AC" -> FAC | "ID" -> FID | "NA" -> FNA | _ -> FDE) in
               let j = span is_blank l 2 in
               items := IField (k, b (String.sub l 2 (j - 2)), b (rest j l)) :: !items; go tl
           | "BA" | "BS" | "BF" | "CO" ->
               let k = (match code with "BA" -> KBA | "BS" -> KBS | "BF" -> KBF | _ -> KCO) in
               items := ISkip (k, b (rest 2 l)) :: !items; go tl
           | "CC" ->
               let rec run acc = function
                 | x :: t when starts "CC" x -> run (b (rest 2 x) :: acc) t
                 | t -> (List.rev acc, t) in
               let (ts, tl') = run [] tl in
               items := ICC (b (rest 2 l), ts) :: !items; go tl'
           | "DT" ->
               if not (Str.string_match (Str.regexp "^DT  \\([0-9]+\\)\\.\\([0-9]+\\)\\.\\([0-9]+\\) (\\(created\\|updated\\)); \\([^.]*\\)\\.$") l 0)
               then raise Not_canonical;
               items := IDT (b (Str.matched_group 1 l), b (Str.matched_group 2 l), b (Str.matched_group 3 l),
                             Str.matched_group 4 l = "created", b (Str.matched_group 5 l)) :: !items; go tl
           | "RN" ->
               if not (Str.string_match (Str.regexp "^RN  \\[\\([0-9]+\\)\\]\\(; \\([^.]*\\)\\.\\)?$") l 0)
               then raise Not_canonical;
               let num = b (Str.matched_group 1 l) in
               let xref = (try Some (b (Str.matched_group 3 l)) with Not_found -> None) in
               let rec sub acc = function
                 | x :: t when starts "RX  PUBMED: " x && String.length x >= 13 && x.[String.length x - 1] = '.' ->
                     sub (RX (b (String.sub x 12 (String.length x - 13))) :: acc) t
                 | x :: t when starts "RA" x -> sub (RA (b (rest 2 x)) :: acc) t
                 | x :: t when starts "RT  " x -> sub (RT (b (rest 4 x)) :: acc) t
                 | x :: t when starts "RL  " x -> sub (RL (b (rest 4 x)) :: acc) t
                 | t -> (List.rev acc, t) in
               let (ls, tl') = sub [] tl in
               items := IRef (num, xref, ls) :: !items; go tl'
           | "P0" | "PO" ->
               let syms = ref [] and i = ref 2 in
               while !i < String.length l do
                 let j = span is_blank l !i in
                 if j = !i || j >= String.length l then raise Not_canonical;
                 syms := (b (String.sub l !i (j - !i)), List.hd (b (String.make 1 l.[j]))) :: !syms;
                 i := j + 1
               done;
               let syms = List.rev !syms in
               let k = List.length syms in
               if k = 0 then raise Not_canonical;
               let rec rows acc = function
                 | x :: t when String.length x > 0 && is_digit x.[0] ->
                     let j = span is_digit x 0 in
                     let pos = ref j and toks = ref [] in
                     for _ = 1 to k do
                       let a = span is_blank x !pos in
                       let e = span (fun c -> not (is_blank c)) x a in
                       if a = !pos || e = a then raise Not_canonical;
                       toks := (b (String.sub x !pos (a - !pos)), b (String.sub x a (e - a))) :: !toks;
                       pos := e
                     done;
                     rows ({ pr_label = b (String.sub x 0 j); pr_toks = List.rev !toks; pr_tail = b (rest !pos x) } :: acc) t
                 | t -> (List.rev acc, t) in
               let (rs, tl') = rows [] tl in
               items := IMatrix (code = "PO", syms, rs) :: !items; go tl'
           | _ -> raise Not_canonical)
      | _ -> raise Not_canonical in
    go lines;
    Some (vv, crlf, fnl, List.rev !recs)
  with Not_canonical | Not_found | Invalid_argument _ | Failure _ -> None

let () =
  let mode = if Array.length Sys.argv > 1 then Sys.argv.(1) else "c15" in
  try
    while true do
      let line = input_line stdin in
      if String.length line > 0 && line.[0] <> '#' then begin
        let (inp, obs) =
          match Str.bounded_split (Str.regexp_string " => ") line 2 with
          | [a; b] -> (a, b) | [a] -> (a, "") | _ -> failwith "bad line" in
        let toks = String.split_on_char ' ' inp in
        let id = List.hd toks in
        let verdict = ref "OK" in
        (* a PROPFAIL that is the known finding F-T1 (the model of the code as it is predicts this very
           panic): reported only when nothing else is wrong with the case, so that it never hides a DIFF
           or another PROPFAIL *)
        let known_v = ref "" in
        (* PROPFAIL takes precedence over DIFF; the first of each kind is kept *)
        let set_v v =
          if !verdict = "OK" then verdict := v
          else if String.length v > 8 && String.sub v 0 8 = "PROPFAIL"
                  && not (String.length !verdict > 8 && String.sub !verdict 0 8 = "PROPFAIL") then verdict := v in
        (try
          if obs = "skip" then begin
            (* a corpus line of the io group: not ours -- but only if it says so *)
            let fmts = List.filter (fun t -> String.length t > 4 && String.sub t 0 4 = "fmt=") (List.tl toks) in
            if fmts = [] then set_v "DIFF skipped-line-without-fmt-token(no group owns it)"
            else if List.mem "fmt=transfac" fmts then set_v "DIFF transfac-line-skipped-by-the-harness";
            raise Exit
          end;
          if not parse_streaming_modelled then
            set_v "DIFF parse.rs-uses-a-streaming-combinator-or-names-Incomplete:not-modelled(GenReader.gen_parse_streaming)";
          let fields = List.map kv (List.tl toks) in
          let ofields = List.map kv (String.split_on_char ' ' obs) in
          let get k = try List.assoc k fields with Not_found -> "" in
          let al = if get "alpha" = "protein" then Protein else Dna in
          let data_hex = (try List.assoc "data" ofields with Not_found -> get "data") in
          let data = bytes_of_hex data_hex in
          let caps = List.map int_of_string (split ',' (get "caps")) in
          let pat = List.map int_of_string (split '.' (get "pat")) in
          let nchunkings = List.length caps + (if pat = [] then 0 else 1) in
          (* number of requests made after the first error / end of input (C15 only) *)
          let post = if get "post" = "" then 0 else int_of_string (get "post") in
          (* observed sequences *)
          let raw = split ';' (try List.assoc "obs" ofields with Not_found -> "") in
          if List.length raw <> nchunkings || raw = [] then set_v "DIFF observation-count"
          else begin
            let first = List.hd raw in
            let raw = List.map (fun s -> if s = "=" then first else s) raw in
            let seqs = List.map parse_seq raw in
            let first_seq = List.hd seqs in
            (* --- Record::to_freq(0.0) / (0.5) of every record of the first sequence against the extracted
               TransfacFreq.to_freq applied to the record's own cells --- *)
            List.iteri (fun k o ->
              match String.split_on_char ':' o with
              | ["R"; _; _; _; _; d; _; _; f0; f5] ->
                  let want c = match parse_matrix 'm' d with
                    | None -> None
                    | Some m -> to_freq_bits al (z_of_int c) m in
                  if parse_matrix 'q' f0 <> want 0 then set_v (Printf.sprintf "DIFF to_freq(0.0) outcome=%d" k);
                  if parse_matrix 'q' f5 <> want 0x3f000000 then set_v (Printf.sprintf "DIFF to_freq(0.5) outcome=%d" k)
              | "R" :: _ -> set_v (Printf.sprintf "DIFF to_freq-not-observed outcome=%d" k)
              | _ -> ()) (split '|' first);
            (* --- property checkers on the implementation's observations --- *)
            if mode <> "c14" then
              List.iteri (fun k s ->
                if not (check_c15p (nat_of_int post) s) then
                  set_v (Printf.sprintf "PROPFAIL c15 chunking=%d post=%d outcomes=%s" k post (show_seq s))) seqs;
            if mode = "c14" then begin
              (* the chunking clause: decided by the extracted check_same_chunkings (C14.check_same_chunkings_sound);
                 a difference in the raw text only (the to_freq fields, which obs does not carry) is a DIFF *)
              if not (check_same_chunkings seqs) then begin
                let k = ref 0 in
                List.iteri (fun j s -> if !k = 0 && first_diff first_seq s O <> None then k := j) seqs;
                set_v (Printf.sprintf "PROPFAIL c14 chunking-dependent chunking=%d" !k)
              end;
              List.iteri (fun k r ->
                if r <> first then set_v (Printf.sprintf "DIFF c14 chunking-dependent-text(to_freq fields) chunking=%d" k)) raw;
              (match get "recs", get "file" with
               | "", "" -> set_v "DIFF c14-case-without-records"
               | "", _ ->
                   (* bundled data: every "//" line closes a record, then end of input (and again for every further
                      request): decided by the extracted check_count (C14.check_count_sound) *)
                   let want = int_of_string (get "nrec") in
                   if not (check_count (nat_of_int want) (nat_of_int post) first_seq) then
                     set_v (Printf.sprintf "PROPFAIL c14 bundled-file expected=%d records then END outcomes=%s (records=%d)" want
                              (show_seq first_seq) (List.length (List.filter (function BRec _ -> true | _ -> false) first_seq)))
                   else begin
                     (* is the file an instance of C14.reader_roundtrip?  then every record must be
                        exactly the theorem's expected record *)
                     let inst = match recognize (string_of_bytes data) with
                       | Some (vv, crlf, fnl, recs) when wf_file al vv recs && print_file vv crlf fnl recs = data -> Some recs
                       | _ -> None in
                     match inst with
                     | Some recs ->
                         let expected = List.map (expected_record al) recs in
                         if not (check_c14p expected (nat_of_int post) first_seq) then begin
                           let want = List.map (fun r -> BRec (observe_record r)) expected @ (BEnd :: List.init post (fun _ -> BEnd)) in
                           let at = match first_diff first_seq want O with Some k -> int_of_nat k | None -> -1 in
                           let what = if at >= 0 && at < List.length first_seq && at < List.length want
                             then diff_fields (List.nth first_seq at) (List.nth want at) else "length" in
                           set_v (Printf.sprintf "PROPFAIL c14 bundled-file outcome=%d differs-from-theorem-expected-records in=%s" at what)
                         end
                     | None ->
                         if get "inst" = "1" then set_v "DIFF bundled file no longer recognised as an instance of reader_roundtrip"
                         else if get "inst" <> "0" then
                           set_v "DIFF bundled file not recognised as an instance of reader_roundtrip and not declared inst=0:records-not-compared-with-what-is-written"
                   end
               | recs, _ ->
                   let precs = List.map parse_prec (String.split_on_char ';' recs) in
                   let expected = List.map (fun (p, refs) ->
                     let r = expected_record al p in
                     match refs with Some l -> { r with r_refs = l } | None -> r) precs in
                   if not (check_c14p expected (nat_of_int post) first_seq) then begin
                     let want = List.map (fun r -> BRec (observe_record r)) expected @ (BEnd :: List.init post (fun _ -> BEnd)) in
                     let at = match first_diff first_seq want O with Some k -> int_of_nat k | None -> -1 in
                     let what = if at >= 0 && at < List.length first_seq && at < List.length want
                       then diff_fields (List.nth first_seq at) (List.nth want at) else "length" in
                     set_v (Printf.sprintf "PROPFAIL c14 outcome=%d differs-from-written-records in=%s got=%s" at what (show_seq first_seq))
                   end;
                   if get "lay" = "canon" then begin
                     let vv = opt_str (get "vv") in
                     let printed = print_file vv (get "le" = "crlf") (get "fnl" = "1") (List.map fst precs) in
                     if printed <> data then set_v "DIFF printer: harness print_canon <> TransfacPrint.print_file";
                     (* the case is claimed to lie inside the hypothesis of C14.reader_roundtrip *)
                     if get "wf" = "1" && not (wf_file al vv (List.map fst precs)) then
                       set_v "DIFF generator: canonical case outside TransfacPrint.wf_file"
                   end)
            end;
            (* --- correspondence with the extracted model --- *)
            let m_whole = model_run_post al (nat_of_int post) [data] in
            let model_run al s = model_run_post al (nat_of_int post) s in
            (match first_diff m_whole first_seq O with
             | None -> ()
             | Some k ->
                 let k = int_of_nat k in
                 let what = if k < List.length first_seq && k < List.length m_whole
                   then diff_fields (List.nth m_whole k) (List.nth first_seq k) else "length" in
                 set_v (Printf.sprintf "DIFF model-vs-implementation outcome=%d in=%s model=%s impl=%s"
                          k what (show_seq m_whole) (show_seq first_seq)));
            List.iteri (fun k s ->
              if k > 0 then match first_diff m_whole s O with
                | None -> ()
                | Some j -> set_v (Printf.sprintf "DIFF model-vs-implementation chunking=%d outcome=%d" k (int_of_nat j))) seqs;
            if pat <> [] then begin
              let m_pat = model_run al (chunk_pattern pat data) in
              if first_diff m_whole m_pat O <> None then set_v "DIFF model-depends-on-chunking(pattern)"
            end;
            if List.length data <= 6000 then begin
              let m1 = model_run al (chunk_pattern [1] data) in
              if first_diff m_whole m1 O <> None then set_v "DIFF model-depends-on-chunking(1)"
            end;
            (* --- streams with scripted I/O faults (C15): model TransfacFault over the same script --- *)
            if mode <> "c14" then begin
              (* without faults the fault model is the reader model of the theorems (C15.fault_free_agree; with the
                 repair in the source: the two agree on streams without faults all the same) *)
              let m_ff = model_trace_cur al (nat_of_int post) [EData data] in
              if first_diff m_whole m_ff O <> None then set_v "DIFF fault-model-differs-from-reader-model-without-faults";
              let scripts = split '/' (get "evs") in
              let eraw = split ';' (try List.assoc "eobs" ofields with Not_found -> "") in
              if List.length eraw <> List.length scripts then set_v "DIFF observation-count(evs)"
              else List.iteri (fun k (sc, r) ->
                let s = parse_seq r in
                let es = estream_of_script sc data in
                let m = model_trace_cur al (nat_of_int post) es in
                let agree = first_diff m s O = None in
                if not (check_c15p (nat_of_int post) s) then begin
                  (* F-T1: the panic the model of the code as it is predicts for this script *)
                  let cls = if agree && List.mem BPanic m then "model=panic-too(F-T1:last-not-advanced-after-partial-line)" else "model=differs" in
                  let msg = Printf.sprintf "PROPFAIL c15 io-fault script=%d(%s) post=%d %s outcomes=%s" k sc post cls (show_seq s) in
                  if agree && List.mem BPanic m then (if !known_v = "" then known_v := msg) else set_v msg
                end;
                if not agree then
                  set_v (Printf.sprintf "DIFF model-vs-implementation io-fault script=%d(%s) model=%s impl=%s" k sc (show_seq m) (show_seq s))
              ) (List.combine scripts eraw)
            end
          end
        with
         | Exit -> ()
         | Unknown_outcome s -> set_v ("DIFF unknown-outcome " ^ (if String.length s > 40 then String.sub s 0 40 else s))
         | Failure m -> set_v ("DIFF driver-failure " ^ m)
         | Not_found -> set_v "DIFF driver-missing-field");
        if !verdict = "OK" && !known_v <> "" then verdict := !known_v;
        print_endline (id ^ " " ^ !verdict)
      end
    done
  with End_of_file -> ()
