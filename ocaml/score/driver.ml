(* Driver for the extracted scoring models and the extracted checker of property C01.
   Reads the observation lines written by `score run` (see harness/src/bin/score.rs
   for the format) and prints one verdict per case:
     <id> OK | <id> PROPFAIL <why> | <id> DIFF <why>

   PROPFAIL (decided by the Coq-extracted, proved-sound checkers [check_C01] (values),
   [check_same_results] and [check_subrange] (equality of bit patterns)): wrong number of values, a value that is neither
   the defined left-to-right binary32 sum nor within the stated tolerance of the
   exact sum, a value that is not -inf although a term is, pipelines / dispatcher
   arms / sub-range calls that do not return identical values, a panic on a
   correctly configured sequence.
   Hand-written PROPFAIL paths next to the extracted checkers (all strictly additional, i.e. they can only
   ADD a PROPFAIL, never replace a checker's decision; named in the SPEC's trusted base): a panic of a full
   scan / in-range sub-range / unstripe / score_position on a configured sequence; `count n expected L-M+1`
   (the same test is inside check_C01; kept for the message); unstripe order (value i = cell (i mod rows,
   i / rows) of the observed matrix); Index / score_position / ScoringMatrix::score that differ from
   unstripe()'s value at the same position; iter().rev() that is not the reverse of unstripe(); in histories
   len() <> L-M+1, is_empty() <> (L < M), Vec::from / rev <> unstripe.
   No comparison is skipped silently: a case whose SIMD kernel model is replayed on sampled rows only says so
   in its verdict (`OK sampled-kernel-replays=n`); anything the driver cannot parse or evaluate is a DIFF.
   DIFF: the implementation differs from the extracted model (cells incl. padding
   cells, max_index, panics, unstripe, Index, score_position, the Striped hypothesis
   on the matrix the library built) without failing the property checker. *)
open Score_model

let nat_of_int n = let rec go acc n = if n <= 0 then acc else go (S acc) (n - 1) in go O n
let int_of_nat n = let rec go acc = function O -> acc | S m -> go (acc + 1) m in go 0 n

let rec pos_of_int n =
  if n = 1 then XH else if n land 1 = 0 then XO (pos_of_int (n lsr 1)) else XI (pos_of_int (n lsr 1))
let z_of_int n = if n = 0 then Z0 else if n > 0 then Zpos (pos_of_int n) else Zneg (pos_of_int (-n))
let rec int_of_pos = function XH -> 1 | XO p -> 2 * int_of_pos p | XI p -> 2 * int_of_pos p + 1
let int_of_z = function Z0 -> 0 | Zpos p -> int_of_pos p | Zneg p -> - (int_of_pos p)

let f32_of_int (b : int) : f32 = x_of_bits (z_of_int b)
let int_of_f32 (x : f32) : int = int_of_z (x_to_bits x)

let hex8 s i = int_of_string ("0x" ^ String.sub s (8 * i) 8)

let kv tok = match String.index_opt tok '=' with
  | Some i -> (String.sub tok 0 i, String.sub tok (i + 1) (String.length tok - i - 1))
  | None -> (tok, "")

(* observed result of one call *)
type obs = OP | OM of int * int array array

let parse_cache : (string, obs) Hashtbl.t = Hashtbl.create 16
let scores_cache : (string, f32 sscores) Hashtbl.t = Hashtbl.create 16

let parse_res_raw c tok =
  if tok = "P" then OP else
  match String.split_on_char '/' tok with
  | [mx; nrows; body] ->
      let rows =
        if body = "" then [||]
        else Array.of_list (List.map (fun r -> Array.init c (fun i -> hex8 r i)) (String.split_on_char ',' body)) in
      if Array.length rows <> int_of_string nrows then failwith "row count";
      OM (int_of_string mx, rows)
  | _ -> failwith ("bad result token " ^ tok)

let parse_res c tok =
  match Hashtbl.find_opt parse_cache tok with
  | Some o -> o
  | None -> let o = parse_res_raw c tok in Hashtbl.replace parse_cache tok o; o

let obs_of_model (r : f32 sscores res) : obs option =
  match r with
  | Ok sc ->
      Some (OM (int_of_nat sc.sc_max,
                Array.of_list (List.map (fun row -> Array.of_list (List.map int_of_f32 row)) sc.sc_mat)))
  | Panic _ -> Some OP
  | _ -> None

let sscores_of_obs_raw (o : obs) : f32 sscores =
  match o with
  | OP -> { sc_mat = []; sc_max = O }
  | OM (mx, rows) ->
      { sc_mat = Array.to_list (Array.map (fun r -> Array.to_list (Array.map f32_of_int r)) rows);
        sc_max = nat_of_int mx }

(* the buffer a call starts from, given the token of the call that filled it *)
let sscores_of_tok c tok =
  match Hashtbl.find_opt scores_cache tok with
  | Some x -> x
  | None -> let x = sscores_of_obs_raw (parse_res c tok) in Hashtbl.replace scores_cache tok x; x

(* the same observation as a value of the extracted type Score_model.obs, for the extracted
   equality checkers check_same_results / check_subrange (cached per token) *)
let cobs_cache : (string, Score_model.obs) Hashtbl.t = Hashtbl.create 16
let cobs c tok : Score_model.obs =
  match Hashtbl.find_opt cobs_cache tok with
  | Some x -> x
  | None ->
      let x = match parse_res c tok with
        | OP -> None
        | OM (mx, rows) ->
            Some (nat_of_int mx, Array.to_list (Array.map (fun r -> Array.to_list (Array.map z_of_int r)) rows)) in
      Hashtbl.replace cobs_cache tok x; x

let parse_values tok =
  if tok = "P" then None else
  match String.split_on_char '/' tok with
  | [n; body] ->
      let n = int_of_string n in
      if String.length body <> 8 * n then failwith "value count";
      Some (Array.init n (fun i -> hex8 body i))
  | _ -> failwith ("bad values token " ^ tok)

let dna = "ACTGN"
let prot = "ACDEFGHIKLMNPQRSTVWYX"

(* the striped matrix printed by the harness: <len>/<wrap>/<row,row,..> ('a' + symbol) *)
let parse_sq tok : sseq =
  match String.split_on_char '/' tok with
  | [len; wr; body] ->
      let rows = if body = "" then [] else
          List.map (fun r -> List.init (String.length r) (fun i -> nat_of_int (Char.code r.[i] - 97)))
            (String.split_on_char ',' body) in
      { sq_len = nat_of_int (int_of_string len); sq_wrap = nat_of_int (int_of_string wr); sq_mat = rows }
  | _ -> failwith "bad striped matrix token"

exception Done

(* calls of a case whose extracted SIMD kernel model was replayed on sampled rows only (cost budget) *)
let sampled_calls = ref 0

(* ---- HISTORY cases: one reused StripedScores buffer driven through a list of calls ----
   Every step is replayed with the extracted model ScoresModel.hstep from the state the
   implementation was observed in before the step (C01Scores.C01_scores_history holds for every
   initial content of the buffer, so this includes the state a caught panic leaves behind); the
   logical content after each step (unstripe, len, is_empty, Index) is compared with the functions
   written from the statement skeleton of scores.rs (GenScores.v).
   PROPFAIL: a scoring call on a configured sequence whose result is not the one the same call
   gives on a fresh buffer through the generic pipeline (check_same_results), or, after a full
   scan, a logical content that is not the L-M+1 defined scores of that call (check_C01). *)
let hist_case (fields : (string * string) list) (obs : string) pf df =
  let get k = List.assoc k fields in
  let ofields = List.map kv (String.split_on_char ' ' obs) in
  let oget k = List.assoc k ofields in
  let ohas k = List.mem_assoc k ofields in
  let c = int_of_string (get "C") in
  let cn = nat_of_int c in
  let pad = f32_of_int (int_of_string ("0x" ^ get "pad")) in
  let alpha_of abc = if abc = "dna" then dna else prot in
  let ms = Array.of_list (List.map (fun m ->
      match Str.bounded_split (Str.regexp_string ":") m 2 with
      | [abc; rows] ->
          let k = String.length (alpha_of abc) in
          let bits = if rows = "-" then [] else
              List.map (fun r -> Array.init k (fun i -> hex8 r i)) (String.split_on_char ';' rows) in
          (abc, k, List.map (fun r -> Array.to_list (Array.map f32_of_int r)) bits)
      | _ -> failwith "ms") (String.split_on_char '|' (get "ms"))) in
  let qs = Array.of_list (List.mapi (fun j qd ->
      match String.split_on_char ':' qd with
      | abc :: wrap :: letters :: src ->
          let alpha = alpha_of abc in
          let letters = if letters = "-" then "" else letters in
          let s = List.init (String.length letters) (fun i -> nat_of_int (String.index alpha letters.[i])) in
          let q = parse_sq (oget (Printf.sprintf "q%d" j)) in
          let wild = nat_of_int (String.length alpha - 1) in
          (* a sequence built by StripedSequence::new (4th field): the hypothesis is Padded, decided by the extracted
             padded_b, and the logical sequence read off the matrix must be the input *)
          let ok =
            if src = [] then x_striped_b cn wild s q
            else x_padded_b cn wild q && x_logical_seq cn wild q = s in
          if not ok then df (Printf.sprintf "%s-hypothesis q%d" (if src = [] then "striped" else "padded") j);
          if int_of_nat q.sq_wrap <> int_of_string wrap then df (Printf.sprintf "wrap of q%d" j);
          (abc, s, q, String.length letters, ok)
      | _ -> failwith "qs") (String.split_on_char '|' (get "qs"))) in
  let backend_of = function
    | "g" -> BGeneric | "s" -> BSse2 | "a" -> BAvx2
    | "dg" -> BDispatch ArmGeneric | "ds" -> BDispatch ArmSse2 | "da" -> BDispatch ArmAvx2
    | _ -> failwith "pipeline" in
  let buf = ref { sc_mat = []; sc_max = O } in
  List.iteri (fun i opt ->
      let parts = Array.of_list (String.split_on_char '.' opt) in
      let num k = int_of_string parts.(k) in
      let scoring = parts.(0) = "S" || parts.(0) = "R" in
      let op : f32 hop =
        match parts.(0) with
        | "S" | "R" ->
            let (_, k, pssm) = ms.(num 2) and (_, _, q, _, _) = qs.(num 3) in
            let stride = ((k * 4 + 31) / 32) * 8 in
            let pad_row = List.init (stride - k) (fun _ -> pad) in
            let call = { c_be = backend_of parts.(1); c_K = nat_of_int k; c_pssm = pssm;
                         c_pads = (fun _ -> pad_row); c_seq = q } in
            if parts.(0) = "S" then HScoreInto call else HRowsInto (call, nat_of_int (num 4), nat_of_int (num 5))
        | "Z" -> HResize (nat_of_int (num 1), nat_of_int (num 2))
        | "C" -> HClone
        | "D" -> HDefault
        | "F" -> HFill (f32_of_int (int_of_string ("0x" ^ parts.(1))))
        | _ -> failwith "history op" in
      let key k = Printf.sprintf "%s%d" k i in
      let what = Printf.sprintf "history step %d (%s)" i opt in
      let otok = oget (key "o") in
      let panicked = String.length otok >= 2 && String.sub otok 0 2 = "P|" in
      let stok = if panicked then String.sub otok 2 (String.length otok - 2) else otok in
      let ostate = parse_res c stok in
      (match x_hstep cn op !buf, panicked with
       | Ok m, false -> if obs_of_model (Ok m) <> Some ostate then df (what ^ " cells-or-outcome")
       | Panic _, true -> ()
       | Ok _, true -> df (what ^ " panics, the model does not")
       | Panic _, false -> df (what ^ " does not panic, the model does")
       | _ -> df (what ^ " model-error"));
      buf := sscores_of_obs_raw ostate;
      let b = !buf in
      (* logical content, through the functions generated from the skeleton of scores.rs *)
      let vals = if ohas (key "u") then parse_values (oget (key "u")) else None in
      (match x_sk_unstripe cn b, vals with
       | Ok mv, Some v -> if Array.of_list (List.map int_of_f32 mv) <> v then df (what ^ " unstripe")
       | Panic _, None -> ()
       | _ -> df (what ^ " unstripe outcome"));
      if oget (key "l") <> string_of_int (int_of_nat (x_sk_iter_end cn b)) then df (what ^ " iter().len()");
      if (oget (key "e") = "1") <> x_sk_is_empty b then df (what ^ " is_empty");
      List.iter (fun t ->
          match String.split_on_char ':' t with
          | [j; v] ->
              let mo = match x_sk_index b (nat_of_int (int_of_string j)) with
                | Ok x -> Printf.sprintf "%08x" (int_of_f32 x) | Panic _ -> "P" | _ -> "?" in
              if mo <> v then df (what ^ " index " ^ j)
          | _ -> failwith "x") (String.split_on_char ';' (oget (key "x")));
      if ohas (key "v") then df (what ^ ": " ^ oget (key "v") ^ " disagrees with unstripe()");
      if scoring then begin
        let (abc, _, pssm) = ms.(num 2) and (_, s, q, l, striped_ok) = qs.(num 3) in
        let wild = nat_of_int (String.length (alpha_of abc) - 1) in
        let m = List.length pssm in
        let configured = m >= 1 && int_of_nat q.sq_wrap >= m - 1 && striped_ok in
        let ftok = let t = oget (key "f") in if t = "=" then otok else t in
        (match x_ref_call cn op, ftok with
         | Panic _, "P" -> ()
         | Ok r, t when t <> "P" -> if obs_of_model (Ok r) <> Some (parse_res c t) then df (what ^ " fresh generic call differs from the model")
         | _ -> df (what ^ " fresh generic call outcome"));
        if configured then begin
          if parts.(0) = "S" && panicked then pf (what ^ ": full scan of a configured sequence panics")
          else if panicked <> (ftok = "P") then
            pf (what ^ (if panicked then ": panics on the reused buffer but not on a fresh one"
                        else ": does not panic on the reused buffer, the generic pipeline on a fresh one does"))
          else if not panicked then begin
            if not (check_same_results (cobs c ftok) [cobs c otok]) then
              pf (what ^ ": result differs from the same call on a fresh buffer (generic pipeline)")
            else if parts.(0) = "S" then begin
              match vals with
              | None -> pf (what ^ ": unstripe panics")
              | Some v ->
                  let nvals = max 0 (l + 1 - m) in
                  if Array.length v <> nvals then
                    pf (Printf.sprintf "%s: count %d expected %d" what (Array.length v) nvals)
                  else if not (check_C01 wild pssm s (Array.to_list (Array.map f32_of_int v))) then
                    pf (what ^ ": a value fails the definition")
                  else if oget (key "l") <> string_of_int nvals then pf (what ^ ": len() is not L-M+1")
                  else if (oget (key "e") = "1") <> (l < m) then pf (what ^ ": is_empty() is not (L < M)")
                  else if ohas (key "v") then pf (what ^ ": " ^ oget (key "v") ^ " does not give the values of unstripe()")
            end
          end
        end
      end)
    (String.split_on_char ',' (get "ops"))

let () =
  (* the reflection check of the AVX2 lane tables regenerated by the translator: when it fails
     the kernel-equality theorems no longer check either (broken obligation); every case is
     still evaluated, and marked as a broken tie *)
  let layout_bad = not x_layout_ok in
  try
    while true do
      let line = input_line stdin in
      if String.length line > 0 && line.[0] <> '#' then begin
        let (inp, obs) =
          match Str.bounded_split (Str.regexp_string " => ") line 2 with
          | [a; b] -> (a, b) | [a] -> (a, "") | _ -> failwith "bad line" in
        let toks = String.split_on_char ' ' inp in
        let id = List.hd toks in
        Hashtbl.reset parse_cache; Hashtbl.reset scores_cache; Hashtbl.reset cobs_cache;
        let propfail = ref None and diff = ref None in
        sampled_calls := 0;
        let pf s = if !propfail = None then propfail := Some s in
        let df s = if !diff = None then diff := Some s in
        if layout_bad then df "avx2 lane tables fail the layout check (avx2_layout_ok)";
        (try
          let fields = List.map kv (List.tl toks) in
          if List.mem_assoc "hist" fields then begin hist_case fields obs pf df; raise Done end;
          let get k = List.assoc k fields in
          let ofields = List.map kv (String.split_on_char ' ' obs) in
          let oget k = List.assoc k ofields in
          let ohas k = List.mem_assoc k ofields in
          let alpha = if get "abc" = "dna" then dna else prot in
          let k = String.length alpha in
          let c = int_of_string (get "C") in
          let cn = nat_of_int c and kn = nat_of_int k and wild = nat_of_int (k - 1) in
          let pad = f32_of_int (int_of_string ("0x" ^ get "pad")) in
          let pssm_bits : int array list =
            if get "pssm" = "-" then []
            else List.map (fun r -> Array.init k (fun i -> hex8 r i)) (String.split_on_char ';' (get "pssm")) in
          let pssm : f32 list list = List.map (fun r -> Array.to_list (Array.map f32_of_int r)) pssm_bits in
          let m = List.length pssm in
          (* padding floats after the K cells of each row: stride(4, K, 32) - K *)
          let stride = ((k * 4 + 31) / 32) * 8 in
          let pad_row : f32 list = List.init (stride - k) (fun _ -> pad) in
          let pads : nat -> f32 list = fun _ -> pad_row in
          let seq_s = if get "seq" = "-" then "" else get "seq" in
          (* how the striped sequence was built: Stripe::stripe (default), StripedSequence::new on a hand-made
             matrix (src=new.<extra>.<letters>) or StripedSequence::sample (src=sample.<seed>) *)
          let src = match List.assoc_opt "src" fields with
            | None -> "stripe" | Some v -> List.hd (String.split_on_char '.' v) in
          let padded_src = src <> "stripe" in
          let ranges =
            if get "rows" = "-" then []
            else List.map (fun r -> match String.split_on_char ':' r with
                | [a; b] -> (int_of_string a, int_of_string b) | _ -> failwith "range")
                (String.split_on_char ',' (get "rows")) in
          let ints v = if v = "-" || v = "" then [] else List.map int_of_string (String.split_on_char ',' v) in
          (* ---- the striped matrix built by the library ---- *)
          let (q : sseq), wrap =
            match String.split_on_char '/' (oget "sq") with
            | [len; wr; body] ->
                let rows = if body = "" then [] else
                    List.map (fun r -> List.init (String.length r) (fun i -> nat_of_int (Char.code r.[i] - 97)))
                      (String.split_on_char ',' body) in
                ({ sq_len = nat_of_int (int_of_string len); sq_wrap = nat_of_int (int_of_string wr); sq_mat = rows },
                 int_of_string wr)
            | _ -> failwith "bad sq" in
          (* configure_wrap(k) only ever grows the wrap: after the steps it is the largest request *)
          let expected_wrap =
            List.fold_left (fun acc w -> max acc (if w = "m" then max 0 (m - 1) else int_of_string w)) 0
              (String.split_on_char '+' (get "wrap")) in
          if wrap <> expected_wrap then df (Printf.sprintf "wrap %d expected %d" wrap expected_wrap);
          (* the sequence: the input's for stripe / new; for new / sample it is ALSO read off the matrix the
             library built (ScorePadModel.logical_seq = Index<usize> at 0 .. len-1) and compared with the
             lq= token (the public Index) and, for new, with the input *)
          let s : nat list =
            if padded_src then x_logical_seq cn wild q
            else List.init (String.length seq_s) (fun i -> nat_of_int (String.index alpha seq_s.[i])) in
          let l = List.length s in
          if padded_src then begin
            let letters = String.concat "" (List.map (fun x -> String.make 1 (Char.chr (97 + int_of_nat x))) s) in
            let lq = if oget "lq" = "-" then "" else oget "lq" in
            if lq <> letters then df "Index<usize> of the striped sequence differs from the logical sequence of its matrix";
            if src = "new" then begin
              let want = String.concat "" (List.init (String.length seq_s)
                                             (fun i -> String.make 1 (Char.chr (97 + String.index alpha seq_s.[i])))) in
              if want <> letters then df "StripedSequence::new: the logical sequence is not the input sequence"
            end else if l <> int_of_string (get "L") then df "StripedSequence::sample: len() is not the requested length"
          end;
          (* the hypothesis of the value theorems, decided by an extracted checker on the observed matrix:
             Striped (C01.striped_b_sound) after Stripe::stripe, Padded (C01.check_padded_sound) after new / sample *)
          if padded_src then begin
            if not (x_padded_b cn wild q) then df "padded-hypothesis"
          end else if not (x_striped_b cn wild s q) then df "striped-hypothesis";
          (* rows that hold the sequence: rows - wrap (= ceil(L/C) after stripe / sample; new may have more) *)
          let r_rows = max 0 (List.length q.sq_mat - wrap) in
          if not (padded_src && src = "new") && r_rows <> (l + c - 1) / c then df "number of sequence rows";
          let configured = m >= 1 && wrap >= m - 1 in
          let nvals = max 0 (l + 1 - m) in
          (* ---- pipelines ---- *)
          let rows_into p : sseq -> nat -> nat -> f32 sscores -> f32 sscores res =
            match p with
            | "g" -> x_generic_rows_into cn pssm
            | "s" -> x_sse2_rows_into cn pssm
            | "a" -> x_avx2_rows_into kn pssm pads
            | "dg" | "mg" -> x_dispatch_rows_into kn pssm pads ArmGeneric
            | "ds" | "ms" -> x_dispatch_rows_into kn pssm pads ArmSse2
            | "da" | "ma" | "md" -> x_dispatch_rows_into kn pssm pads ArmAvx2
            | _ -> failwith "pipeline" in
          let row_cost p = c * (max m 1) * (match p with "s" | "ds" | "ms" -> k | _ -> 1) in
          let budget p = match p with "g" -> max_int | "s" | "a" -> 40000 | _ -> 4000 in
          let pipelines = List.filter (fun p -> ohas (p ^ "s")) ["g"; "s"; "a"; "dg"; "ds"; "da"; "mg"; "ms"; "ma"; "md"] in
          (* observed tokens, "=" resolved to the generic pipeline's token *)
          let tok p key = let t = oget (p ^ key) in if t = "=" then oget ("g" ^ key) else t in
          (* compare one observed call with the model of pipeline p on rows [a, b) *)
          (* the generic model's full scan is needed twice (cells, then unstripe/Index): computed once *)
          let model_full = lazy (x_score_with (rows_into "g") q) in
          let sampled = sampled_calls in
          let check_call p what (o : obs) (a : int) (b : int) (old : f32 sscores) full =
            let run a b =
              if full then (if p = "g" then Lazy.force model_full else x_score_with (rows_into p) q)
              else rows_into p q (nat_of_int a) (nat_of_int b) old in
            let n = match o with OM (_, rows) -> Array.length rows | OP -> 0 in
            if n = 0 || n * row_cost p <= budget p then begin
              match obs_of_model (run a b) with
              | None -> df (Printf.sprintf "%s%s model-error" p what)
              | Some mo -> if mo <> o then df (Printf.sprintf "%s%s cells-or-outcome" p what)
            end else begin
              (* too costly for a full replay of the extracted SIMD kernel model: guards + a sample of rows,
                 each through a one-row call (rows of a sub-range call = rows of the full scan: score_rows_sub).
                 Nothing of the PROPERTY is skipped here: the observed cells of this pipeline are still compared
                 in full with the generic pipeline's observed cells (check_same_results) and those in full with
                 the generic model; only "kernel model = observed kernel" is sampled.  Counted and reported in
                 the verdict (`OK sampled-kernel-replays=n`) and in the histogram (props/c01.py). *)
              incr sampled;
              match o with
              | OP -> ()
              | OM (mx, rows) ->
                  let a0 = if full then 0 else a in
                  let sample = List.sort_uniq compare [0; n - 1; n / 2; (Hashtbl.hash id) mod n] in
                  let sample = if budget p <= 4000 then [List.nth sample (List.length sample - 1); 0] else sample in
                  List.iter (fun i ->
                      match obs_of_model (rows_into p q (nat_of_int (a0 + i)) (nat_of_int (a0 + i + 1)) old) with
                      | Some (OM (mx', [| row |])) ->
                          if mx' <> mx || row <> rows.(i) then df (Printf.sprintf "%s%s row %d" p what i)
                      | _ -> df (Printf.sprintf "%s%s row %d outcome" p what i)) sample
            end in
          let g_full = parse_res c (oget "gs") in
          List.iter (fun p ->
              let o_full = parse_res c (tok p "s") in
              check_call p "s" o_full 0 r_rows { sc_mat = []; sc_max = O } true;
              (* the decisions below are taken by the extracted checkers check_same_results and
                 check_subrange (C01.check_C01_backends_sound, C01.check_C01_subrange_sound) *)
              if configured then begin
                if o_full = OP then pf (Printf.sprintf "%s: panic on a configured sequence" p)
                else if not (check_same_results (cobs c (oget "gs")) [cobs c (tok p "s")])
                then pf (Printf.sprintf "backend-mismatch %s full scan" p)
              end;
              (* sub-range calls run one after the other on the buffer of the full scan *)
              let buf = ref (sscores_of_tok c (tok p "s")) in
              List.iteri (fun i (a, b) ->
                  let key = Printf.sprintf "r%d" i in
                  let o = parse_res c (tok p key) in
                  check_call p key o a b !buf false;
                  if configured then begin
                    if not (check_same_results (cobs c (oget ("g" ^ key))) [cobs c (tok p key)])
                    then pf (Printf.sprintf "backend-mismatch %s rows %d:%d" p a b);
                    if a < b && b <= r_rows && l >= m then begin
                      match o, g_full with
                      | OM _, OM _ ->
                          if not (check_subrange (cobs c (oget "gs")) (cobs c (tok p key)) (nat_of_int a) (nat_of_int b))
                          then pf (Printf.sprintf "subrange %s rows %d:%d differ from the full scan" p a b)
                      | OP, _ -> pf (Printf.sprintf "subrange %s rows %d:%d panic" p a b)
                      | _, OP -> ()
                    end
                  end;
                  (match o with OM _ -> buf := sscores_of_tok c (tok p key) | OP -> ())) ranges)
            pipelines;
          (* ---- the values: count, definition, tolerance, -inf ---- *)
          let un = if oget "un" = "-" then None else parse_values (oget "un") in
          let same_as_model = ref true in   (* observed values = unstripe of the model, bit for bit *)
          let model_full = Lazy.force model_full in
          (match un, g_full with
           | Some vals, OM (_, grows) ->
               (* unstripe against the model *)
               (match model_full with
                | Ok sc ->
                    (match x_unstripe cn sc with
                     | Ok mv -> if Array.of_list (List.map int_of_f32 mv) <> vals then begin same_as_model := false; df "unstripe" end
                     | _ -> same_as_model := false; df "unstripe outcome")
                | _ -> same_as_model := false; df "unstripe without model result");
               if configured then begin
                 let nrows = Array.length grows in
                 if Array.length vals <> nvals then pf (Printf.sprintf "count %d expected %d" (Array.length vals) nvals)
                 else begin
                   Array.iteri (fun i v ->
                       if nrows = 0 || grows.(i mod nrows).(i / nrows) <> v then pf (Printf.sprintf "unstripe-order at %d" i)) vals;
                   let fvals = Array.to_list (Array.map f32_of_int vals) in
                   (* the property decision: the extracted checker proved sound in Coq
                      (C01.check_C01_sound : check_C01 = true -> Holds_C01) *)
                   if not (check_C01 wild pssm s fvals) then begin
                     (* locate the first failing position for the report *)
                     let bad = ref (-1) and code = ref 9 in
                     Array.iteri (fun i v ->
                         if !bad < 0 then begin
                           let t = f32_terms wild pssm s (nat_of_int i) in
                           match check_value t (f32_sum t) (f32_of_int v) with
                           | VBad c -> bad := i; code := int_of_nat c | _ -> ()
                         end) vals;
                     pf (Printf.sprintf "value at %d fails the definition (code %d)" !bad !code)
                   end else if not !same_as_model then begin
                     (* values that pass but are not the model's: say why they differ *)
                     match check_values wild pssm s fvals with
                     | VExact | VBad _ -> ()
                     | VClose -> df "values within tolerance but not bit-identical to the defined sum"
                     | VUnknown -> df "values differ from the defined sum (overflow or non-finite cells: nothing claimed)"
                   end
                 end
               end
           | None, OM _ -> if configured then pf "unstripe panics" else df "unstripe panics"
           | _, OP -> ());
          if ohas "mun" then begin
            let t = oget "mun" in
            if t <> "=" && configured then pf "ScoringMatrix::score unstripe differs from the generic pipeline"
            else if t <> "=" && t <> "P" then df "mun"
          end;
          (* ---- Index<usize> ---- *)
          (match g_full, model_full with
           | OM _, Ok sc ->
               List.iter (fun t ->
                   match String.split_on_char ':' t with
                   | [i; v] ->
                       let i = int_of_string i in
                       let mo = match x_sc_get sc (nat_of_int i) with Ok x -> Printf.sprintf "%08x" (int_of_f32 x) | Panic _ -> "P" | _ -> "?" in
                       if mo <> v then df (Printf.sprintf "index %d" i);
                       (match un with
                        | Some vals when configured && i < Array.length vals ->
                            if v <> Printf.sprintf "%08x" vals.(i) then pf (Printf.sprintf "index %d differs from unstripe" i)
                        | _ -> ())
                   | _ -> failwith "ix")
                 (if oget "ix" = "-" then [] else String.split_on_char ',' (oget "ix"))
           | _ -> ());
          (* ---- iterator (len, rev, mixed next / next_back), offset, conversions ---- *)
          (match g_full, model_full with
           | OM _, Ok sc ->
               let show = function Ok l -> Some l | _ -> None in
               let hex x = Printf.sprintf "%08x" (int_of_f32 x) in
               let nend = match un with Some v -> Array.length v | None -> -1 in
               if ohas "il" then begin
                 (* ExactSizeIterator::len = number of values of unstripe *)
                 if oget "il" <> string_of_int nend then df "iter().len()"
               end;
               if ohas "rv" then begin
                 let ops = List.init (max nend 0) (fun _ -> true) in
                 match show (x_iter_ops cn sc ops), parse_values (oget "rv") with
                 | Some l, Some vals ->
                     let mv = List.map (function Some x -> int_of_f32 x | None -> -1) l in
                     if Array.of_list mv <> vals then df "iter().rev()";
                     (* reverse iteration = unstripe reversed *)
                     (match un with
                      | Some u when configured ->
                          let n = Array.length u in
                          if Array.length vals <> n || not (Array.for_all (fun b -> b) (Array.mapi (fun i v -> v = u.(n - 1 - i)) vals))
                          then pf "iter().rev() is not the reverse of unstripe()"
                      | _ -> ())
                 | _, None -> df "iter().rev() panics"
                 | None, _ -> df "iter().rev() model"
               end;
               if ohas "mx" && get "it" <> "-" then begin
                 let ops = List.init (String.length (get "it")) (fun i -> (get "it").[i] = 'b') in
                 match show (x_iter_ops cn sc ops) with
                 | Some l ->
                     let ms = String.concat "," (List.map (function Some x -> hex x | None -> "N") l) in
                     if ms <> oget "mx" then df "iterator next/next_back sequence"
                 | None -> if oget "mx" <> "P" then df "iterator model"
               end;
               if ohas "of" && oget "of" <> "-" then begin
                 let rows = (match g_full with OM (_, r) -> Array.length r | OP -> 0) in
                 List.iter (fun t ->
                     match String.split_on_char ':' t with
                     | [i; o] ->
                         let i = int_of_string i in
                         if rows > 0 then begin
                           let mo = int_of_nat (x_offset sc (nat_of_int (i mod rows)) (nat_of_int (i / rows))) in
                           if o <> string_of_int mo then df (Printf.sprintf "offset %d" i)
                         end
                     | _ -> failwith "of") (String.split_on_char ',' (oget "of"))
               end;
               if ohas "cv" && oget "cv" <> "ok" then df ("conversions: " ^ oget "cv")
           | _ -> ());
          ignore ints;
          (* ---- score_position ---- *)
          List.iter (fun t ->
              match String.split_on_char ':' t with
              | [p; v] ->
                  let p = int_of_string p in
                  let mo = match x_score_position pssm q (nat_of_int p) with
                    | Ok x -> Printf.sprintf "%08x" (int_of_f32 x) | Panic _ -> "P" | _ -> "?" in
                  if mo <> v then df (Printf.sprintf "score_position %d" p);
                  if m >= 1 && p < nvals then begin
                    if v = "P" then pf (Printf.sprintf "score_position %d panics" p)
                    else begin
                      let terms = f32_terms wild pssm s (nat_of_int p) in
                      (let verdict = check_value terms (f32_sum terms) (f32_of_int (int_of_string ("0x" ^ v))) in
                       if not (passes verdict) then
                         pf (Printf.sprintf "score_position %d fails the definition (code %d)" p
                               (match verdict with VBad c -> int_of_nat c | _ -> 0)));
                      (match un with
                       | Some vals when configured && p < Array.length vals ->
                           if v <> Printf.sprintf "%08x" vals.(p) then pf (Printf.sprintf "score_position %d differs from the scan" p)
                       | _ -> ())
                    end
                  end
              | _ -> failwith "sp")
            (if oget "sp" = "-" then [] else String.split_on_char ',' (oget "sp"))
        with
        | Done -> ()
        | Not_found -> df "driver: missing field"
        | Failure e -> df ("driver: " ^ e)
        | Invalid_argument e -> df ("driver: " ^ e));
        (match !propfail, !diff with
         | Some s, _ -> print_endline (id ^ " PROPFAIL " ^ s)
         | None, Some s -> print_endline (id ^ " DIFF " ^ s)
         | None, None ->
             print_endline (if !sampled_calls = 0 then id ^ " OK"
                            else Printf.sprintf "%s OK sampled-kernel-replays=%d" id !sampled_calls))
      end
    done
  with End_of_file -> ()
