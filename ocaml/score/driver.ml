(* Driver for the extracted scoring models and the extracted checker of property C01.
   Reads the observation lines written by `score run` (see harness/src/bin/score.rs
   for the format) and prints one verdict per case:
     <id> OK | <id> PROPFAIL <why> | <id> DIFF <why>

   PROPFAIL (decided by the Coq-extracted checker [check_values]/[check_value] and by
   plain equality of bit patterns): wrong number of values, a value that is neither
   the defined left-to-right binary32 sum nor within the stated tolerance of the
   exact sum, a value that is not -inf although a term is, pipelines / dispatcher
   arms / sub-range calls that do not return identical values, a panic on a
   correctly configured sequence.
   DIFF: the implementation differs from the extracted model (cells incl. padding
   cells, max_index, panics, unstripe, Index, score_position, the Striped hypothesis
   on the matrix the library built) without failing the property checker. *)
open Score_model

let nat_of_int n = let rec go acc n = if n <= 0 then acc else go (S acc) (n - 1) in go O n
let int_of_nat n = let rec go acc = function O -> acc | S m -> go (acc + 1) m in go 0 n

let rec pos_of_int n =
  if n = 1 then XH else if n land 1 = 0 then XO (pos_of_int (n lsr 1)) else XI (pos_of_int (n lsr 1))
let z_of_int n = if n = 0 then Z0 else if n > 0 then Zpos (pos_of_int n) else Zneg (pos_of_int (-n))
let rec int_of_pos = function XH -> 1 | XO p -> 2 * int_of_pos p | XI p -> 2 * int_of_pos p + 1
let int_of_z = function Z0 -> 0 | Zpos p -> int_of_pos p | Zneg p -> - (int_of_pos p)

let f32_of_int (b : int) : f32 = x_of_bits (z_of_int b)
let int_of_f32 (x : f32) : int = int_of_z (x_to_bits x)

let hex8 s i = int_of_string ("0x" ^ String.sub s (8 * i) 8)

let kv tok = match String.index_opt tok '=' with
  | Some i -> (String.sub tok 0 i, String.sub tok (i + 1) (String.length tok - i - 1))
  | None -> (tok, "")

(* observed result of one call *)
type obs = OP | OM of int * int array array

let parse_cache : (string, obs) Hashtbl.t = Hashtbl.create 16
let scores_cache : (string, f32 sscores) Hashtbl.t = Hashtbl.create 16

let parse_res_raw c tok =
  if tok = "P" then OP else
  match String.split_on_char '/' tok with
  | [mx; nrows; body] ->
      let rows =
        if body = "" then [||]
        else Array.of_list (List.map (fun r -> Array.init c (fun i -> hex8 r i)) (String.split_on_char ',' body)) in
      if Array.length rows <> int_of_string nrows then failwith "row count";
      OM (int_of_string mx, rows)
  | _ -> failwith ("bad result token " ^ tok)

let parse_res c tok =
  match Hashtbl.find_opt parse_cache tok with
  | Some o -> o
  | None -> let o = parse_res_raw c tok in Hashtbl.replace parse_cache tok o; o

let obs_of_model (r : f32 sscores res) : obs option =
  match r with
  | Ok sc ->
      Some (OM (int_of_nat sc.sc_max,
                Array.of_list (List.map (fun row -> Array.of_list (List.map int_of_f32 row)) sc.sc_mat)))
  | Panic _ -> Some OP
  | _ -> None

let sscores_of_obs_raw (o : obs) : f32 sscores =
  match o with
  | OP -> { sc_mat = []; sc_max = O }
  | OM (mx, rows) ->
      { sc_mat = Array.to_list (Array.map (fun r -> Array.to_list (Array.map f32_of_int r)) rows);
        sc_max = nat_of_int mx }

(* the buffer a call starts from, given the token of the call that filled it *)
let sscores_of_tok c tok =
  match Hashtbl.find_opt scores_cache tok with
  | Some x -> x
  | None -> let x = sscores_of_obs_raw (parse_res c tok) in Hashtbl.replace scores_cache tok x; x

let parse_values tok =
  if tok = "P" then None else
  match String.split_on_char '/' tok with
  | [n; body] ->
      let n = int_of_string n in
      if String.length body <> 8 * n then failwith "value count";
      Some (Array.init n (fun i -> hex8 body i))
  | _ -> failwith ("bad values token " ^ tok)

let dna = "ACTGN"
let prot = "ACDEFGHIKLMNPQRSTVWYX"

let () =
  if not x_layout_ok then begin prerr_endline "avx2 lane layout check failed"; exit 3 end;
  try
    while true do
      let line = input_line stdin in
      if String.length line > 0 && line.[0] <> '#' then begin
        let (inp, obs) =
          match Str.bounded_split (Str.regexp_string " => ") line 2 with
          | [a; b] -> (a, b) | [a] -> (a, "") | _ -> failwith "bad line" in
        let toks = String.split_on_char ' ' inp in
        let id = List.hd toks in
        Hashtbl.reset parse_cache; Hashtbl.reset scores_cache;
        let propfail = ref None and diff = ref None in
        let pf s = if !propfail = None then propfail := Some s in
        let df s = if !diff = None then diff := Some s in
        (try
          let fields = List.map kv (List.tl toks) in
          let get k = List.assoc k fields in
          let ofields = List.map kv (String.split_on_char ' ' obs) in
          let oget k = List.assoc k ofields in
          let ohas k = List.mem_assoc k ofields in
          let alpha = if get "abc" = "dna" then dna else prot in
          let k = String.length alpha in
          let c = int_of_string (get "C") in
          let cn = nat_of_int c and kn = nat_of_int k and wild = nat_of_int (k - 1) in
          let pad = f32_of_int (int_of_string ("0x" ^ get "pad")) in
          let pssm_bits : int array list =
            if get "pssm" = "-" then []
            else List.map (fun r -> Array.init k (fun i -> hex8 r i)) (String.split_on_char ';' (get "pssm")) in
          let pssm : f32 list list = List.map (fun r -> Array.to_list (Array.map f32_of_int r)) pssm_bits in
          let m = List.length pssm in
          (* padding floats after the K cells of each row: stride(4, K, 32) - K *)
          let stride = ((k * 4 + 31) / 32) * 8 in
          let pad_row : f32 list = List.init (stride - k) (fun _ -> pad) in
          let pads : nat -> f32 list = fun _ -> pad_row in
          let seq_s = if get "seq" = "-" then "" else get "seq" in
          let l = String.length seq_s in
          let s_int = List.init l (fun i -> String.index alpha seq_s.[i]) in
          let s : nat list = List.map nat_of_int s_int in
          let ranges =
            if get "rows" = "-" then []
            else List.map (fun r -> match String.split_on_char ':' r with
                | [a; b] -> (int_of_string a, int_of_string b) | _ -> failwith "range")
                (String.split_on_char ',' (get "rows")) in
          let ints v = if v = "-" || v = "" then [] else List.map int_of_string (String.split_on_char ',' v) in
          let r_rows = (l + c - 1) / c in
          (* ---- the striped matrix built by the library ---- *)
          let (q : sseq), wrap =
            match String.split_on_char '/' (oget "sq") with
            | [len; wr; body] ->
                let rows = if body = "" then [] else
                    List.map (fun r -> List.init (String.length r) (fun i -> nat_of_int (Char.code r.[i] - 97)))
                      (String.split_on_char ',' body) in
                ({ sq_len = nat_of_int (int_of_string len); sq_wrap = nat_of_int (int_of_string wr); sq_mat = rows },
                 int_of_string wr)
            | _ -> failwith "bad sq" in
          let expected_wrap = if get "wrap" = "m" then max 0 (m - 1) else int_of_string (get "wrap") in
          if wrap <> expected_wrap then df (Printf.sprintf "wrap %d expected %d" wrap expected_wrap);
          if not (x_striped_b cn wild s q) then df "striped-hypothesis";
          let configured = m >= 1 && wrap >= m - 1 in
          let nvals = max 0 (l + 1 - m) in
          (* ---- pipelines ---- *)
          let rows_into p : sseq -> nat -> nat -> f32 sscores -> f32 sscores res =
            match p with
            | "g" -> x_generic_rows_into cn pssm
            | "s" -> x_sse2_rows_into cn pssm
            | "a" -> x_avx2_rows_into kn pssm pads
            | "dg" | "mg" -> x_dispatch_rows_into kn pssm pads ArmGeneric
            | "ds" | "ms" -> x_dispatch_rows_into kn pssm pads ArmSse2
            | "da" | "ma" | "md" -> x_dispatch_rows_into kn pssm pads ArmAvx2
            | _ -> failwith "pipeline" in
          let row_cost p = c * (max m 1) * (match p with "s" | "ds" | "ms" -> k | _ -> 1) in
          let budget p = match p with "g" -> max_int | "s" | "a" -> 40000 | _ -> 4000 in
          let pipelines = List.filter (fun p -> ohas (p ^ "s")) ["g"; "s"; "a"; "dg"; "ds"; "da"; "mg"; "ms"; "ma"; "md"] in
          (* observed tokens, "=" resolved to the generic pipeline's token *)
          let tok p key = let t = oget (p ^ key) in if t = "=" then oget ("g" ^ key) else t in
          (* compare one observed call with the model of pipeline p on rows [a, b) *)
          let check_call p what (o : obs) (a : int) (b : int) (old : f32 sscores) full =
            let run a b = if full then x_score_with (rows_into p) q else rows_into p q (nat_of_int a) (nat_of_int b) old in
            let n = match o with OM (_, rows) -> Array.length rows | OP -> 0 in
            if n = 0 || n * row_cost p <= budget p then begin
              match obs_of_model (run a b) with
              | None -> df (Printf.sprintf "%s%s model-error" p what)
              | Some mo -> if mo <> o then df (Printf.sprintf "%s%s cells-or-outcome" p what)
            end else begin
              (* too costly for a full replay: guards + a sample of rows, each through a one-row call
                 (rows of a sub-range call = rows of the full scan: score_rows_sub) *)
              match o with
              | OP -> ()
              | OM (mx, rows) ->
                  let a0 = if full then 0 else a in
                  let sample = List.sort_uniq compare [0; n - 1; n / 2; (Hashtbl.hash id) mod n] in
                  let sample = if budget p <= 4000 then [List.nth sample (List.length sample - 1); 0] else sample in
                  List.iter (fun i ->
                      match obs_of_model (rows_into p q (nat_of_int (a0 + i)) (nat_of_int (a0 + i + 1)) old) with
                      | Some (OM (mx', [| row |])) ->
                          if mx' <> mx || row <> rows.(i) then df (Printf.sprintf "%s%s row %d" p what i)
                      | _ -> df (Printf.sprintf "%s%s row %d outcome" p what i)) sample
            end in
          let g_full = parse_res c (oget "gs") in
          List.iter (fun p ->
              let o_full = parse_res c (tok p "s") in
              check_call p "s" o_full 0 r_rows { sc_mat = []; sc_max = O } true;
              if configured then begin
                if o_full = OP then pf (Printf.sprintf "%s: panic on a configured sequence" p)
                else if o_full <> g_full then pf (Printf.sprintf "backend-mismatch %s full scan" p)
              end;
              (* sub-range calls run one after the other on the buffer of the full scan *)
              let buf = ref (sscores_of_tok c (tok p "s")) in
              List.iteri (fun i (a, b) ->
                  let key = Printf.sprintf "r%d" i in
                  let o = parse_res c (tok p key) in
                  check_call p key o a b !buf false;
                  if configured then begin
                    let g_o = parse_res c (oget ("g" ^ key)) in
                    if o <> g_o then pf (Printf.sprintf "backend-mismatch %s rows %d:%d" p a b);
                    if a < b && b <= r_rows && l >= m then begin
                      match o, g_full with
                      | OM (mx, rows), OM (gmx, grows) ->
                          if mx <> gmx || Array.length rows <> b - a
                             || not (Array.for_all (fun x -> x) (Array.mapi (fun j row -> a + j < Array.length grows && row = grows.(a + j)) rows))
                          then pf (Printf.sprintf "subrange %s rows %d:%d differ from the full scan" p a b)
                      | OP, _ -> pf (Printf.sprintf "subrange %s rows %d:%d panic" p a b)
                      | _, OP -> ()
                    end
                  end;
                  (match o with OM _ -> buf := sscores_of_tok c (tok p key) | OP -> ())) ranges)
            pipelines;
          (* ---- the values: count, definition, tolerance, -inf ---- *)
          let un = if oget "un" = "-" then None else parse_values (oget "un") in
          let model_full = x_score_with (rows_into "g") q in
          (match un, g_full with
           | Some vals, OM (_, grows) ->
               (* unstripe against the model *)
               (match model_full with
                | Ok sc ->
                    (match x_unstripe cn sc with
                     | Ok mv -> if Array.of_list (List.map int_of_f32 mv) <> vals then df "unstripe"
                     | _ -> df "unstripe outcome")
                | _ -> df "unstripe without model result");
               if configured then begin
                 let nrows = Array.length grows in
                 if Array.length vals <> nvals then pf (Printf.sprintf "count %d expected %d" (Array.length vals) nvals)
                 else begin
                   Array.iteri (fun i v ->
                       if nrows = 0 || grows.(i mod nrows).(i / nrows) <> v then pf (Printf.sprintf "unstripe-order at %d" i)) vals;
                   match check_values wild pssm s (Array.to_list (Array.map f32_of_int vals)) with
                   | VExact -> ()
                   | VBad code ->
                       (* locate the first failing position for the report *)
                       let bad = ref (-1) in
                       Array.iteri (fun i v ->
                           if !bad < 0 then begin
                             let t = f32_terms wild pssm s (nat_of_int i) in
                             match check_value t (f32_sum t) (f32_of_int v) with VBad _ -> bad := i | _ -> ()
                           end) vals;
                       pf (Printf.sprintf "value at %d fails the definition (code %d)" !bad (int_of_nat code))
                   | VClose -> df "values within tolerance but not bit-identical to the defined sum"
                   | VUnknown -> df "values differ from the defined sum (overflow or non-finite cells: nothing claimed)"
                 end
               end
           | None, OM _ -> if configured then pf "unstripe panics" else df "unstripe panics"
           | _, OP -> ());
          if ohas "mun" then begin
            let t = oget "mun" in
            if t <> "=" && configured then pf "ScoringMatrix::score unstripe differs from the generic pipeline"
            else if t <> "=" && t <> "P" then df "mun"
          end;
          (* ---- Index<usize> ---- *)
          (match g_full, model_full with
           | OM _, Ok sc ->
               List.iter (fun t ->
                   match String.split_on_char ':' t with
                   | [i; v] ->
                       let i = int_of_string i in
                       let mo = match x_sc_get sc (nat_of_int i) with Ok x -> Printf.sprintf "%08x" (int_of_f32 x) | Panic _ -> "P" | _ -> "?" in
                       if mo <> v then df (Printf.sprintf "index %d" i);
                       (match un with
                        | Some vals when configured && i < Array.length vals ->
                            if v <> Printf.sprintf "%08x" vals.(i) then pf (Printf.sprintf "index %d differs from unstripe" i)
                        | _ -> ())
                   | _ -> failwith "ix")
                 (if oget "ix" = "-" then [] else String.split_on_char ',' (oget "ix"))
           | _ -> ());
          ignore ints;
          (* ---- score_position ---- *)
          List.iter (fun t ->
              match String.split_on_char ':' t with
              | [p; v] ->
                  let p = int_of_string p in
                  let mo = match x_score_position pssm q (nat_of_int p) with
                    | Ok x -> Printf.sprintf "%08x" (int_of_f32 x) | Panic _ -> "P" | _ -> "?" in
                  if mo <> v then df (Printf.sprintf "score_position %d" p);
                  if m >= 1 && p < nvals then begin
                    if v = "P" then pf (Printf.sprintf "score_position %d panics" p)
                    else begin
                      let terms = f32_terms wild pssm s (nat_of_int p) in
                      (match check_value terms (f32_sum terms) (f32_of_int (int_of_string ("0x" ^ v))) with
                       | VBad code -> pf (Printf.sprintf "score_position %d fails the definition (code %d)" p (int_of_nat code))
                       | _ -> ());
                      (match un with
                       | Some vals when configured && p < Array.length vals ->
                           if v <> Printf.sprintf "%08x" vals.(p) then pf (Printf.sprintf "score_position %d differs from the scan" p)
                       | _ -> ())
                    end
                  end
              | _ -> failwith "sp")
            (if oget "sp" = "-" then [] else String.split_on_char ',' (oget "sp"))
        with
        | Not_found -> df "driver: missing field"
        | Failure e -> df ("driver: " ^ e)
        | Invalid_argument e -> df ("driver: " ^ e));
        (match !propfail, !diff with
         | Some s, _ -> print_endline (id ^ " PROPFAIL " ^ s)
         | None, Some s -> print_endline (id ^ " DIFF " ^ s)
         | None, None -> print_endline (id ^ " OK"))
      end
    done
  with End_of_file -> ()
