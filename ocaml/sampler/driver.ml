(* Driver for the extracted Gibbs sampler model (property C16).
   Reads observation lines produced by `sampler run` on stdin (format: see
   harness/src/bin/sampler.rs) and prints one verdict per case:
     <id> OK | <id> PROPFAIL <why> | <id> DIFF <why>

   PROPFAIL (decided on the implementation's observations alone by the whole-trace checker
   check_C16 extracted from Coq (binary32 instance; C16.v: check_C16_sound / _complete);
   its components check_state / check_iteration / check_range ... only supply the detail):
     - a reported state (after construction / after a next()) whose count matrix is
       not the recomputation from the reported active set and start positions, whose
       background frequencies are not the normalised recomputed background counts
       (replayed bit for bit in binary32 through LMBase.IEEE: count as f32 / total as
       f32), whose sequence count is not the number of active sequences, or with a
       window that does not lie inside its sequence;
     - Iteration.counts that are not the recomputation from the alignment without z
       (checked against the alignment reported before and after the call);
     - Iteration.step that is not the number of the call;
     - two runs of the same configuration that printed different traces.
   DIFF: the model, replayed with the choice list read off the trace (z from the
   Iteration, new start from verif_starts, accept / reject from the active set),
   does not reproduce a reported state, the convergence, or a panic.
   Word stream (rw= fields; SamplerStream.v, C16F.sampler_deterministic): the initial starts
   (starts_w) and the hold-out of EVERY call (holdout_w) are recomputed from the words the
   generator handed out and must equal the implementation's; the words left after the
   hold-out's are none (start kept) or exactly one 64-bit word (the draw); the first calls are
   replayed through next_w as a whole.
   Panics: an implementation panic (record P;at=<file>;msg=<message>;rw=<words>) is explained
   only if the model, run on the SAME words (hold-out from holdout_w), panics at a documented
   site whose message class (table site_class below) is the implementation's. *)
open Sampler_model

let rec nat_of_int n = if n <= 0 then O else S (nat_of_int (n - 1))
let int_of_nat n = let rec go acc = function O -> acc | S n -> go (acc + 1) n in go 0 n
let rec pos_of_int n =
  if n = 1 then XH else if n land 1 = 0 then XO (pos_of_int (n lsr 1)) else XI (pos_of_int (n lsr 1))
let rec int_of_pos = function XH -> 1 | XO p -> 2 * int_of_pos p | XI p -> 2 * int_of_pos p + 1
let n_of_int n = if n = 0 then N0 else Npos (pos_of_int n)
let int_of_n = function N0 -> 0 | Npos p -> int_of_pos p
let z_of_int n = if n = 0 then Z0 else if n > 0 then Zpos (pos_of_int n) else Zneg (pos_of_int (-n))
let int_of_z = function Z0 -> 0 | Zpos p -> int_of_pos p | Zneg p -> - (int_of_pos p)

(* The frequency rendering count as f32 / total as f32 is the extracted freq_f32 (Flocq binary32
   division, ~16 us per call); it is a pure function of two small integers, so the checkers —
   which are parametric in it (C16.v quantifies over every rendering function) — are given a
   memoised copy. *)
let freq_tbl : (int * int, z) Hashtbl.t = Hashtbl.create 4096
let freq_memo (c : n) (t : n) : z =
  let key = (int_of_n c, int_of_n t) in
  match Hashtbl.find_opt freq_tbl key with
  | Some v -> v
  | None -> let v = freq_f32 c t in Hashtbl.replace freq_tbl key v; v
let check_state_f32 = check_state freq_memo
let check_bg_f32 = check_bg freq_memo
let expected_bg_bits_f32 = expected_bg_bits freq_memo
let report_of_f32 = report_of freq_memo
let check_C16_f32 = check_C16 freq_memo

let split c s = if s = "" || s = "-" then [] else String.split_on_char c s
let ints s = List.map int_of_string (split ',' s)

(* ---------- floating-point replay: 64-bit conversions and the libm oracle tables ---------- *)
let z_of_i64u (b : int64) : z =
  if b = 0L then Z0 else begin
    let rec go i acc =       (* bits below the leading one, most significant first *)
      if i < 0 then acc
      else go (i - 1) (if Int64.logand (Int64.shift_right_logical b i) 1L = 1L then XI acc else XO acc) in
    let rec top i = if Int64.logand (Int64.shift_right_logical b i) 1L = 1L then i else top (i - 1) in
    let t = top 63 in
    Zpos (go (t - 1) XH)
  end
let i64_of_z (v : z) : int64 =
  let rec pos = function XH -> 1L | XO p -> Int64.shift_left (pos p) 1 | XI p -> Int64.logor (Int64.shift_left (pos p) 1) 1L in
  match v with Z0 -> 0L | Zpos p -> pos p | Zneg p -> Int64.neg (pos p)
let f32_of_int b = F32.of_bits (z_of_int b)
let int_of_f32 x = int_of_z (F32.to_bits x)
let f64_of_i64 b = F64.of_bits (z_of_i64u b)
let i64_of_f64 x = i64_of_z (F64.to_bits x)
let float_of_f32bits b = Int32.float_of_bits (Int32.of_int b)
let u64s s = List.map (fun t -> Int64.of_string ("0u" ^ t)) (split ',' s)

(* tables input bits -> output bits of f32::log2, 2f32.powf(x), 2f64.powf(y), filled from the
   harness' records (outputs of this platform's libm) at the inputs computed by the model; every
   entry is re-validated: one output per input, and close to OCaml's own log2 / pow *)
let log2tab : (int, int) Hashtbl.t = Hashtbl.create 1024
let pow2tab : (int, int) Hashtbl.t = Hashtbl.create 1024
let exp2tab : (int64, int64) Hashtbl.t = Hashtbl.create 1024
let oracle_bad : string option ref = ref None
let obad s = if !oracle_bad = None then oracle_bad := Some s
let close32 (got : float) (want : float) =
  (Float.is_nan got && Float.is_nan want) || got = want
  || Float.abs (got -. want) <= 3e-7 *. Float.abs want +. 1e-44
let close64 (got : float) (want : float) =
  (Float.is_nan got && Float.is_nan want) || got = want
  || Float.abs (got -. want) <= 1e-15 *. Float.abs want +. 1e-320
let add_log2 i o =
  (match Hashtbl.find_opt log2tab i with
   | Some o' when o' <> o -> obad (Printf.sprintf "log2-two-outputs-for-input-%d" i)
   | _ -> Hashtbl.replace log2tab i o);
  if not (close32 (float_of_f32bits o) (Float.log2 (float_of_f32bits i))) then
    obad (Printf.sprintf "log2-inaccurate in=%d out=%d" i o)
let add_pow2 i o =
  (match Hashtbl.find_opt pow2tab i with
   | Some o' when o' <> o -> obad (Printf.sprintf "powf-two-outputs-for-input-%d" i)
   | _ -> Hashtbl.replace pow2tab i o);
  if not (close32 (float_of_f32bits o) (Float.pow 2.0 (float_of_f32bits i))) then
    obad (Printf.sprintf "powf-inaccurate in=%d out=%d" i o)
let add_exp2 i o =
  (match Hashtbl.find_opt exp2tab i with
   | Some o' when o' <> o -> obad (Printf.sprintf "exp2-two-outputs-for-input-%Ld" i)
   | _ -> Hashtbl.replace exp2tab i o);
  if not (close64 (Int64.float_of_bits o) (Float.pow 2.0 (Int64.float_of_bits i))) then
    obad (Printf.sprintf "exp2-inaccurate in=%Ld out=%Ld" i o)
let oracle_miss = ref false
let flog2 x = match Hashtbl.find_opt log2tab (int_of_f32 x) with
  | Some o -> f32_of_int o | None -> oracle_miss := true; f32_of_int 0x7FC00000
let fpow2 x = match Hashtbl.find_opt pow2tab (int_of_f32 x) with
  | Some o -> f32_of_int o | None -> oracle_miss := true; f32_of_int 0x7FC00000
let fexp2 y = match Hashtbl.find_opt exp2tab (i64_of_f64 y) with
  | Some o -> f64_of_i64 o | None -> oracle_miss := true; f64_of_i64 0x7FF8000000000000L


(* stand-ins for libm, used ONLY to explain a weight-overflow panic (site 8), where the implementation's
   own values are lost with the panicking call: OCaml's log2 / pow rounded to binary32 / binary64.  Not bit
   exact; the decision "some weight is +inf" is robust (scores far above 1024). *)
let approx_log2 (x : F32.t) : F32.t =
  f32_of_int ((Int32.to_int (Int32.bits_of_float (Float.log2 (float_of_f32bits (int_of_f32 x))))) land 0xFFFFFFFF)
let approx_exp2 (y : F64.t) : F64.t =
  f64_of_i64 (Int64.bits_of_float (Float.pow 2.0 (Int64.float_of_bits (i64_of_f64 y))))

let kv tok = match String.index_opt tok '=' with
  | Some i -> (String.sub tok 0 i, String.sub tok (i + 1) (String.length tok - i - 1))
  | None -> (tok, "")

exception Bad of string

(* rw= : words of the generator, <width>:<value> *)
let parse_words (s : string) : word list =
  List.map (fun t -> match String.split_on_char ':' t with
      | ["64"; v] -> W64 (z_of_i64u (Int64.of_string ("0u" ^ v)))
      | ["32"; v] -> W32 (z_of_i64u (Int64.of_string ("0u" ^ v)))
      | _ -> raise (Bad ("word-of-unmodelled-kind " ^ t))) (split ',' s)

let starts_with pre s = String.length s >= String.length pre && String.sub s 0 (String.length pre) = pre
let contains sub s = try ignore (Str.search_forward (Str.regexp_string sub) s 0); true with Not_found -> false

(* documented panic sites of the model (SamplerModel.v) and the source file / message of the Rust panic
   behind each; an implementation panic is explained only by a model panic of the same site *)
let site_class (site : int) (at : string) (msg : string) : bool =
  match site with
  | 1 -> at = "sampler.rs" && starts_with "booh" msg
  | 2 -> (at = "sampler.rs" && starts_with "attempt_to_subtract_with_overflow" msg)
         (* release profile: seq.len() - width + 1 wraps; what follows depends on the wrapped value
            (Uniform::new(0, 0), or a start far outside the sequence).  Site 2 is decided by the
            data set alone (a sequence shorter than the width: outside the quantifier of C16). *)
         || (at = "uniform.rs" && starts_with "Uniform__new_called_with__low____high_" msg)
         || starts_with "attempt_to_divide_by_zero" msg
         || starts_with "index_out_of_bounds" msg
         || starts_with "range_end_index" msg || starts_with "range_start_index" msg
         || starts_with "attempt_to_add_with_overflow" msg
  | 5 -> at = "sampler.rs" && starts_with "called__Option__unwrap____on_a__None__value" msg
  | 6 -> at = "uniform.rs" && starts_with "Uniform__new_called_with__low____high_" msg
  | 7 -> at = "sampler.rs" && starts_with "called__Result__unwrap____on_an__Err__value" msg
  | 8 -> at = "uniform.rs" && starts_with "Uniform__new" msg && (contains "finite" msg || contains "overflow" msg)
  | 9 -> at = "sampler.rs" && starts_with "attempt_to_add_with_overflow" msg
  | 14 -> at = "sampler.rs" && starts_with "attempt_to_multiply_with_overflow" msg
  | _ -> false
let documented_site ~construction site =
  if construction then List.mem site [1; 2; 14] else List.mem site [5; 6; 7; 8; 9]

(* ---- printing in the harness' format ---- *)
let show_ints l = if l = [] then "-" else String.concat "," (List.map string_of_int l)
let cell36 v =
  if v < 10 then String.make 1 (Char.chr (48 + v))
  else if v < 36 then String.make 1 (Char.chr (87 + v))
  else Printf.sprintf "(%d)" v
let show_cm (m : matrix) =
  if m = [] then "-" else
  String.concat "/" (List.map (fun r -> String.concat "" (List.map (fun x -> cell36 (int_of_n x)) r)) m)

(* ---- parsing the harness' format ---- *)
let parse_cm s : matrix =
  if s = "-" then [] else
  List.map (fun row ->
      let out = ref [] and i = ref 0 and n = String.length row in
      while !i < n do
        let c = row.[!i] in
        if c = '(' then begin
          let j = String.index_from row !i ')' in
          out := n_of_int (int_of_string (String.sub row (!i + 1) (j - !i - 1))) :: !out;
          i := j + 1
        end else begin
          let v = if c >= '0' && c <= '9' then Char.code c - 48
            else if c >= 'a' && c <= 'z' then Char.code c - 87
            else raise (Bad ("bad count cell " ^ row)) in
          out := n_of_int v :: !out; incr i
        end
      done;
      List.rev !out) (String.split_on_char '/' s)

type rstate = {
  n : string; cm : string; bg : string; active : int list; astarts : int list; starts : int list }

(* the six state fields; further fields (r=, p=, w=, e=, q=, f=: floating-point details) follow *)
let parse_state = function
  | n :: cm :: bg :: a :: ast :: st :: _ -> { n; cm; bg; active = ints a; astarts = ints ast; starts = ints st }
  | _ -> raise (Bad "bad state record")
let extras = function
  | _ :: _ :: _ :: _ :: _ :: _ :: ex -> List.map kv ex
  | _ -> []

let act_bits nseq (active : int list) = List.init nseq (fun i -> List.mem i active)

(* the alignment the property speaks of: active_sequences() with active_starts();
   the start of an inactive sequence comes from the hook verif_starts() *)
let report_of_rstate nseq (r : rstate) : report option =
  if List.length r.astarts <> List.length r.active then None
  else if r.n = "P" || r.cm = "P" then None
  else begin
    let starts = Array.of_list r.starts in
    let starts = if Array.length starts = nseq then starts else Array.make nseq 0 in
    List.iter2 (fun i s -> if i >= 0 && i < nseq then starts.(i) <- s) r.active r.astarts;
    Some { r_active = act_bits nseq r.active;
           r_starts = List.map nat_of_int (Array.to_list starts);
           r_n = n_of_int (int_of_string r.n);
           r_cm = parse_cm r.cm;
           r_bg = (if r.bg = "P" then None else Some (List.map z_of_int (ints r.bg))) }
  end

let show_bits = function
  | None -> "P"
  | Some l -> show_ints (List.map int_of_z l)

let letters abc = if abc = "protein" then "ACDEFGHIKLMNPQRSTVWYX" else "ACTGN"

let () =
  try
    while true do
      let line = input_line stdin in
      if String.length line > 0 && line.[0] <> '#' then begin
        let (inp, obs) =
          match Str.bounded_split_delim (Str.regexp_string " => ") line 2 with
          | [a; b] -> (a, b) | [a] -> (a, "") | _ -> failwith "bad line" in
        let toks = String.split_on_char ' ' inp in
        let id = List.hd toks in
        let verdict = ref "OK" in
        Hashtbl.reset log2tab; Hashtbl.reset pow2tab; Hashtbl.reset exp2tab; oracle_bad := None;
        (* PROPFAIL takes precedence over DIFF, first of each kind wins *)
        let propfail s = if String.length !verdict < 8 || String.sub !verdict 0 8 <> "PROPFAIL" then verdict := "PROPFAIL " ^ s in
        let diff s = if !verdict = "OK" then verdict := "DIFF " ^ s in
        (try
          let fields = List.map kv (List.tl toks) in
          let get k = try List.assoc k fields with Not_found -> raise (Bad ("missing field " ^ k)) in
          let abc = get "abc" in
          let lt = letters abc in
          let k = String.length lt in
          let w = int_of_string (get "w") in
          let seqs = List.map (fun s -> if s = "." then "" else s) (split ',' (get "seqs")) in
          let data_i = List.map (fun s ->
              List.init (String.length s) (fun i ->
                  match String.index_opt lt s.[i] with Some x -> x | None -> raise (Bad "symbol outside the alphabet"))) seqs in
          let data : seqt list = List.map (List.map nat_of_int) data_i in
          let nseq = List.length data in
          let wrap = int_of_string (get "wrap") in
          let wraps = List.map (fun _ -> nat_of_int wrap) data in
          let kn = nat_of_int k and wn = nat_of_int w in
          let zoops = get "mode" = "zoops" in
          let optf name = match get name with "-" -> None | s -> Some (n_of_int (int_of_string s)) in
          (* observation *)
          let parts = String.split_on_char '|' obs in
          let (hdr, recs) = match parts with
            | kf :: cnt :: sym :: raw :: rr :: wts :: pssm :: recs -> ((kf, cnt, sym, raw, rr, wts, pssm), recs)
            | _ -> raise (Bad "bad observation") in
          let (kf, cnt, sym, raw, rr, wts, pssm) = hdr in
          if kf <> "K=" ^ string_of_int k then diff ("alphabet-size " ^ kf);
          (* model assumptions about the data set: cached counts and indexing *)
          let exp_cnt = String.concat "/" (List.map (fun c -> show_ints (List.map int_of_n c)) (sampler_data_counts kn data)) in
          let exp_cnt = if exp_cnt = "" then "-" else exp_cnt in
          if cnt <> "cnt=" ^ exp_cnt then diff "count_symbols-of-striped-sequence";
          let exp_sym = String.concat "/" (List.map show_ints data_i) in
          let exp_sym = if exp_sym = "" then "-" else exp_sym in
          if sym <> "sym=" ^ exp_sym then diff "index-of-striped-sequence";
          (* the data set handed to the model is the first len cells of every striped sequence in linear
             order; for src=matrix / src=sample the remaining cells are the (non-wildcard) padding of pads= *)
          let src = (try get "src" with Bad _ -> "text") in
          let pads = (try List.map (fun s -> if s = "." then "" else s) (split ',' (get "pads")) with Bad _ -> []) in
          if raw <> "raw=P" then begin
            let raws = if raw = "raw=-" then [] else
                List.map (fun s -> if s = "." then "" else s)
                  (String.split_on_char ',' (String.sub raw 4 (String.length raw - 4))) in
            if List.length raws <> nseq then diff "raw-cells-number-of-sequences"
            else List.iteri (fun i r ->
                let t = List.nth seqs i in
                let lt = String.length t in
                if String.length r < lt || String.sub r 0 lt <> t then diff (Printf.sprintf "raw-cells-of-sequence-%d-do-not-start-with-the-sequence" i)
                else if src <> "text" then begin
                  let pd = (try List.nth pads i with _ -> "") in
                  if String.sub r lt (String.length r - lt) <> pd then diff (Printf.sprintf "raw-cells-of-sequence-%d-padding-differs-from-pads" i)
                end) raws
          end;
          if rr <> "rerun=same" then propfail ("nondeterministic-trace " ^ rr);
          (* model assumption about the choices: the new start is drawn among len - width + 1 weights *)
          if wts <> "wts=ok" then diff ("weights-not-over-exactly-the-valid-start-positions " ^ wts);
          (* model assumption about prepare_pssm: called between exclude_sequence and update_holdout *)
          if pssm <> "pssm=ok" then diff ("iteration-pssm-is-not-the-scoring-matrix-of-the-alignment-without-z " ^ pssm);
          (* model construction *)
          let construct starts0 seeds0 =
            if get "api" = "new" then sampler_new kn wn data wraps starts0
            else begin
              let ord = (try get "ord" with Bad _ -> "0") = "1" in
              let ine = match optf "inertia" with Some i -> [BInertia i] | None -> [] in
              let ops = [BWidth wn; BMode (if zoops then Zoops else Oops)]
                        @ (if ord then ine else [])
                        @ (match optf "seeds" with Some s -> [BSeeds s] | None -> [])
                        @ (if ord then [] else ine)
                        @ (match optf "patience" with Some p -> [BPatience p] | None -> []) in
              match builder_run builder_new ops with
              | Ok b -> builder_sample kn data wraps b starts0 seeds0
              | Panic s -> Panic s | Err e -> Err e | OutOfFuel -> OutOfFuel
            end in
          let zoops_eff = zoops && get "api" <> "new" in
          (* check one reported state against the property (extracted checkers) *)
          let check_reported ~detail tag (r : rstate) =
            match report_of_rstate nseq r with
            | None ->
                if List.length r.astarts <> List.length r.active then propfail (tag ^ " active_starts-length")
                else diff (tag ^ " count_matrix-panicked");
                None
            | Some rep ->
                if List.exists (fun i -> i < 0 || i >= nseq) r.active then propfail (tag ^ " active-index-out-of-range")
                else if detail && not (check_state_f32 kn wn data rep) then begin
                  let why =
                    if not (check_range wn data rep) then "start-out-of-range"
                    else if not (check_motif kn wn data rep) then
                      "count-matrix-differs-from-recomputation expected " ^ show_cm (recompute_motif kn wn data rep.r_active rep.r_starts) ^ " got " ^ r.cm
                    else if not (check_bg_f32 kn wn data rep) then
                      "background-differs-from-recomputation expected " ^ show_bits (expected_bg_bits_f32 kn wn data rep.r_active rep.r_starts) ^ " got " ^ r.bg
                    else "sequence-count-differs-from-active-set" in
                  propfail (tag ^ " " ^ why)
                end;
                if List.length r.starts <> nseq then diff (tag ^ " verif_starts-length")
                else if List.exists2 (fun i s -> List.nth r.starts i <> s) r.active r.astarts then
                  diff (tag ^ " verif_starts-disagrees-with-active_starts");
                Some rep in
          (* compare a model state with a reported one *)
          let same_state tag (st : state) (r : rstate) =
            let rep = report_of_f32 st in
            let m_active = List.map int_of_nat (active_sequences st) in
            if m_active <> r.active then diff (tag ^ " active-set model " ^ show_ints m_active ^ " impl " ^ show_ints r.active)
            else if List.map int_of_nat st.st_starts <> r.starts then diff (tag ^ " starts")
            else if (match active_starts st with Ok l -> List.map int_of_nat l <> r.astarts | _ -> true) then diff (tag ^ " active_starts")
            else if show_cm st.st_motif <> r.cm then diff (tag ^ " count-matrix model " ^ show_cm st.st_motif ^ " impl " ^ r.cm)
            else if string_of_int (int_of_n st.st_count) <> r.n then diff (tag ^ " sequence-count")
            else if show_bits rep.r_bg <> r.bg then diff (tag ^ " background model " ^ show_bits rep.r_bg ^ " impl " ^ r.bg) in
          (match recs with
           | [] -> raise (Bad "no records")
           | prec :: rest when prec = "P" || starts_with "P;" prec ->
               if rest <> [] then diff "records-after-panic";
               let pex = List.map kv (List.tl (String.split_on_char ';' prec)) in
               let at = (try List.assoc "at" pex with Not_found -> "?") and msg = (try List.assoc "msg" pex with Not_found -> "?") in
               (match construct [] [] with
                | Panic s ->
                    (* the choice-independent panics come first in the model; the site must be a documented one
                       and the implementation's panic must be the one behind that site *)
                    let s = int_of_nat s in
                    if not (documented_site ~construction:true s) then
                      diff (Printf.sprintf "construction-panicked-model-panics-at-undocumented-site-%d" s)
                    else if not (site_class s at msg) then
                      diff (Printf.sprintf "construction-panic-at-%s-%s-is-not-the-panic-of-model-site-%d" at msg s)
                | _ -> diff (Printf.sprintf "construction-panicked-model-does-not at=%s msg=%s" at msg))
           | first :: rest ->
               let r0 = (match String.split_on_char ';' first with
                   | "I" :: st -> parse_state st
                   | _ -> raise (Bad "first record is not I")) in
               (* ---- pass 1: the property, on the implementation's observations alone ----
                  component checkers give the detail; the verdict is the extracted, proved-sound
                  whole-trace checker check_C16 (C16.v: check_C16_sound / check_C16_complete) *)
               let parsed = List.filter_map (fun r ->
                   match String.split_on_char ';' r with
                   | "S" :: z :: step :: itn :: itc :: stf -> Some (int_of_string z, int_of_string step, itn, itc, parse_state stf)
                   | ["E"] -> None
                   | "P" :: _ -> None
                   | _ -> raise (Bad ("bad record " ^ r))) rest in
               (* detail=false: only build the reports (and the structural checks on the observation);
                  detail=true: also run the component checkers to name the first failing clause *)
               let pass1 ~detail =
                 let init_rep = check_reported ~detail "init" r0 in
                 let all_parsed = ref (init_rep <> None) in
                 let osteps = ref [] in
                 let prev = ref r0 in
                 List.iteri (fun idx (z, step, itn, itc, cur) ->
                     let tag = Printf.sprintf "step%d" idx in
                     if detail && step <> idx then propfail (tag ^ " iteration-step-number " ^ string_of_int step);
                     if z < 0 || z >= nseq then begin propfail (tag ^ " hold-out-index-out-of-range"); all_parsed := false end
                     else begin
                       let it = { it_counts = parse_cm itc; it_n = n_of_int (int_of_string itn);
                                  it_z = nat_of_int z; it_step = n_of_int step } in
                       let rep = check_reported ~detail tag cur in
                       (* Iteration.counts: the alignment without z, before and after the call *)
                       (match rep with
                        | Some rep ->
                            osteps := { o_it = it; o_rep = rep } :: !osteps;
                            if detail && not (check_iteration kn wn data rep.r_active rep.r_starts it) then
                              propfail (tag ^ " iteration-counts-differ-from-alignment-without-z(after) expected "
                                        ^ show_cm (recompute_motif kn wn data (upd it.it_z false rep.r_active) rep.r_starts) ^ " got " ^ itc)
                        | None -> all_parsed := false);
                       (match report_of_rstate nseq !prev with
                        | Some prep ->
                            if detail && not (check_iteration kn wn data prep.r_active prep.r_starts it) then
                              propfail (tag ^ " iteration-counts-differ-from-alignment-without-z(before) got " ^ itc)
                        | None -> ())
                     end;
                     prev := cur) parsed;
                 (init_rep, !all_parsed, List.rev !osteps) in
               (match pass1 ~detail:false with
                | (Some ir, true, os) ->
                    if not (check_C16_f32 kn wn data ir os) then begin
                      ignore (pass1 ~detail:true);
                      propfail "check_C16"   (* only if no component named the failure *)
                    end
                | _ -> ignore (pass1 ~detail:true));
               (* ---- pass 2: correspondence, the model replayed with the choices read off the trace ---- *)
               let starts0 = List.map nat_of_int r0.starts in
               (* Zoops: the seed list IN THE ORDER of rand::seq::index::sample, recomputed from the words of the
                  construction (SamplerStream.seeds_w); select_holdout indexes into it during the inertia phase *)
               let i_words = (match String.split_on_char ';' first with
                   | "I" :: stf -> (match List.assoc_opt "rw" (extras stf) with
                       | Some rw -> (try Some (parse_words rw) with Bad b -> diff ("init word-stream " ^ b); None)
                       | None -> diff "init record-without-rw"; None)
                   | _ -> None) in
               let after_starts = (match i_words with
                   | Some ws ->
                       (match starts_w wn data ws with
                        | Ok (sm, restw) ->
                            if List.map int_of_nat sm <> r0.starts then begin
                              diff ("init starts-from-the-word-stream model " ^ show_ints (List.map int_of_nat sm)
                                    ^ " impl " ^ show_ints r0.starts); None end
                            else Some restw
                        | _ -> diff "init word-stream-does-not-yield-the-initial-starts"; None)
                   | None -> None) in
               let seeds0 =
                 if not zoops_eff then begin
                   (match after_starts with
                    | Some (_ :: _) -> diff "init construction-consumed-more-words-than-the-model"
                    | _ -> ());
                   [] end
                 else begin
                   let initial = (match optf "seeds" with Some sd -> sd | None -> N0) in
                   match after_starts with
                   | Some restw ->
                       (match seeds_w (nat_of_int nseq) initial restw with
                        | Ok (sd, rest2) ->
                            if rest2 <> [] then diff "init construction-consumed-more-words-than-the-model";
                            if List.sort compare (List.map int_of_nat sd) <> r0.active then begin
                              diff ("init seed-set-from-the-word-stream model " ^ show_ints (List.map int_of_nat sd)
                                    ^ " impl " ^ show_ints r0.active);
                              List.map nat_of_int r0.active end
                            else sd
                        | _ -> diff "init word-stream-does-not-yield-the-seed-set"; List.map nat_of_int r0.active)
                   | None -> List.map nat_of_int r0.active
                 end in
               (match construct starts0 seeds0 with
                | Ok (c, st0) ->
                    same_state "init" st0 r0;
                    let rec walk idx (st : state) (prev : rstate) = function
                      | [] -> ()
                      | "E" :: rest ->
                          if rest <> [] then diff "records-after-end";
                          if not st.st_conv then diff (Printf.sprintf "step%d implementation-converged-model-did-not" idx)
                      | prec :: rest when prec = "P" || starts_with "P;" prec ->
                          if rest <> [] then diff "records-after-panic";
                          (* the model runs on the words the generator handed out before the panic: the hold-out is
                             holdout_w's, the model must panic at a documented site, and the implementation's panic
                             (file, message) must be the one behind that site.  A weight overflow (site 8) cannot be
                             replayed without the libm values of the call: reported, never accepted silently. *)
                          let pex = List.map kv (List.tl (String.split_on_char ';' prec)) in
                          let at = (try List.assoc "at" pex with Not_found -> "?") and msg = (try List.assoc "msg" pex with Not_found -> "?") in
                          let tag = Printf.sprintf "step%d" idx in
                          let zpanic = ref None in
                          let site =
                            (try
                              (match holdout_w c st (parse_words (try List.assoc "rw" pex with Not_found -> raise (Bad "panic-record-without-rw"))) with
                               | Ok (zm, _) ->
                                   zpanic := Some zm;
                                   (match next c st { ch_z = zm; ch_upd = UKeep; ch_accept = true } with
                                    | Panic s -> Some (int_of_nat s)
                                    | _ -> None)
                               | Panic s -> Some (int_of_nat s)
                               | _ -> None)
                            with Bad b -> diff (tag ^ " panic-record " ^ b); None) in
                          (match site with
                           | Some s when documented_site ~construction:false s && site_class s at msg -> ()
                           | Some s when not (documented_site ~construction:false s) ->
                               diff (Printf.sprintf "%s model-panics-at-undocumented-site-%d" tag s)
                           | Some s ->
                               diff (Printf.sprintf "%s panic-at-%s-%s-is-not-the-panic-of-model-site-%d" tag at msg s)
                           | None ->
                               if site_class 8 at msg then begin
                                 (* WeightedIndex::new -> Uniform::new(0, +inf): the float model of the call, with
                                    OCaml's libm standing in for the lost values, must reach WPanic (model site 8) *)
                                 let explained = (match !zpanic with
                                     | Some zm ->
                                         (match exclude_sequence c st zm with
                                          | Ok st1 ->
                                              (match pssm_of kn approx_log2 st1.st_motif st1.st_bg with
                                               | Ok (_, m) ->
                                                   (match wi_new (weight_vec approx_exp2 (score_vec wn m (List.nth data (int_of_nat zm)))) with
                                                    | WPanic -> true
                                                    | _ -> false)
                                               | _ -> false)
                                          | _ -> false)
                                     | None -> false) in
                                 if not explained then diff (tag ^ " weight-overflow-panic-not-reproduced-by-the-float-model")
                               end
                               else diff (Printf.sprintf "%s panic-not-explained-by-the-model at=%s msg=%s" tag at msg))
                      | r :: rest ->
                          (match String.split_on_char ';' r with
                           | "S" :: z :: _step :: itn :: itc :: stf ->
                               let tag = Printf.sprintf "step%d" idx in
                               let cur = parse_state stf in
                               let z = int_of_string z in
                               if z < 0 || z >= nseq then diff (tag ^ " hold-out-index-out-of-range")
                               else if List.length cur.starts = nseq && List.length prev.starts = nseq then begin
                                 let s_new = List.nth cur.starts z and s_old = List.nth prev.starts z in
                                 let zn = nat_of_int z in
                                 let ex = extras stf in
                                 let sz = List.nth data z in
                                 let accept_obs = List.mem z cur.active in
                                 (* the hold-out is a function of the generator's words (SamplerStream.holdout_w); what is
                                    left is nothing (start kept) or exactly the one 64-bit word of WeightedIndex::sample *)
                                 let restw = (match List.assoc_opt "rw" ex with
                                     | Some rw ->
                                         (try
                                           (match holdout_w c st (parse_words rw) with
                                            | Ok (zm, restw) ->
                                                if int_of_nat zm <> z then
                                                  diff (Printf.sprintf "%s hold-out-from-the-word-stream model %d impl %d" tag (int_of_nat zm) z);
                                                (match restw with
                                                 | [] -> if s_new <> s_old then diff (tag ^ " start-moved-without-a-generator-word")
                                                 | [W64 _] -> ()
                                                 | _ -> diff (tag ^ " call-consumed-more-words-than-the-model"));
                                                Some restw
                                            | _ -> diff (tag ^ " word-stream-does-not-yield-a-hold-out"); None)
                                         with Bad b -> diff (tag ^ " word-stream " ^ b); None)
                                     | None -> diff (tag ^ " record-without-rw"); None) in
                                 (* the choice inferred from the trace alone (as before) ... *)
                                 let ch0 = { ch_z = zn;
                                             ch_upd = (if s_new = s_old then UKeep else UNew (nat_of_int s_new));
                                             ch_accept = accept_obs } in
                                 (* ... refined by the model: the support of the weights on the integer tables of
                                    the alignment without z decides between "WeightedIndex::new failed, start
                                    kept" and "a draw", and a draw must hit a position of non-zero weight *)
                                 let ch1 = (match exclude_sequence c st zn with
                                     | Ok st1 ->
                                         let sup = support kn wn st1.st_bg st1.st_motif sz in
                                         let alldead = List.for_all not sup in
                                         if s_new <> s_old && (s_new >= List.length sup || not (List.nth sup s_new)) then
                                           diff (Printf.sprintf "%s new-start-%d-has-zero-weight-in-the-model" tag s_new);
                                         if alldead && s_new <> s_old then diff (tag ^ " start-moved-although-every-weight-is-zero");
                                         if alldead && (match restw with Some (_ :: _) -> true | _ -> false) then
                                           diff (tag ^ " generator-word-drawn-although-every-weight-is-zero");
                                         { ch0 with ch_upd = (if alldead then UKeep else UNew (nat_of_int s_new)) }
                                     | _ -> ch0) in
                                 (* floating-point replay (first fl calls): PSSM, scores, weights, the draw from the
                                    generator's word, the Zoops decision -- all computed by the extracted model *)
                                 let ch = (match List.assoc_opt "p" ex, List.assoc_opt "w" ex, List.assoc_opt "r" ex with
                                     | Some pcells, Some wcells, Some rword ->
                                         (try
                                           oracle_miss := false;
                                           let ident32 (x : F32.t) = x and ident64 (y : F64.t) = y in
                                           let st1 = (match exclude_sequence c st zn with Ok x -> x | _ -> raise (Bad "exclude")) in
                                           ignore rword;
                                           (* the word of the draw is the one the MODEL's stream discipline assigns to it:
                                              the first word after the hold-out's *)
                                           let word = (match restw with Some (W64 wd :: _) -> Some wd | _ -> None) in
                                           (* log2 table of one PSSM: inputs from the model (flog2 := identity), outputs from the record *)
                                           let feed_log2 (stx : state) cells =
                                             (match pssm_of kn ident32 stx.st_motif stx.st_bg with
                                              | Ok (_, inm) ->
                                                  let ins = List.concat inm and outs = ints cells in
                                                  if List.length ins <> List.length outs then raise (Bad "pssm-shape");
                                                  let bgl = List.map int_of_n stx.st_bg in
                                                  List.iteri (fun i (x, o) ->
                                                      if List.nth bgl (i mod k) = 0 then
                                                        (if o <> 0xFF800000 then obad (Printf.sprintf "%s pssm-cell-%d-should-be-neg-inf" tag i))
                                                      else add_log2 (int_of_f32 x) o) (List.combine ins outs);
                                                  List.map (fun o -> f32_of_int o) outs
                                              | _ -> raise (Bad "prepare_pssm-panics")) in
                                           let rec chunk l = if l = [] then [] else
                                               (List.filteri (fun i _ -> i < k) l) :: chunk (List.filteri (fun i _ -> i >= k) l) in
                                           let m1 = chunk (feed_log2 st1 pcells) in
                                           (* premise of C16F.weights_support_partial, on the implementation's own PSSM cells:
                                              -inf exactly where the integer tables say so, finite elsewhere *)
                                           if not (pssm_shape kn st1.st_bg st1.st_motif m1) then
                                             diff (tag ^ " iteration-pssm-shape(-inf-cells-differ-from-the-integer-tables)");
                                           (* exp2 table: inputs = the model's scores as f64 / 1.0 *)
                                           let sc = score_vec wn m1 sz in
                                           let wins = weight_vec ident64 sc and wouts = u64s wcells in
                                           if List.length wins <> List.length wouts then
                                             diff (Printf.sprintf "%s weight-vector-length model %d impl %d" tag (List.length wins) (List.length wouts))
                                           else List.iter2 (fun y o -> add_exp2 (i64_of_f64 y) o) wins wouts;
                                           (* Zoops trial: tables for the PSSM with z included at the drawn start *)
                                           (match List.assoc_opt "e" ex with
                                            | Some ecells ->
                                                List.iter2 (fun x o -> add_pow2 (int_of_f32 x) o) (List.concat m1) (ints ecells);
                                                (match List.assoc_opt "q" ex, List.assoc_opt "f" ex with
                                                 | Some qcells, Some fcells ->
                                                     (match update_holdout c st1 zn ch1.ch_upd with
                                                      | Ok st2 -> (match include_sequence c st2 zn with
                                                          | Ok st3 ->
                                                              let m3 = feed_log2 st3 qcells in
                                                              List.iter2 (fun x o -> add_pow2 (int_of_f32 x) o) m3 (ints fcells)
                                                          | _ -> ())
                                                      | _ -> ())
                                                 | _ -> ())
                                            | None -> ());
                                           (match !oracle_bad with Some b -> diff (tag ^ " libm-oracle " ^ b) | None -> ());
                                           (* the two executable premises of C16F.draw_weight_positive, on every replayed draw:
                                              the word's 52-bit fraction lies in [0, 1-2^-52], Uniform::new left a scale >= 0 *)
                                           (match word with
                                            | Some wd -> if not (word_ok wd) then diff (tag ^ " generator-word-fraction-outside-unit-interval")
                                            | None -> ());
                                           (match wi_new (weight_vec fexp2 sc) with
                                            | WOk (cumw, _, scale) ->
                                                if not (scale_ok scale) then diff (tag ^ " uniform-scale-negative-or-not-finite");
                                                (* and its conclusion on the implementation's own draw *)
                                                ignore cumw;
                                                (match List.nth_opt (weight_vec fexp2 sc) s_new with
                                                 | Some wv -> if not (F64.lt F64.zero wv) then
                                                       diff (Printf.sprintf "%s start-%d-has-weight-zero-in-the-float-model" tag s_new)
                                                 | None -> diff (Printf.sprintf "%s start-%d-outside-the-weight-vector" tag s_new))
                                            | _ -> ());
                                           (* the model's own choice *)
                                           (match choice_of flog2 fpow2 fexp2 c st zn word with
                                            | Ok chm ->
                                                if !oracle_miss then begin diff (tag ^ " libm-oracle-miss (model and implementation evaluate libm at different points)"); ch1 end
                                                else begin
                                                  (match chm.ch_upd with
                                                   | UNew pm -> if int_of_nat pm <> s_new then
                                                         diff (Printf.sprintf "%s draw model %d impl %d" tag (int_of_nat pm) s_new)
                                                   | UKeep -> if s_new <> s_old then diff (tag ^ " model-keeps-the-start-implementation-moved-it")
                                                   | UOverflow -> diff (tag ^ " model-weight-overflow"));
                                                  let trial = zoops_eff && not (List.mem z prev.active) in
                                                  if trial && List.mem_assoc "q" ex && chm.ch_accept <> accept_obs then
                                                    diff (Printf.sprintf "%s zoops-decision model %b impl %b" tag chm.ch_accept accept_obs);
                                                  if trial && List.mem_assoc "q" ex then chm else { chm with ch_accept = accept_obs }
                                                end
                                            | Panic _ -> ch1   (* next() will report the panic below *)
                                            | Err e -> diff (Printf.sprintf "%s float-model-error-%d" tag (int_of_nat e)); ch1
                                            | OutOfFuel -> diff (tag ^ " float-model-out-of-fuel"); ch1)
                                         with Bad b -> diff (tag ^ " float-replay " ^ b); ch1
                                            | Invalid_argument b -> diff (tag ^ " float-replay-shape " ^ b); ch1)
                                     | _ -> ch1) in
                                 (* the first float-replayed calls once more through next_w as a whole (the function the
                                    determinism theorem speaks of): same state, every word consumed *)
                                 if idx < 6 && List.mem_assoc "p" ex && not !oracle_miss && !oracle_bad = None then begin
                                   (try
                                     (match List.assoc_opt "rw" ex with
                                      | Some rw ->
                                          (match next_w flog2 fpow2 fexp2 c st (parse_words rw), next c st ch with
                                           | Ok ((stw, _), leftw), Ok ((st', _)) ->
                                               if !oracle_miss then ()
                                               else if leftw <> [] then diff (tag ^ " next_w-leaves-words-unconsumed")
                                               else if stw <> st' then diff (tag ^ " next_w-state-differs-from-the-replayed-state")
                                           | (Panic _ | Err _ | OutOfFuel), Ok _ ->
                                               if not !oracle_miss then diff (tag ^ " next_w-fails-where-the-replay-succeeds")
                                           | _, _ -> ())
                                      | None -> ())
                                   with Bad _ -> ())
                                 end;
                                 (match next c st ch with
                                  | Ok (st', Some mit) ->
                                      same_state tag st' cur;
                                      if show_cm mit.it_counts <> itc then diff (tag ^ " iteration-counts model " ^ show_cm mit.it_counts ^ " impl " ^ itc)
                                      else if string_of_int (int_of_n mit.it_n) <> itn then diff (tag ^ " iteration-sequence-count")
                                      else if int_of_n mit.it_step <> idx then diff (tag ^ " model-step-number")
                                      else if int_of_n st'.st_step <> idx + 1 then diff (tag ^ " model-step-counter");
                                      walk (idx + 1) st' cur rest
                                  | Ok (_, None) -> diff (tag ^ " model-converged-implementation-did-not")
                                  | Panic s -> diff (Printf.sprintf "%s model-panics-site-%d" tag (int_of_nat s))
                                  | Err e -> diff (Printf.sprintf "%s choice-impossible-for-the-model-code-%d" tag (int_of_nat e))
                                  | OutOfFuel -> diff (tag ^ " model-out-of-fuel"))
                               end else diff (tag ^ " verif_starts-length")
                           | _ -> raise (Bad ("bad record " ^ r)))
                    in
                    walk 0 st0 r0 rest
                | Panic s -> diff (Printf.sprintf "init model-panics-site-%d" (int_of_nat s))
                | Err e -> diff (Printf.sprintf "init choice-impossible-for-the-model-code-%d" (int_of_nat e))
                | OutOfFuel -> diff "init model-out-of-fuel"))
        with
        | Bad s -> diff ("malformed " ^ s)
        | Failure s -> diff ("malformed " ^ s)
        | Not_found -> diff "malformed not-found"
        | Invalid_argument s -> diff ("malformed " ^ s));
        print_endline (id ^ " " ^ !verdict)
      end
    done
  with End_of_file -> ()
