(* Driver for the extracted TFM-PVALUE model (properties C12 and C13).

   usage: driver c12|c13      (stdin: observation lines of `tfm c12|c13 run`)

   For every case
     1. the exact score distribution of the matrix is enumerated over all words in
        exact dyadic arithmetic (extracted [enum_dy]) and every Iteration reported by
        the implementation is checked against the property with the extracted
        checkers [c12_check] / [c13_check]                      -> PROPFAIL
     2. the same query is replayed on the extracted binary64 instance of the model,
        the hash maps of every step being visited in the iteration order the
        implementation reports through its `verif-hooks` accessor (TfmOrd.v); integer
        geometry (permutation validity, int_matrix, offsets, error_max bits, min/max rows,
        keys of every Q-value row, windows, granularity and score bits) AND every
        probability (all Q-value rows by checksum, the last row, the reported range, the
        converged flag) must agree bit for bit; only for steps whose tables are too large
        for the order to be printed (`ord=-`) the probabilities are compared within 1e-9
        relative                                                  -> DIFF
   One verdict line per case: `<id> OK | <id> PROPFAIL <detail> | <id> DIFF <detail>`. *)
open Tfm_model

let rec nat_of_int n = if n <= 0 then O else S (nat_of_int (n - 1))
let rec int_of_nat = function O -> 0 | S n -> 1 + int_of_nat n
let rec pos_of_int n =
  if n = 1 then XH else if n land 1 = 0 then XO (pos_of_int (n lsr 1)) else XI (pos_of_int (n lsr 1))
let z_of_int n = if n = 0 then Z0 else if n > 0 then Zpos (pos_of_int n) else Zneg (pos_of_int (-n))
let z_ten = z_of_int 10
let z_of_int64 (n : int64) : z =
  (* magnitude bit by bit (works for min_int too: the magnitude is taken unsigned) *)
  let rec pos (u : int64) : positive =
    if Int64.equal u 1L then XH
    else if Int64.equal (Int64.logand u 1L) 0L then XO (pos (Int64.shift_right_logical u 1))
    else XI (pos (Int64.shift_right_logical u 1)) in
  if Int64.equal n 0L then Z0
  else if Int64.compare n 0L > 0 then Zpos (pos n) else Zneg (pos (Int64.neg n))
let z_of_string_slow (s : string) : z =
  let neg = String.length s > 0 && s.[0] = '-' in
  let acc = ref Z0 in
  String.iteri (fun i c ->
      if not (neg && i = 0) then begin
        if c < '0' || c > '9' then failwith ("bad integer " ^ s);
        acc := Z.add (Z.mul !acc z_ten) (z_of_int (Char.code c - 48))
      end) s;
  if neg then Z.opp !acc else !acc
(* decimal integer -> Z; values that fit in an int64 take the fast path *)
let z_of_string (s : string) : z =
  match Int64.of_string_opt s with
  | Some n -> z_of_int64 n
  | _ -> z_of_string_slow s
let rec int64_of_pos = function
  | XH -> 1L
  | XO p -> Int64.shift_left (int64_of_pos p) 1
  | XI p -> Int64.logor (Int64.shift_left (int64_of_pos p) 1) 1L
let int64_of_z = function Z0 -> 0L | Zpos p -> int64_of_pos p | Zneg p -> Int64.neg (int64_of_pos p)
let string_of_z z = Int64.to_string (int64_of_z z)
let float_of_f64 (x : F64.t) : float = Int64.float_of_bits (int64_of_z (f64_to_bits x))
let f64_of_string s : F64.t = f64_of_bits (z_of_string s)
let float_of_bits_string s = float_of_f64 (f64_of_string s)

let split c s = if s = "" then [] else String.split_on_char c s
let kv tok = match String.index_opt tok '=' with
  | Some i -> (String.sub tok 0 i, String.sub tok (i + 1) (String.length tok - i - 1))
  | None -> (tok, "")

let close a b =
  a = b || (Float.is_nan a && Float.is_nan b)
  || Float.abs (a -. b) <= 1e-9 *. Float.max (Float.abs a) (Float.abs b)

let zlist_eq a b = List.length a = List.length b && List.for_all2 Z.eqb a b

(* ---------- observed state ---------- *)

type ostate = {
  o_perm : int list; o_offs : z list; o_em : z; o_im : z list list; o_minr : z list; o_maxr : z list;
  o_dig : (int * z * z * z * float * int64) list;   (* n, min key, max key, key sum, value sum, value checksum *)
  o_ord : z list list option;                 (* keys of the rows 0..M-2 in hash-map iteration order *)
  o_last : (z * F64.t) list;
  o_win : (z * z) option;
}

type oiter = OPanic | OIt of { g : F64.t; lo : F64.t; hi : F64.t; conv : bool; score : F64.t; st : ostate option }

let parse_state s : ostate option =
  if s = "-" then None else
  match String.split_on_char '|' s with
  | [perm; offs; em; im; minr; maxr; dig; last; win; ord] ->
      let zl x = List.map z_of_string (split ',' x) in
      Some {
        o_perm = List.map int_of_string (split ',' perm);
        o_offs = zl offs; o_em = z_of_string em;
        o_im = List.map zl (split '/' im);
        o_minr = zl minr; o_maxr = zl maxr;
        o_dig = List.map (fun d -> match String.split_on_char ':' d with
            | [n; a; b; ks; vs; ck] ->
                (int_of_string n, z_of_string a, z_of_string b, z_of_string ks, float_of_bits_string vs, Int64.of_string ck)
            | _ -> failwith "bad digest") (split '/' dig);
        o_last = List.map (fun e -> match String.split_on_char ':' e with
            | [k; v] -> (z_of_string k, f64_of_string v) | _ -> failwith "bad last row") (split ',' last);
        o_win = (if win = "-" then None else match String.split_on_char ':' win with
            | [a; b] -> Some (z_of_string a, z_of_string b) | _ -> failwith "bad window");
        o_ord = (if ord = "-" then None
                 else Some (List.map (fun r -> List.map z_of_string (split ',' r)) (String.split_on_char '/' ord)));
      }
  | _ -> failwith ("bad state " ^ s)

let parse_iter s : oiter =
  if s = "P" then OPanic else
  let (head, st) = match String.index_opt s '|' with
    | Some i -> (String.sub s 0 i, String.sub s (i + 1) (String.length s - i - 1))
    | None -> (s, "-") in
  match String.split_on_char ':' head with
  | [g; lo; hi; conv; score] ->
      OIt { g = f64_of_string g; lo = f64_of_string lo; hi = f64_of_string hi; conv = (conv = "1");
            score = f64_of_string score; st = parse_state st }
  | _ -> failwith ("bad iteration " ^ s)

(* ---------- comparison of one step's state with the model ---------- *)

(* order-independent checksum of a row: wrapping sum of bits(v) * (2 key + 1) (as in the harness) *)
let checksum_of_row (row : (z * F64.t) list) : int64 =
  List.fold_left (fun c (k, v) ->
      Int64.add c (Int64.mul (int64_of_z (f64_to_bits v)) (Int64.add (Int64.mul (int64_of_z k) 2L) 1L))) 0L row

let digest_of_row (row : (z * F64.t) list) =
  match row with
  | [] -> (0, Z0, Z0, Z0, 0.0)
  | _ ->
      let n = List.length row in
      let ks = List.fold_left (fun a (k, _) -> Z.add a k) Z0 row in
      let vs = List.fold_left (fun a (_, v) -> a +. float_of_f64 v) 0.0 row in
      (n, fst (List.hd row), fst (List.nth row (n - 1)), ks, vs)

(* [exact]: the model visited the hash maps of this step in the reported order, so every
   probability must agree bit for bit; otherwise within the relative tolerance *)
let compare_state step (exact : bool) (st : ostate) (it : F64.t iter_out) : string option =
  let g = it.io_geom in
  let fail s = Some (Printf.sprintf "step=%d %s" step s) in
  if not (zlist_eq st.o_offs g.g_off) then fail "offsets"
  else if not (Z.eqb st.o_em (f64_to_bits g.g_emax)) then
    fail (Printf.sprintf "error_max impl=%h model=%h" (Int64.float_of_bits (int64_of_z st.o_em)) (float_of_f64 g.g_emax))
  else if not (List.length st.o_im = List.length g.g_int
               && List.for_all2 (fun o m -> zlist_eq o (m @ [Z0])) st.o_im g.g_int) then fail "int_matrix"
  else if not (zlist_eq st.o_minr g.g_minr) then fail "min_score_rows"
  else if not (zlist_eq st.o_maxr g.g_maxr) then fail "max_score_rows"
  else begin
    (* Q-value rows: qvalues has M+1 maps, the last one always empty *)
    let mrows = it.io_rows @ [[]] in
    if List.length mrows <> List.length st.o_dig then fail "qvalues-row-count"
    else begin
      let bad = ref None in
      List.iteri (fun i ((n, a, b, ks, vs, ck), row) ->
          if !bad = None then begin
            let (n', a', b', ks', vs') = digest_of_row row in
            if n <> n' || not (Z.eqb a a') || not (Z.eqb b b') || not (Z.eqb ks ks') then
              bad := fail (Printf.sprintf "qvalues[%d]-keys impl n=%d min=%s max=%s model n=%d min=%s max=%s" i n
                             (string_of_z a) (string_of_z b) n' (string_of_z a') (string_of_z b'))
            else if not (close vs vs') then
              bad := fail (Printf.sprintf "qvalues[%d]-mass impl=%.17g model=%.17g" i vs vs')
            else if exact && not (Int64.equal ck (checksum_of_row row)) then
              bad := fail (Printf.sprintf "qvalues[%d]-bits (values differ in binary64; mass impl=%.17g model=%.17g)" i vs vs')
          end) (List.combine st.o_dig mrows);
      if !bad <> None then !bad
      else begin
        let lastm = (match List.rev it.io_rows with r :: _ -> r | [] -> []) in
        if List.length lastm <> List.length st.o_last then fail "last-row-length"
        else if not (List.for_all2 (fun (k, _) (k', _) -> Z.eqb k k') st.o_last lastm) then fail "last-row-keys"
        else if not (List.for_all2 (fun (_, v) (_, v') -> close (float_of_f64 v) (float_of_f64 v')) st.o_last lastm)
        then fail "last-row-values"
        else if exact && not (List.for_all2 (fun (_, v) (_, v') -> Z.eqb (f64_to_bits v) (f64_to_bits v')) st.o_last lastm)
        then fail "last-row-bits"
        else None
      end
    end
  end

(* the iteration orders reported for the steps of a run ([] = not reported: key order) *)
let ordss_of (oits : oiter list) : z list list list =
  List.map (function OIt { st = Some { o_ord = Some o; _ }; _ } -> o | _ -> []) oits

(* Some true = the model replayed this step in the reported order (bit-exact comparison);
   Some false = no order reported (tolerance); None = the reported order is not a
   permutation of the keys of the model's rows *)
let exactness (oit : oiter) (it : F64.t iter_out) : bool option =
  match oit with
  | OIt { st = Some { o_ord = Some o; _ }; _ } ->
      if o = [] then Some true
      else if f64_ords_ok o it.io_rows then Some true else None
  | _ -> Some false

(* the i64 overflow sites of the model (debug builds panic there, release builds wrap) *)
let ovf_tag (n : nat) : string =
  if List.mem (int_of_nat n) [13; 14; 21; 23; 24; 33; 34] then " i64-overflow" else ""

let bits_eq a b =
  Z.eqb (f64_to_bits a) (f64_to_bits b) || (Float.is_nan (float_of_f64 a) && Float.is_nan (float_of_f64 b))

(* ---------- main ---------- *)

(* steps compared bit for bit / with the tolerance (printed on stderr at the end) *)
let n_exact = ref 0 and n_tol = ref 0
(* cases outside the quantifier of the properties (verdict `OK skipped:...`) *)
let n_outside = ref 0

let dy_exn name = function Some d -> d | None -> failwith ("non-finite " ^ name)

let () =
  let prop = if Array.length Sys.argv > 1 then Sys.argv.(1) else "c12" in
  try
    while true do
      let line = input_line stdin in
      if String.length line > 0 && line.[0] <> '#' then begin
        let (inp, obs) =
          match Str.bounded_split (Str.regexp_string " => ") line 2 with
          | [a; b] -> (a, b) | [a] -> (a, "") | _ -> failwith "bad line" in
        let toks = String.split_on_char ' ' inp in
        let id = List.hd toks in
        let verdict =
          try
            let fields = List.map kv (List.tl toks) in
            let get k = List.assoc k fields in
            let mat32 = List.map (fun r -> List.map (fun x -> f32_of_bits (z_of_string x)) (split ',' r))
                (split '/' (get "mat")) in
            let bg32 = List.map (fun x -> f32_of_bits (z_of_string x)) (split ',' (get "bg")) in
            let m = List.length mat32 in
            let mz = z_of_int m in
            let q = f64_of_string (get "q") in
            let steps = int_of_string (get "steps") in
            let rows64 = List.map (List.map f64_of_f32) mat32 in
            let bg64 = List.map f64_of_f32 bg32 in
            let ofields = List.map kv (String.split_on_char ' ' obs) in
            (* the harness could not build the input (Background::new rejected the frequencies): the generator only
               emits backgrounds the library accepts, so this is a change of the constructor contract, not a skip *)
            if obs = "bgerr" then "DIFF input-rejected-by-Background::new"
            else begin
              (* the quantifier of the properties: finite non-wildcard cells; the wildcard
                 cell may be finite or -inf *)
              let k = List.length bg32 in
              (* the rows of the exact reference: extracted [wrows_of] (coq/tfm/TfmRef.v; None = outside the
                 quantifier; C12_reference_rows / C12_reference_skips) *)
              if not (List.for_all (fun row -> List.length row = k) mat32) then failwith "row-length";
              let bgdy0 = List.map (fun b -> dy_exn "background" (f32_to_dy b)) bg32 in
              let outside = ref false in
              let wrows = match wrows_of mat32 bgdy0 with Some r -> r | None -> outside := true; [] in
              if !outside || m < 2 then begin incr n_outside; "OK skipped:outside-the-quantifier" end
              else begin
                (* exact reference: all words, or (wide motifs on a grid, `ref=conv`) the convolution
                   with equal scores merged -- proved to give the same checker verdicts
                   (TfmConv.c12_check_conv / c13_check_conv) *)
                let e = if (try List.assoc "ref" fields = "conv" with Not_found -> false)
                  then conv_dy wrows else enum_dy wrows in
                let bgdy = List.map (fun b -> dy_exn "background" (f32_to_dy b)) bg32 in
                let tol = tol_bg (nat_of_int m) bgdy in
                (* input predicates naming the known limits of the code (see known_findings.d/tfm.json);
                   `wildcard-mass` alone (-inf wildcard cells) and `positive-wildcard-cell` are
                   repaired in /repo (ee61ad3, 877ce09) and only kept as information *)
                let wild_mass = not (Z.eqb (fst (List.nth bgdy (k - 1))) Z0) in
                let wild_pos = List.exists (fun row -> match f32_to_dy (List.nth row (k - 1)) with
                    | Some (Zpos _, _) -> true | _ -> false) mat32 in
                (* words through a finite wildcard cell have a finite score: the algorithm never
                   counts them (known finding F12, what is left of it) *)
                let wild_fin = List.exists (fun row -> match f32_to_dy (List.nth row (k - 1)) with
                    | Some _ -> true | None -> false) mat32 in
                let itag = (if wild_mass && wild_fin then " wildcard-mass-finite-cell"
                            else if wild_mass then " wildcard-mass" else "")
                           ^ (if wild_pos then " positive-wildcard-cell" else "") in
                (* huge-cell: at granularity g some symbol cell has |x| / g >= 2^52: the integer rescaling
                   `(x / g).floor() as i64` and `score / g + offsets` leave the range where binary64 holds every
                   integer (and, beyond 2^63, the i64 range: overflow panics in debug builds, wraps in release
                   builds) -- known finding "huge-cell"; the predicate depends on the input and the step only *)
                let maxabs = List.fold_left (fun a row ->
                    List.fold_left (fun a (j, c) ->
                        let x = Float.abs (float_of_f64 (f64_of_f32 c)) in
                        if j < k - 1 && Float.is_finite x && x > a then x else a) a (List.mapi (fun j c -> (j, c)) row))
                    0.0 mat32 in
                (* huge-score (C12 only): the same for the query, |score| / g >= 2^52 *)
                let qabs = if prop = "c12" then Float.abs (float_of_f64 q) else 0.0 in
                let htag (g : float) =
                  (if maxabs /. g >= 4503599627370496.0 then " huge-cell" else "")
                  ^ (if Float.is_finite qabs && qabs /. g >= 4503599627370496.0 then " huge-score" else "") in
                let gran_of_step i = 0.1 /. (10.0 ** float_of_int i) in
                let oits = List.map parse_iter (split ';' (List.assoc "it" ofields)) in
                let fin = List.assoc "fin" ofields in
                let first_state = List.fold_left (fun a it -> match a, it with
                    | None, OIt { st = Some s; _ } -> Some s | _ -> a) None oits in
                let propfail = ref None and diff = ref None in
                let pf s = if !propfail = None then propfail := Some s in
                let df s = if !diff = None then diff := Some s in
                let perm = match first_state with
                  | Some s ->
                      let p = List.map nat_of_int s.o_perm in
                      if not (perm_ok mat32 p) then df "permutation-not-a-decreasing-range-order";
                      p
                  | None -> perm_stable mat32 in
                (* every reported state must carry the same permutation *)
                List.iter (function
                    | OIt { st = Some s; _ } ->
                        if List.map nat_of_int s.o_perm <> perm then df "permutation-changed"
                    | _ -> ()) oits;
                let qdy = f64_to_dy q in
                if prop = "c12" then begin
                  let model = f64_pv_run_ord (nat_of_int steps) (ordss_of oits) rows64 perm bg64 q f64_tenth_c in
                  let last_conv = ref None in
                  List.iteri (fun i oit ->
                      let mit = List.nth_opt model i in
                      match oit with
                      | OPanic ->
                          pf (Printf.sprintf "c12 step=%d panic%s%s" i
                                (match mit with Some (Panic n) -> Printf.sprintf " model-panic-%d%s" (int_of_nat n) (ovf_tag n) | _ -> "")
                                (itag ^ htag (gran_of_step i)))
                      | OIt o ->
                          (match f64_to_dy o.g, f64_to_dy o.lo, f64_to_dy o.hi, qdy with
                           | Some g, Some lo, Some hi, Some s ->
                               let c = int64_of_z (c12_check tol mz e s g lo hi) in
                               if c <> 0L then
                                 pf (Printf.sprintf "c12 step=%d clause=%Ld g=%g s=%.17g range=[%.17g,%.17g]%s" i c
                                       (float_of_f64 o.g) (float_of_f64 q) (float_of_f64 o.lo) (float_of_f64 o.hi) (itag ^ htag (float_of_f64 o.g)))
                           | _ -> pf (Printf.sprintf "c12 step=%d non-finite-range" i));
                          if o.conv then last_conv := Some o.g;
                          (match mit with
                           | None -> df (Printf.sprintf "step=%d model-has-no-such-iteration" i)
                           | Some (Ok it) ->
                               (match exactness oit it with
                                | None -> df (Printf.sprintf "step=%d iteration-order-not-a-permutation-of-the-model-keys" i)
                                | Some exact ->
                               if exact then incr n_exact else incr n_tol;
                               if not (Z.eqb (f64_to_bits it.io_gran) (f64_to_bits o.g)) then df (Printf.sprintf "step=%d granularity" i)
                               else if not (Z.eqb (f64_to_bits it.io_score) (f64_to_bits o.score)) then df (Printf.sprintf "step=%d score" i)
                               else if not (close (float_of_f64 it.io_start) (float_of_f64 o.lo)) then
                                 df (Printf.sprintf "step=%d pmin impl=%.17g model=%.17g" i (float_of_f64 o.lo) (float_of_f64 it.io_start))
                               else if not (close (float_of_f64 it.io_end) (float_of_f64 o.hi)) then
                                 df (Printf.sprintf "step=%d pmax impl=%.17g model=%.17g" i (float_of_f64 o.hi) (float_of_f64 it.io_end))
                               else if exact && not (bits_eq it.io_start o.lo && bits_eq it.io_end o.hi) then
                                 df (Printf.sprintf "step=%d range-bits impl=[%h,%h] model=[%h,%h]" i (float_of_f64 o.lo) (float_of_f64 o.hi)
                                       (float_of_f64 it.io_start) (float_of_f64 it.io_end))
                               else if it.io_conv <> o.conv
                                    && (exact || not (Float.abs (float_of_f64 o.hi -. float_of_f64 o.lo) <= 1e-12 *. float_of_f64 o.hi)) then
                                 df (Printf.sprintf "step=%d converged" i)
                               else (match o.st with
                                   | Some st -> (match compare_state i exact st it with Some s -> df s | None -> ())
                                   | None -> ()))
                           | Some (Panic n) -> df (Printf.sprintf "step=%d model-panic-%d" i (int_of_nat n))
                           | Some _ -> df (Printf.sprintf "step=%d model-error" i))) oits;
                  if List.length model > List.length oits
                     && not (List.exists (function OPanic -> true | _ -> false) oits) then
                    df "model-has-more-iterations";
                  (match fin with
                   | "-" -> ()
                   | "P" -> pf "c12 pvalue()-panicked-after-quick-convergence"
                   | bits ->
                       let f = f64_of_string bits in
                       (match !last_conv, f64_to_dy f, qdy with
                        | Some g, Some fd, Some s ->
                            let c = int64_of_z (c12_check tol mz e s (dy_exn "g" (f64_to_dy g)) fd fd) in
                            if c <> 0L then pf (Printf.sprintf "c12 final-pvalue clause=%Ld p=%.17g g=%g%s" c (float_of_f64 f) (float_of_f64 g) (itag ^ htag (float_of_f64 g)));
                            (* pvalue() of the model on its own run (TfmFinal.final_of_run: last iteration, converged) *)
                            (match f64_final_of_run (nat_of_int steps) model with
                             | Ok it ->
                                 let all_exact = List.for_all (function
                                     | OIt { st = Some { o_ord = Some _; _ }; _ } -> true | _ -> false) oits in
                                 if not (close (float_of_f64 it.io_start) (float_of_f64 f))
                                    || (all_exact && not (bits_eq it.io_start f)) then
                                   df (Printf.sprintf "final-pvalue impl=%h model=%h" (float_of_f64 f) (float_of_f64 it.io_start))
                             | _ -> df "final-pvalue model-did-not-converge");
                            (* pvalue() = start of the range of the converged iteration *)
                            List.iter (function
                                | OIt o when o.conv ->
                                    if not (close (float_of_f64 o.lo) (float_of_f64 f)) then df "final-pvalue-differs-from-converged-iteration"
                                | _ -> ()) oits
                        | None, _, _ -> df "final-pvalue-without-a-converged-iteration"
                        | _ -> pf "c12 final-pvalue non-finite"))
                end else begin
                  (* C13 *)
                  let w0m = f64_window0 rows64 perm in
                  let w0o = List.assoc "w0" ofields in
                  (match w0m, w0o with
                   | Ok (a, b), s when s <> "-" ->
                       (match String.split_on_char ':' s with
                        | [a'; b'] -> if not (Z.eqb a (z_of_string a') && Z.eqb b (z_of_string b')) then df "initial-window"
                        | _ -> df "initial-window-unparsable")
                   | _ -> ());
                  let model = match w0m with
                    | Ok w -> f64_sc_run_ord (nat_of_int steps) (ordss_of oits) rows64 perm bg64 q f64_tenth_c w
                    | _ -> [] in
                  let pfl = float_of_f64 q in
                  let knife = ref false in
                  let last_conv = ref None in
                  List.iteri (fun i oit ->
                      let mit = List.nth_opt model i in
                      match oit with
                      | OPanic ->
                          pf (Printf.sprintf "c13 step=%d panic%s%s" i
                                (match mit with
                                 | Some (Panic n) when int_of_nat n = 31 -> " mass-above-window-exceeds-p model-panic-31"
                                 | Some (Panic n) -> Printf.sprintf " model-panic-%d%s" (int_of_nat n) (ovf_tag n)
                                 | None when i = 0 ->
                                     (* approximate_score() itself panicked: recompute(0.1) / the initial window *)
                                     (match w0m with
                                      | Panic n -> Printf.sprintf " model-panic-%d%s" (int_of_nat n) (ovf_tag n)
                                      | _ -> "")
                                 | _ -> "") (itag ^ htag (gran_of_step i)))
                      | OIt o ->
                          (* flags from the table the implementation reports, else from the replay *)
                          let flags = match o.st, mit with
                            | Some st, _ -> Some (f64_ls_flags q st.o_last)
                            | None, Some (Ok it) -> Some (it.io_exh, it.io_total_lt)
                            | _ -> None in
                          (* WindowOK of the theorems (C13_score_step_bounds): the whole window holds
                             at least the mass p (not "exhausted") and the table has an attainable
                             key besides the overflow key (not "empty"); "bottom-reached" alone is
                             covered by the theorem *)
                          let empty = match o.st, mit with
                            | Some st, _ -> List.length st.o_last <= 1
                            | None, Some (Ok it) ->
                                (match List.rev it.io_rows with r :: _ -> List.length r <= 1 | [] -> true)
                            | _ -> false in
                          let tag = (match flags with
                            | Some (true, true) -> " window-exhausted"
                            | Some (true, false) -> " window-bottom-reached"
                            | _ -> "") ^ (if empty then " window-empty" else "") in
                          (match f64_to_dy o.g, f64_to_dy o.score, qdy with
                           | Some g, Some t, Some p ->
                               let c = int64_of_z (c13_check tol mz e p g t) in
                               if c <> 0L then
                                 pf (Printf.sprintf "c13 step=%d clause=%Ld g=%g p=%.17g t=%.17g%s%s" i c
                                       (float_of_f64 o.g) pfl (float_of_f64 o.score) tag (itag ^ htag (float_of_f64 o.g)))
                           | _ -> pf (Printf.sprintf "c13 step=%d non-finite-score" i));
                          if o.conv then last_conv := Some (o.g, o.score);
                          if not !knife then
                            (match mit with
                             | None -> df (Printf.sprintf "step=%d model-has-no-such-iteration" i)
                             | Some (Ok it) ->
                                 (match exactness oit it with
                                  | None -> df (Printf.sprintf "step=%d iteration-order-not-a-permutation-of-the-model-keys" i)
                                  | Some exact ->
                                 if exact then incr n_exact else incr n_tol;
                                 (* knife edge (only for a step replayed in key order, where the sums agree within
                                    a tolerance only): some cumulative sum of the last row is within 1e-9 of p *)
                                 let lastm = (match List.rev it.io_rows with r :: _ -> r | [] -> []) in
                                 if not exact then
                                   ignore (List.fold_left (fun acc (_, v) ->
                                     let acc = acc +. float_of_f64 v in
                                     if close acc pfl then knife := true; acc) 0.0 (List.rev lastm));
                                 if not (Z.eqb (f64_to_bits it.io_gran) (f64_to_bits o.g)) then df (Printf.sprintf "step=%d granularity" i)
                                 else (match o.st with
                                     | Some st -> (match compare_state i exact st it with Some s -> df s | None -> ())
                                     | None -> ());
                                 if not !knife then begin
                                   if not (Z.eqb (f64_to_bits it.io_score) (f64_to_bits o.score)) then
                                     df (Printf.sprintf "step=%d score impl=%.17g model=%.17g" i (float_of_f64 o.score) (float_of_f64 it.io_score))
                                   else if not (close (float_of_f64 it.io_start) (float_of_f64 o.lo)
                                                && close (float_of_f64 it.io_end) (float_of_f64 o.hi)) then
                                     df (Printf.sprintf "step=%d range" i)
                                   else if exact && not (bits_eq it.io_start o.lo && bits_eq it.io_end o.hi) then
                                     df (Printf.sprintf "step=%d range-bits impl=[%h,%h] model=[%h,%h]" i (float_of_f64 o.lo) (float_of_f64 o.hi)
                                           (float_of_f64 it.io_start) (float_of_f64 it.io_end))
                                   else if it.io_conv <> o.conv then df (Printf.sprintf "step=%d converged" i)
                                   else (match o.st with
                                       | Some { o_win = Some (a, b); _ } ->
                                           if not (Z.eqb a (fst it.io_win) && Z.eqb b (snd it.io_win)) then
                                             df (Printf.sprintf "step=%d next-window" i)
                                       | _ -> ())
                                 end)
                             | Some (Panic n) -> df (Printf.sprintf "step=%d model-panic-%d" i (int_of_nat n))
                             | Some _ -> df (Printf.sprintf "step=%d model-error" i))) oits;
                  if not !knife && List.length model > List.length oits
                     && not (List.exists (function OPanic -> true | _ -> false) oits) then
                    df "model-has-more-iterations";
                  (match fin with
                   | "-" -> ()
                   | "P" -> pf "c13 score()-panicked-after-quick-convergence"
                   | bits ->
                       let f = f64_of_string bits in
                       (match !last_conv with
                        | Some (g, sc) ->
                            (* score() = score of the converged iteration: it must obey the property at that
                               granularity itself (checked on the returned value, not on the iteration) *)
                            (match f64_to_dy g, f64_to_dy f, qdy with
                             | Some gd, Some t, Some p ->
                                 let c = int64_of_z (c13_check tol mz e p gd t) in
                                 if c <> 0L then
                                   pf (Printf.sprintf "c13 final-score clause=%Ld g=%g p=%.17g t=%.17g%s" c
                                         (float_of_f64 g) pfl (float_of_f64 f) (itag ^ htag (float_of_f64 g)))
                             | _ -> pf "c13 final-score non-finite");
                            if not (Z.eqb (f64_to_bits sc) (f64_to_bits f)) && not !knife then
                              df "final-score-differs-from-converged-iteration";
                            (* score() of the model on its own run (TfmFinal.final_of_run) *)
                            if not !knife then
                              (match f64_final_of_run (nat_of_int steps) model with
                               | Ok it ->
                                   if not (bits_eq it.io_score f) then
                                     df (Printf.sprintf "final-score impl=%h model=%h" (float_of_f64 f) (float_of_f64 it.io_score))
                               | _ -> df "final-score model-did-not-converge")
                        | None -> df "final-score-without-a-converged-iteration"))
                end;
                (* a property failure on a case where the implementation also deviates from the
                   model cannot be attributed to a known (= modelled) defect: say so in the detail,
                   the signatures of the known findings exclude it *)
                match !propfail, !diff with
                | Some s, Some d ->
                    "PROPFAIL " ^ s ^ " model-differs:" ^ String.map (fun c -> if c = ' ' then '_' else c) d
                | Some s, None -> "PROPFAIL " ^ s
                | None, Some s -> "DIFF " ^ s
                | None, None -> "OK"
              end
            end
          with
          | Failure s -> "DIFF driver-failure " ^ (String.map (fun c -> if c = ' ' then '_' else c) s)
          | Not_found -> "DIFF driver-missing-field" in
        print_endline (id ^ " " ^ verdict)
      end
    done
  with End_of_file ->
    if Sys.getenv_opt "TFM_DRIVER_STATS" <> None then
      Printf.eprintf "steps compared bit-exactly: %d, with tolerance: %d; cases outside the quantifier (skipped): %d\n" !n_exact !n_tol !n_outside
