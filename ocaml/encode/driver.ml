(* Driver for the extracted encoder models (property C05).
   Reads observation lines produced by `encode run` on stdin:
     <id> kind=str abc=<dna|protein> dl=<d> hex=<text> => name=outcome ...
     <id> kind=tab abc=<dna|protein> => k=.. st=.. df=.. sy=.. fa=.. fc=..
     <id> kind=win abc=<dna|protein> dl=<d> so=<lo>:<hi> do=<lo>:<hi> hex=<text>
          => w.<P>=<outcome>[!g<j>]@<count>@<so>:<do> ... r.<P>=<outcome>@<count>@<so> ...
          (encode_into on sub-slices at every pair of offsets: the distinct outcomes per pipeline)
   and prints one verdict line per case:
     <id> OK | <id> PROPFAIL <why> | <id> DIFF <why>
   PROPFAIL: an outcome of the implementation contradicts the property, decided by the
   extracted checker check_C05 (= comparison with the extracted specification function
   encode_spec; Coq: C05_check_sound) -- wrong acceptance, wrong symbol, wrong first
   offending char, pipelines disagreeing, display round trip broken.
   DIFF: the implementation differs from the extracted kernel model / generated tables
   although the property checker did not fail. *)
open Encode_model

let nat_of_int n = let rec go acc n = if n <= 0 then acc else go (S acc) (n - 1) in go O n
let int_of_nat n = let rec go acc = function O -> acc | S m -> go (acc + 1) m in go 0 n
let rec pos_of_int n =
  if n = 1 then XH else if n land 1 = 0 then XO (pos_of_int (n lsr 1)) else XI (pos_of_int (n lsr 1))
let n_of_int n = if n = 0 then N0 else Npos (pos_of_int n)
let rec int_of_pos = function XH -> 1 | XO p -> 2 * int_of_pos p | XI p -> 2 * int_of_pos p + 1
let int_of_n = function N0 -> 0 | Npos p -> int_of_pos p

let byte_tab : byte array = Array.of_list all_bytes
let () = if Array.length byte_tab <> 256 then failwith "all_bytes"
let byte_of_int i = byte_tab.(i)
let int_of_byte b = int_of_n (byte_to_N b)

let unhex s = List.init (String.length s / 2) (fun i -> int_of_string ("0x" ^ String.sub s (2 * i) 2))
let hex l = String.concat "" (List.map (fun x -> Printf.sprintf "%02x" (if x > 255 then 255 else x)) l)

let split c s = if s = "" then [] else String.split_on_char c s
let kv tok = match String.index_opt tok '=' with
  | Some i -> (String.sub tok 0 i, String.sub tok (i + 1) (String.length tok - i - 1))
  | None -> (tok, "")

(* outcome <-> string *)
let show_outcome (r : sym list res) = match r with
  | Ok l -> "ok:" ^ hex (List.map int_of_n l)
  | Err c -> "err:" ^ string_of_int (int_of_nat c)
  | Panic _ -> "panic"
  | OutOfFuel -> "outoffuel"

let parse_outcome s : sym list res option =
  if s = "panic" then Some (Panic O)
  else if String.length s >= 3 && String.sub s 0 3 = "ok:" then
    Some (Ok (List.map n_of_int (unhex (String.sub s 3 (String.length s - 3)))))
  else if String.length s >= 4 && String.sub s 0 4 = "err:" then
    (match int_of_string_opt (String.sub s 4 (String.length s - 4)) with
     | Some c -> Some (Err (nat_of_int c)) | None -> None)
  else None

let short s = if String.length s <= 40 then s else String.sub s 0 40 ^ "..."

(* junk content of the uninitialised buffer of encode_raw: never a valid symbol *)
let junk i = n_of_int (200 + (int_of_nat i mod 50))

let pipeline_of = function
  | "gen" -> Some PGeneric | "sse2" -> Some PSse2 | "avx2" -> Some PAvx2
  | "dG" -> Some (PDispatch DGeneric) | "dS" -> Some (PDispatch DSse2) | "dA" -> Some (PDispatch DAvx2)
  | _ -> None

let arm_of = function 'G' -> Some DGeneric | 'S' -> Some DSse2 | 'A' -> Some DAvx2 | _ -> None

let check_str abc fields obs =
  let get k d = try List.assoc k fields with Not_found -> d in
  let text = unhex (get "hex" "") in
  let s = List.map byte_of_int text in
  let dl = int_of_string (get "dl" "0") in
  let len = List.length text in
  let spec = encode_spec abc s in
  let spec_s = show_outcome spec in
  let verdict = ref "OK" in
  let is_prop () = String.length !verdict > 8 && String.sub !verdict 0 8 = "PROPFAIL" in
  let set_prop v = if not (is_prop ()) then verdict := "PROPFAIL " ^ v in
  let set_diff v = if !verdict = "OK" then verdict := "DIFF " ^ v in
  let toks = List.map kv (split ' ' obs) in
  let first = ref None in
  let expand o = if o = "=" then (match !first with Some f -> f | None -> "?") else (if !first = None then first := Some o; o) in
  (* memoised model outcomes *)
  let raw_memo = Hashtbl.create 8 and into_memo = Hashtbl.create 8 in
  (* texts longer than 3000 bytes: the list-based kernel model is quadratic; only the
     property checker (linear) is run, the model outcome is taken to be the specified one
     (Coq: C05_every_pipeline / C05_encode_into) *)
  let big = len > 3000 in
  let model_raw p = match Hashtbl.find_opt raw_memo p with
    | Some r -> r
    | None -> let r = if big then spec_s else show_outcome (pipeline_encode_raw p abc junk s) in Hashtbl.add raw_memo p r; r in
  let model_into p = match Hashtbl.find_opt into_memo p with
    | Some r -> r
    | None ->
        let dlen = max 0 (len + dl) in
        let dst = List.init dlen (fun _ -> a_default abc) in
        let r = if big then (if dl = 0 then spec_s else "panic") else begin
          let (buf, st) = pipeline_encode_into p abc s dst in
          show_outcome (match st with Ok _ -> Ok buf | Err e -> Err e | Panic q -> Panic q | OutOfFuel -> OutOfFuel) end in
        Hashtbl.add into_memo p r; r in
  let prop_check name o =
    (* the property: outcome = specified outcome (extracted checker) *)
    match parse_outcome o with
    | None -> set_diff (Printf.sprintf "%s unparsable-outcome %s" name (short o))
    | Some r ->
        if not (check_C05 abc s r) then
          set_prop (Printf.sprintf "%s outcome %s expected %s len=%d" name (short o) (short spec_s) len) in
  let seen_ts = ref false in
  List.iter (fun (name, o0) ->
    if name = "ts" then begin
      seen_ts := true;
      match spec with
      | Ok syms ->
          if o0 = "-" || o0 = "panic" then set_prop (Printf.sprintf "ts display missing (%s) len=%d" o0 len)
          else begin
            let h = String.sub o0 0 (String.length o0 - 1) in
            let shown = List.map byte_of_int (unhex h) in
            if not (check_C05_display abc s spec shown) then
              set_prop (Printf.sprintf "ts display-round-trip got %s len=%d" (short h) len)
            else match to_string abc syms with
              | Some m when m = shown -> ()
              | _ -> set_diff "ts model-to_string"
          end
      | _ -> if o0 <> "-" then set_prop (Printf.sprintf "ts display of a rejected text %s" (short o0))
    end
    else if o0 = "unsupported" then ()
    else begin
      let o = expand (if o0 = "=" then "=" else o0) in
      match String.index_opt name '.' with
      | Some i ->
          let pn = String.sub name 0 i and ep = String.sub name (i + 1) (String.length name - i - 1) in
          (match pipeline_of pn with
           | None -> set_diff ("unknown pipeline " ^ pn)
           | Some p ->
               if ep = "i" && dl <> 0 then begin
                 (* destination of the wrong length: not part of the property; model says Panic 1 *)
                 if o <> model_into p then set_diff (Printf.sprintf "%s outcome %s model %s dl=%d" name (short o) (short (model_into p)) dl)
               end else begin
                 prop_check name o;
                 let m = if ep = "i" then model_into p else model_raw p in
                 if o <> m then set_diff (Printf.sprintf "%s outcome %s model %s len=%d" name (short o) (short m) len)
               end)
      | None ->
          (* encG/encS/encA/encN, fsG/fsS/fsA/fsN *)
          prop_check name o;
          let last = name.[String.length name - 1] in
          (match arm_of last with
           | Some a ->
               let m = if big then spec_s else show_outcome (encoded_sequence_encode a abc junk s) in
               if o <> m then set_diff (Printf.sprintf "%s outcome %s model %s len=%d" name (short o) (short m) len)
           | None -> ())
    end) toks;
  if not !seen_ts then set_diff "no ts observation";
  if List.length toks < 12 then set_diff "too few observations";
  !verdict

(* kind=win: encode_into on sub-slices of larger allocations, every pair of offsets.
   Coq: C05_encode_into_window / C05_encode_into_alignment_irrelevant / C05_window_observation:
   the outcome is encode_spec of the window content whatever the offsets, so per pipeline
   exactly one distinct outcome may be observed (checked by check_C05: PROPFAIL), it equals
   the extracted model run at the witness offsets, and no guard element changes (DIFF). *)
let check_win abc fields obs =
  let get k d = try List.assoc k fields with Not_found -> d in
  let text = unhex (get "hex" "") in
  let s = List.map byte_of_int text in
  let dl = int_of_string (get "dl" "0") in
  let len = List.length text in
  let m = max 0 (len + dl) in
  let range k = match String.split_on_char ':' (get k "0") with
    | [a] -> let a = min 63 (int_of_string a) in (a, a)
    | [a; b] -> let a = min 63 (int_of_string a) in (a, max a (min 63 (int_of_string b)))
    | _ -> failwith ("bad range " ^ k) in
  let (so_lo, so_hi) = range "so" and (do_lo, do_hi) = range "do" in
  let nso = so_hi - so_lo + 1 and ndo = do_hi - do_lo + 1 in
  let nraw = if get "raw" "1" = "0" then 0 else nso in
  let spec = encode_spec abc s in
  let spec_s = show_outcome spec in
  let verdict = ref "OK" in
  let is_prop () = String.length !verdict > 8 && String.sub !verdict 0 8 = "PROPFAIL" in
  let set_prop v = if not (is_prop ()) then verdict := "PROPFAIL " ^ v in
  let set_diff v = if !verdict = "OK" then verdict := "DIFF " ^ v in
  let toks = List.map kv (split ' ' obs) in
  let first = ref None in
  let expand o = if o = "=" then (match !first with Some f -> f | None -> "?") else (if !first = None then first := Some o; o) in
  let k = int_of_nat (a_K abc) in
  let pad j = byte_of_int (List.nth [0x2e; 0x61; 0x00; 0xff; 0x40; 0x5b; 0x6e] (j mod 7)) in
  let counts = Hashtbl.create 16 in
  let bump key c = Hashtbl.replace counts key (c + (try Hashtbl.find counts key with Not_found -> 0)) in
  let prop_check name o =
    match parse_outcome o with
    | None -> set_diff (Printf.sprintf "%s unparsable-outcome %s" name (short o))
    | Some r ->
        if not (check_C05 abc s r) then
          set_prop (Printf.sprintf "%s outcome %s expected %s len=%d" name (short o) (short spec_s) len) in
  List.iter (fun (name, v) ->
    let kind = if String.length name > 2 then String.sub name 0 2 else "" in
    let pn = if String.length name > 2 then String.sub name 2 (String.length name - 2) else name in
    if v = "unsupported" then begin bump ("w." ^ pn) (nso * ndo); bump ("r." ^ pn) nraw end
    else match String.split_on_char '@' v, pipeline_of pn with
      | [o0; cnt; at], Some p when kind = "w." || kind = "r." ->
          let o1 = expand o0 in
          let (o, guard) = match String.index_opt o1 '!' with
            | Some i -> (String.sub o1 0 i, Some (String.sub o1 (i + 1) (String.length o1 - i - 1)))
            | None -> (o1, None) in
          bump name (int_of_string cnt);
          if kind = "w." then begin
            let (so, d) = match String.split_on_char ':' at with
              | [a; b] -> (int_of_string a, int_of_string b) | _ -> failwith "bad witness" in
            let nm = Printf.sprintf "%s so=%d do=%d" name so d in
            if dl = 0 then prop_check nm o;
            (* the model at the witness offsets *)
            let alloc = List.init so pad @ s @ List.init 9 (fun j -> pad (so + len + j)) in
            let mem = List.init (d + m + 11) (fun j -> n_of_int ((j * 7 + 3) mod k)) in
            let r = pipeline_encode_into_at p abc alloc (nat_of_int so) (nat_of_int len) mem (nat_of_int d) (nat_of_int m) in
            let mo = show_outcome (window_outcome r (nat_of_int d) (nat_of_int m)) in
            if o <> mo then set_diff (Printf.sprintf "%s outcome %s model %s len=%d dl=%d" nm (short o) (short mo) len dl);
            (match guard with
             | Some g ->
                 if guards_unchanged mem r (nat_of_int d) (nat_of_int m) then
                   set_diff (Printf.sprintf "%s element %s (index relative to the start of the destination window of %d elements) was overwritten" nm (String.sub g 1 (String.length g - 1)) m)
             | None ->
                 if not (guards_unchanged mem r (nat_of_int d) (nat_of_int m)) then
                   set_diff (Printf.sprintf "%s model overwrites a guard element" nm))
          end else begin
            let so = int_of_string at in
            let nm = Printf.sprintf "%s so=%d" name so in
            prop_check nm o;
            let alloc = List.init so pad @ s @ List.init 9 (fun j -> pad (so + len + j)) in
            let mo = show_outcome (pipeline_encode_raw_at p abc junk alloc (nat_of_int so) (nat_of_int len)) in
            if o <> mo then set_diff (Printf.sprintf "%s outcome %s model %s len=%d" nm (short o) (short mo) len);
            if guard <> None then set_diff (nm ^ " unexpected guard flag")
          end
      | _ -> set_diff ("bad win token " ^ short name)) toks;
  List.iter (fun pn ->
    let c k = try Hashtbl.find counts k with Not_found -> 0 in
    if c ("w." ^ pn) <> nso * ndo then set_diff (Printf.sprintf "w.%s covers %d of %d offset pairs" pn (c ("w." ^ pn)) (nso * ndo));
    if c ("r." ^ pn) <> nraw then set_diff (Printf.sprintf "r.%s covers %d of %d offsets" pn (c ("r." ^ pn)) nraw))
    ["gen"; "sse2"; "avx2"; "dG"; "dS"; "dA"];
  !verdict

let show_res_sym (r : sym res) = match r with
  | Ok s -> string_of_int (int_of_n s)
  | Err c -> "e" ^ string_of_int (int_of_nat c)
  | Panic _ -> "p"
  | OutOfFuel -> "f"

let check_tab abc obs =
  let toks = List.map kv (split ' ' obs) in
  let get k = try List.assoc k toks with Not_found -> "" in
  let verdict = ref "OK" in
  let is_prop () = String.length !verdict > 8 && String.sub !verdict 0 8 = "PROPFAIL" in
  let set_prop v = if not (is_prop ()) then verdict := "PROPFAIL " ^ v in
  let set_diff v = if !verdict = "OK" then verdict := "DIFF " ^ v in
  let st = unhex (get "st") in
  let k = int_of_string (get "k") in
  let fa = Array.of_list (split ',' (get "fa")) in
  if Array.length fa <> 256 then set_diff "fa length" else begin
    (* the property on the tables the implementation itself reports: from_ascii b = Ok i iff
       b is the i-th byte of as_str(); otherwise Err(b as char) *)
    for b = 0 to 255 do
      let pos = let rec find i = function [] -> None | x :: r -> if x = b then Some i else find (i + 1) r in find 0 st in
      let want = match pos with Some i -> string_of_int i | None -> "e" ^ string_of_int b in
      if fa.(b) <> want then set_prop (Printf.sprintf "tab from_ascii byte %d gives %s expected %s" b fa.(b) want);
      let m = show_res_sym (from_ascii abc (byte_of_int b)) in
      if fa.(b) <> m then set_diff (Printf.sprintf "tab from_ascii byte %d gives %s generated table %s" b fa.(b) m);
      let m2 = show_res_sym (spec_sym abc (byte_of_int b)) in
      if fa.(b) <> m2 then set_diff (Printf.sprintf "tab from_ascii byte %d gives %s generated string %s" b fa.(b) m2)
    done
  end;
  if List.length st <> k then set_prop (Printf.sprintf "tab as_str has %d bytes, K=%d" (List.length st) k);
  if st <> List.map int_of_byte (a_str abc) then set_diff "tab as_str differs from generated table";
  if k <> int_of_nat (a_K abc) then set_diff "tab K differs from generated table";
  if int_of_string (get "df") <> int_of_n (a_default abc) then set_diff "tab default symbol differs from generated table";
  (* symbols(): index i at position i, as_ascii = as_char = i-th byte of as_str() *)
  let sy = split ',' (get "sy") in
  if List.length sy <> k then set_prop (Printf.sprintf "tab symbols() has %d entries, K=%d" (List.length sy) k);
  List.iteri (fun i e ->
    match List.map int_of_string (String.split_on_char ':' e) with
    | [ix; asc; ch] ->
        if ix <> i then set_prop (Printf.sprintf "tab symbols()[%d].as_index() = %d" i ix);
        (match List.nth_opt st i with
         | Some b -> if asc <> b || ch <> b then set_prop (Printf.sprintf "tab symbols()[%d] as_ascii %d as_char %d as_str byte %d" i asc ch b)
         | None -> ());
        (match List.nth_opt (a_symbols abc) i with
         | Some s ->
             if int_of_n s <> ix then set_diff "tab symbols() differs from generated table";
             (match as_ascii abc s, as_char abc s with
              | Some mb, Some mc -> if int_of_byte mb <> asc || int_of_nat mc <> ch then set_diff "tab as_ascii/as_char differs from generated table"
              | _ -> set_diff "tab model as_ascii undefined")
         | None -> set_diff "tab symbols() longer than generated table")
    | _ -> set_diff "tab bad sy entry") sy;
  (* from_char *)
  List.iter (fun e ->
    match String.split_on_char ':' e with
    | [cp; r] ->
        let c = int_of_string cp in
        let want = if c < 128 && Array.length fa = 256 then fa.(c) else "e" ^ cp in
        if r <> want then set_prop (Printf.sprintf "tab from_char %d gives %s expected %s" c r want);
        let m = show_res_sym (from_char abc (nat_of_int c)) in
        if r <> m then set_diff (Printf.sprintf "tab from_char %d gives %s model %s" c r m)
    | _ -> set_diff "tab bad fc entry") (split ',' (get "fc"));
  !verdict

let () =
  try
    while true do
      let line = input_line stdin in
      if String.length line > 0 && line.[0] <> '#' then begin
        let (inp, obs) =
          match Str.bounded_split_delim (Str.regexp_string " => ") line 2 with
          | [a; b] -> (a, b) | [a] -> (a, "") | _ -> (line, "") in
        let toks = String.split_on_char ' ' inp in
        let id = List.hd toks in
        let fields = List.map kv (List.tl toks) in
        let get k d = try List.assoc k fields with Not_found -> d in
        let verdict =
          try
            let abc = (match get "abc" "dna" with "dna" -> dna | "protein" -> protein | x -> failwith ("bad abc " ^ x)) in
            match get "kind" "str" with
            | "tab" -> check_tab abc obs
            | "win" -> check_win abc fields obs
            | _ -> check_str abc fields obs
          with e -> "DIFF driver-exception " ^ Printexc.to_string e in
        print_endline (id ^ " " ^ verdict)
      end
    done
  with End_of_file -> ()
