(* Driver for the extracted DenseMatrix model (property C19).
   Reads observation lines produced by `lmh-dense run` on stdin:
     <id> T=<ty> size=<bytes> C=<cols> align=<a> pat=<bits> ops=<op;op;...>
          => <per-op obs>;...;END&<fin0>&<fin1>&<fin2>[;STEPS&<st0>&<st1>&<st2>]
   (format documented in harness/src/bin/dense.rs) and prints one verdict line per case:
     <id> OK | <id> PROPFAIL <why> | <id> DIFF <why>
   PROPFAIL is decided by the extracted checker [check_C19] (proved sound and complete
   for the specification relation trace_ok: C19_check_sound / C19_check_complete) and by
   nothing else: the positional iterator calls (STEPS item) are the field f_steps of the
   final observation, an observer panic is the observation ObsBroken (never accepted:
   C19_check_rejects_observer_panic), row addresses are data decided by check_mobs, and for
   T=f32 the element == is f32c_eqb on cell codes (NaN, -0.0).  The text after PROPFAIL is
   only a diagnosis computed here.  DIFF: the observation is
   accepted by the property but differs from the struct-level model (DenseReg:
   data vector + rows field + capacity bound, junk in the padding). *)
open Dense_model

let rec nat_of_int n = if n <= 0 then O else S (nat_of_int (n - 1))
let rec int_of_nat = function O -> 0 | S n -> 1 + int_of_nat n

let rec pos_of_int n =
  if n = 1 then XH else if n land 1 = 0 then XO (pos_of_int (n lsr 1)) else XI (pos_of_int (n lsr 1))
let z_of_int n = if n = 0 then Z0 else if n > 0 then Zpos (pos_of_int n) else Zneg (pos_of_int (-n))
let rec int_of_pos = function XH -> 1 | XO p -> 2 * int_of_pos p | XI p -> 2 * int_of_pos p + 1
let int_of_z = function Z0 -> 0 | Zpos p -> int_of_pos p | Zneg p -> - (int_of_pos p)

let split c s = if s = "" then [] else String.split_on_char c s
let nat s = nat_of_int (int_of_string s)
(* decimal string of any size -> Z (a mutated tree can expose uninitialised 64-bit cells that do not
   fit OCaml's 63-bit int) *)
let zed (s : string) : z =
  let n = String.length s in
  if n = 0 then failwith "empty number";
  let neg = s.[0] = '-' in
  let start = if neg then 1 else 0 in
  if n - start <= 17 then z_of_int (int_of_string s)
  else begin
    let z10 = z_of_int 10 in
    let acc = ref Z0 in
    for i = start to n - 1 do
      let d = Char.code s.[i] - 48 in
      if d < 0 || d > 9 then failwith ("bad number " ^ s);
      acc := Z.add (Z.mul !acc z10) (z_of_int d)
    done;
    if neg then Z.opp !acc else !acc
  end

let parse_row r = if r = "-" then [] else List.map zed (split ',' r)
let parse_rows s : z list list = List.map parse_row (split '/' s)
let parse_opt_rows s : z list option list =
  List.map (fun r -> if r = "~" then None else Some (parse_row r)) (split '/' s)

let parse_op s : z op =
  match String.split_on_char ':' s with
  | ["new"; r] -> ONew (nat r)
  | ["cap"; r; c] -> OWithCap (nat r, nat c)
  | ["resize"; r] -> OResize (nat r)
  | ["fill"; v] -> OFill (zed v)
  | ["set"; r; c; v] -> OSet (nat r, nat c, zed v)
  | ["setmc"; r; c; v] -> OSetMc (nat r, nat c, zed v)
  | ["from"; rows] -> OFromRows (parse_rows rows)
  | ["from"] -> OFromRows []
  | ["clone"] -> OClone
  | ["imc"; c; v] -> OIterMutCol (nat c, zed v)
  | _ -> failwith ("bad op " ^ s)

let parse_local d s : z rop =
  match String.split_on_char ':' s with
  | ["fromx"; n; rows] -> RFromRowsLen (d, nat n, parse_rows rows)
  | ["fromx"; n] -> RFromRowsLen (d, nat n, [])
  | ["reserve"; n] -> RReserve (d, nat n)
  | _ -> RLocal (d, parse_op s)

let parse_rop s : z rop =
  let pref =
    if String.length s > 1 && s.[0] = 'r' then
      (match String.index_opt s '.' with
       | Some i -> (match int_of_string_opt (String.sub s 1 (i - 1)) with
                    | Some d -> Some (d, String.sub s (i + 1) (String.length s - i - 1))
                    | None -> None)
       | None -> None)
    else None in
  match pref with
  | Some (d, o) -> parse_local (nat_of_int d) o
  | None ->
    (match String.split_on_char ':' s with
     | ["cf"; d; x] -> RCloneFrom (nat d, nat x)
     | ["ct"; d; x] -> RCloneTo (nat d, nat x)
     | ["swap"; a; b] -> RSwap (nat a, nat b)
     | ["mv"; d; x] -> RMove (nat d, nat x)
     | _ -> parse_local O s)

let show_table (t : z list list) =
  String.concat "/" (List.map (fun r -> if r = [] then "-" else String.concat "," (List.map (fun x -> string_of_int (int_of_z x)) r)) t)

let kv tok = match String.index_opt tok '=' with
  | Some i -> (String.sub tok 0 i, String.sub tok (i + 1) (String.length tok - i - 1))
  | None -> (tok, "")

(* junk written in the padding / uninitialized rows by the struct-level model: differs per step and cell *)
let pads k i = z_of_int (1000003 + 7919 * int_of_nat k + int_of_nat i)

let nreg = 3
let default_pat = "1011011011011011"

exception Bad of string

(* one matrix: rows|stride|addrs|ravelok|capacity|contents|uniform -> (mobs, (capacity, uniform value of ravel())) *)
let parse_mobs s =
  match String.split_on_char '|' s with
  | [rows; strd; al; rav; cap; contents; uni] ->
      ({ ob_rows = nat rows; ob_stride = nat strd;
         ob_addrs = (if al = "-" then [] else List.map zed (split ',' al));
         ob_ravel = (rav = "1");
         ob_cells = parse_rows contents },
       (int_of_string cap,
        if String.length uni > 1 && uni.[0] = 'U' then Some (zed (String.sub uni 1 (String.length uni - 1))) else None))
  | _ -> raise (Bad ("bad-matrix-observation " ^ s))

let parse_bits s = List.init (String.length s - 1) (fun i -> s.[i + 1] = '1')

let parse_robs s =
  let parts = String.split_on_char '&' s in
  if List.length parts <> nreg + 2 then raise (Bad ("bad-observation " ^ s));
  let ms = List.map parse_mobs (List.filteri (fun i _ -> i < nreg) parts) in
  let e = List.nth parts nreg and n = List.nth parts (nreg + 1) in
  if String.length e < 1 || e.[0] <> 'E' || String.length n < 1 || n.[0] <> 'N' then raise (Bad ("bad-observation " ^ s));
  ({ ob_regs = List.map fst ms; ob_eq = parse_bits e; ob_ne = parse_bits n }, List.map snd ms)

(* positional iterator calls: STEPS item of one register *)
let parse_sobs s : int * z sobs =
  match String.split_on_char '|' s with
  | [w1; w2; w3; lens; k; sk; rsk; sb; rsb; msk; last; count] ->
      (int_of_string k,
       { so_walk = parse_opt_rows w1; so_walk_mut = parse_opt_rows w2; so_walk_into = parse_opt_rows w3;
         so_lens = List.map nat (split ',' lens);
         so_skip = parse_rows sk; so_rev_skip = parse_rows rsk; so_step_by = parse_rows sb;
         so_rev_step_by = parse_rows rsb; so_mut_rev_skip = parse_rows msk;
         so_last = (match parse_opt_rows last with [x] -> x | _ -> raise (Bad "bad-last-observation"));
         so_count = nat count })
  | _ -> raise (Bad ("bad-steps-observation " ^ s))

let bit s i = if i < String.length s && (s.[i] = '0' || s.[i] = '1') then s.[i] = '1' else raise (Bad ("bad-bits " ^ s))

let parse_fobs s (st : z sobs) =
  match String.split_on_char '|' s with
  | [it; rv; into; intomut; mixed; mixedmut; mixedinto; lens; eqc; eqp; eqm] ->
      if String.length eqc <> 2 || String.length eqp <> 3 then raise (Bad ("bad-final-observation " ^ s));
      { f_iter = parse_rows it; f_rev = parse_rows rv; f_into = parse_rows into; f_into_mut = parse_rows intomut;
        f_mixed = parse_opt_rows mixed; f_mixed_mut = parse_opt_rows mixedmut; f_mixed_into = parse_opt_rows mixedinto;
        f_lens = List.map nat (split ',' lens);
        f_eqclone = bit eqc 0; f_neclone = bit eqc 1;
        f_eqpad = bit eqp 0; f_eqpad' = bit eqp 1; f_nepad = bit eqp 2;
        f_eqmod = (eqm = "1"); f_steps = st }
  | _ -> raise (Bad ("bad-final-observation " ^ s))

let starts_with p s = String.length s >= String.length p && String.sub s 0 (String.length p) = p

(* diagnosis of a rejected per-op observation (text only) *)
let why_robs f32 s size align (regs : z list list list) (o : z robs) =
  let si = int_of_nat s in
  let teq a b = z_treqb f32 a b in
  let buf = ref "" in
  let set x = if !buf = "" then buf := x in
  if List.length o.ob_regs <> List.length regs then set "register-count";
  List.iteri (fun k (t, m) ->
      if not (z_check_mobs s size align t m) then begin
        if int_of_nat m.ob_rows <> List.length t then
          set (Printf.sprintf "r%d rows %d expected %d" k (int_of_nat m.ob_rows) (List.length t))
        else if m.ob_cells <> t then set (Printf.sprintf "r%d contents" k)
        else if int_of_nat m.ob_stride <> si then
          set (Printf.sprintf "r%d stride %d expected %d" k (int_of_nat m.ob_stride) si)
        else if List.length m.ob_addrs <> List.length t then set (Printf.sprintf "r%d row-address-count" k)
        else if List.exists (fun a -> (int_of_z a) mod (int_of_nat align) <> 0) m.ob_addrs then set (Printf.sprintf "r%d row-not-aligned" k)
        else if m.ob_ravel then set (Printf.sprintf "r%d row-spacing-is-not-the-stride" k)
        else set (Printf.sprintf "r%d ravel-layout" k)
      end)
    (try List.combine regs o.ob_regs with _ -> []);
  let pairs = List.concat_map (fun a -> List.map (fun b -> (a, b)) regs) regs in
  (try
     List.iteri (fun i ((a, b), e) ->
         if e <> teq a b then set (Printf.sprintf "eq r%d==r%d is %b but logical cells %s" (i / nreg) (i mod nreg) e
                                     (if teq a b then "equal" else if a = b then "hold a value that is not == to itself (NaN)" else "differ")))
       (List.combine pairs o.ob_eq);
     List.iteri (fun i ((a, b), e) ->
         if e <> not (teq a b) then set (Printf.sprintf "ne r%d!=r%d is %b but logical cells %s" (i / nreg) (i mod nreg) e
                                      (if teq a b then "equal" else if a = b then "hold a value that is not == to itself (NaN)" else "differ")))
       (List.combine pairs o.ob_ne)
   with _ -> set "eq-matrix-size");
  if !buf = "" then "observation" else !buf

(* ---- positional iterator calls (DenseSteps.v): next / next_back / nth / nth_back ---- *)
let parse_steps s : istep list =
  List.map (fun t ->
      let arg () = nat_of_int (int_of_string (String.sub t 1 (String.length t - 1))) in
      match t.[0] with
      | 'n' -> SNext | 'b' -> SBack | 'N' -> SNth (arg ()) | 'M' -> SNthBack (arg ())
      | _ -> failwith ("bad step " ^ t))
    (List.filter (fun t -> t <> "") (String.split_on_char '.' s))

let somes l = List.filter_map (fun x -> x) l
let rec repeat x n = if n <= 0 then [] else x :: repeat x (n - 1)

(* diagnosis text for a STEPS observation the checker [check_steps] rejected *)
let why_steps (steps : istep list) (t : z list list) (o : z sobs) : string =
  let n = List.length t in
  let exp = z_take_steps steps t in
  let kn = steps_k steps in
  let walk p = somes (z_take_steps p t) in
  if o.so_walk <> exp then "iter-steps"
  else if o.so_walk_mut <> exp then "iter_mut-steps"
  else if o.so_walk_into <> exp then "into_iter-steps"
  else if o.so_lens <> steps_lens steps (nat_of_int n) then "len-after-steps"
  else if o.so_skip <> walk (SNth kn :: repeat SNext n) then "skip"
  else if o.so_rev_skip <> walk (SNthBack kn :: repeat SBack n) then "rev-skip"
  else if o.so_step_by <> walk (SNext :: repeat (SNth kn) n) then "step_by"
  else if o.so_rev_step_by <> walk (SBack :: repeat (SNthBack kn) n) then "rev-step_by"
  else if o.so_mut_rev_skip <> walk (SNthBack kn :: repeat SBack n) then "iter_mut-rev-skip"
  else if [o.so_last] <> z_take_steps [SBack] t then "last"
  else if int_of_nat o.so_count <> n then "count"
  else "steps"

let why_fobs f32 cn pat steps (t : z list list) (f : z fobs) =
  let exp = z_take_mixed_o pat t in
  let self = z_treqb f32 t t in
  if f.f_iter <> t then "iter-order"
  else if f.f_rev <> List.rev t then "rev-iter-order"
  else if f.f_into <> t then "into-iter-order"
  else if f.f_into_mut <> t then "into-iter-mut-order"
  else if f.f_mixed <> exp then "double-ended-iter"
  else if f.f_mixed_mut <> exp then "double-ended-iter-mut"
  else if f.f_mixed_into <> exp then "double-ended-into-iter"
  else if f.f_lens <> mixed_lens pat (nat_of_int (List.length t)) then "iterator-len"
  else if f.f_eqclone <> self || f.f_neclone <> not self then
    (if self then "clone-not-equal" else "clone-equal-although-a-cell-is-not-equal-to-itself")
  else if f.f_eqpad <> self || f.f_eqpad' <> self || f.f_nepad <> not self then "eq-depends-on-padding-or-capacity"
  else if f.f_eqmod <> (t = [] || int_of_nat cn = 0) then "eq-ignores-logical-cell"
  else if not (z_check_steps steps t f.f_steps) then "iterator-positional-calls " ^ why_steps steps t f.f_steps
  else "final-observation"

let () =
  try
    while true do
      let line = input_line stdin in
      if String.length line > 0 && line.[0] <> '#' then begin
        let (inp, obs) =
          match Str.bounded_split (Str.regexp_string " => ") line 2 with
          | [a; b] -> (a, b) | [a] -> (a, "") | _ -> failwith "bad line" in
        let toks = String.split_on_char ' ' inp in
        let id = List.hd toks in
        let fields = List.map kv (List.tl toks) in
        let get k = List.assoc k fields in
        let verdict = ref "OK" in
        let set_v v = if !verdict = "OK" then verdict := v in
        (try
          let size = int_of_string (get "size") in
          let c = int_of_string (get "C") in
          let align = int_of_string (get "align") in
          let f32 = (get "T" = "f32") in
          let steps = parse_steps (try get "steps" with Not_found -> "") in
          let sizen = nat_of_int size and alignn = nat_of_int align in
          let pat_s = (try get "pat" with Not_found -> default_pat) in
          let pat = List.init (String.length pat_s) (fun i -> pat_s.[i] = '1') in
          let ops = List.map parse_rop (split ';' (get "ops")) in
          let opnames = Array.of_list (split ';' (get "ops")) in
          let opname i = if i < Array.length opnames then opnames.(i) else "?" in
          let cn = nat_of_int c in
          let s = stride sizen cn alignn in
          let items = split ';' obs in
          let steps_items = List.filter (starts_with "STEPS") items in
          let items = List.filter (fun x -> not (starts_with "STEPS" x)) items in
          begin
            let fin_items = List.filter (starts_with "END&") items in
            let op_items = List.filter (fun x -> not (starts_with "END&" x)) items in
            (* an observer that panicked after the operation returned is the observation ObsBroken;
               when the final observers panicked there is no final observation: both are rejected by check_C19 *)
            let final_panicked = steps_items = ["STEPSPANIC"]
                                 || (fin_items = [] && List.length op_items = List.length ops + 1
                                     && List.nth op_items (List.length ops) = "OBSPANIC") in
            let op_items = if List.length op_items = List.length ops + 1 && List.nth op_items (List.length ops) = "OBSPANIC"
              then List.filteri (fun i _ -> i < List.length ops) op_items else op_items in
            let fin = match fin_items, steps_items with
              | _, ["STEPSPANIC"] -> None
              | [f], [st] ->
                  let fs = String.split_on_char '&' (String.sub f 4 (String.length f - 4)) in
                  let ss = List.map parse_sobs (String.split_on_char '&' (String.sub st 6 (String.length st - 6))) in
                  if List.length fs <> List.length ss then raise (Bad "steps-register-count");
                  List.iter (fun (k, _) -> if k <> int_of_nat (steps_k steps) then raise (Bad "steps-k-mismatch")) ss;
                  Some (List.map2 (fun f (_, st) -> parse_fobs f st) fs ss)
              | [_], [] -> raise (Bad "missing-steps-observation")
              | [], _ -> None
              | _ -> raise (Bad "several-final-observations") in
            let parsed = List.map (fun x -> if x = "P" then (ObsPanic, []) else if x = "OBSPANIC" then (ObsBroken, []) else
                                      let (r, caps) = parse_robs x in (ObsOk r, caps)) op_items in
            let ob = List.map fst parsed in
            let regs0 : z list list list = List.init nreg (fun _ -> []) in
            (* ---- the property: extracted, proved checker ---- *)
            if not (z_check_C19 f32 cn s sizen alignn pat steps regs0 ops ob fin) then begin
              (* diagnosis *)
              let i = int_of_nat (z_first_bad f32 cn s sizen alignn regs0 ops ob O) in
              let rec advance regs ops k = if k = 0 then (regs, ops) else
                  match ops with
                  | o :: rest -> (match z_rt_step cn regs o with Ok r -> advance r rest (k - 1) | _ -> (regs, ops))
                  | [] -> (regs, []) in
              let (regs, rest) = advance regs0 ops i in
              let obs_i = (try Some (List.nth ob i) with _ -> None) in
              let why =
                match rest, obs_i with
                | [], None ->
                    (match fin with
                     | None -> if final_panicked then "final observers-panicked" else "missing-final-observation"
                     | Some fl ->
                         if List.length fl <> List.length regs then "final-register-count" else
                         let bad = List.filter (fun (_, (t, f)) -> not (z_check_fobs f32 cn pat steps t f))
                             (List.mapi (fun k x -> (k, x)) (List.combine regs fl)) in
                         (match bad with
                          | (k, (t, f)) :: _ -> Printf.sprintf "final r%d %s" k (why_fobs f32 cn pat steps t f)
                          | [] -> "final-observation"))
                | [], Some _ -> "too-many-observations"
                | o :: _, None ->
                    (match z_rt_step cn regs o with
                     | Panic _ -> Printf.sprintf "op%d %s expected-panic got-nothing" i (opname i)
                     | _ -> Printf.sprintf "op%d %s missing-observation" i (opname i))
                | o :: _, Some x ->
                    (match z_rt_step cn regs o, x with
                     | Panic _, ObsPanic ->
                         if fin <> None then Printf.sprintf "op%d %s final-observation-after-panic" i (opname i)
                         else Printf.sprintf "op%d %s observations-after-panic" i (opname i)
                     | Panic _, ObsOk _ -> Printf.sprintf "op%d %s expected-panic got-result" i (opname i)
                     | Ok _, ObsPanic -> Printf.sprintf "op%d %s unexpected-panic" i (opname i)
                     | _, ObsBroken -> Printf.sprintf "op%d %s observer-panicked-after-the-operation" i (opname i)
                     | Ok regs', ObsOk r -> Printf.sprintf "op%d %s %s" i (opname i) (why_robs f32 s sizen alignn regs' r)
                     | _, _ -> Printf.sprintf "op%d %s model-error" i (opname i)) in
              set_v ("PROPFAIL " ^ why)
            end else begin
              (* ---- the tie: struct-level model (data vector, rows field, capacity bound) ---- *)
              let sregs0 = List.init nreg (fun _ -> z_new0 cn s (pads O)) in
              let rec walk sregs ops parsed k idx =
                match ops, parsed with
                | [], [] -> ()
                | o :: orest, (ObsOk r, caps) :: prest ->
                    (match z_rs_step cn s (pads k) sregs o with
                     | Ok sregs' ->
                         (* the buffer address of every register: the observed address of its first row *)
                         let bases = List.map (fun m -> match m.ob_addrs with a :: _ -> a | [] -> Z0) r.ob_regs in
                         let mo = z_m_observe f32 cn s sizen alignn bases sregs' in
                         if List.map (fun m -> m.ob_addrs) mo.ob_regs <> List.map (fun m -> m.ob_addrs) r.ob_regs
                         then set_v (Printf.sprintf "DIFF op%d struct-model-row-addresses" idx)
                         else if List.map (fun m -> m.ob_stride) mo.ob_regs <> List.map (fun m -> m.ob_stride) r.ob_regs
                         then set_v (Printf.sprintf "DIFF op%d struct-model-stride" idx)
                         else if List.map (fun m -> m.ob_cells) mo.ob_regs <> List.map (fun m -> m.ob_cells) r.ob_regs
                         then set_v (Printf.sprintf "DIFF op%d struct-model-contents" idx)
                         else if List.map (fun m -> m.ob_rows) mo.ob_regs <> List.map (fun m -> m.ob_rows) r.ob_regs
                         then set_v (Printf.sprintf "DIFF op%d struct-model-rows-field" idx)
                         else if mo.ob_eq <> r.ob_eq || mo.ob_ne <> r.ob_ne
                         then set_v (Printf.sprintf "DIFF op%d struct-model-eq" idx)
                         else if List.exists (fun m -> not m.ob_ravel) mo.ob_regs
                         then set_v (Printf.sprintf "DIFF op%d struct-model-ravel" idx)
                         else if List.exists2 (fun m (cap, _) -> cap < int_of_nat m.scap) sregs' caps
                         then set_v (Printf.sprintf "DIFF op%d capacity-below-model-bound" idx)
                         else if (match o with
                                  | RLocal (d, OFill v) ->
                                      (* C19_fill: fill() writes every storage cell, padding included *)
                                      let m = List.nth sregs' (int_of_nat d) in
                                      List.exists (fun x -> x <> v) (z_ravel m.sd)
                                      || (m.sd <> [] && int_of_nat s > 0 && snd (List.nth caps (int_of_nat d)) <> Some v)
                                  | _ -> false)
                         then set_v (Printf.sprintf "DIFF op%d fill-left-storage-cells-unwritten" idx)
                         else walk sregs' orest prest (S k) (idx + 1)
                     | _ -> set_v (Printf.sprintf "DIFF op%d struct-model-panics" idx))
                | _, (ObsBroken, _) :: _ -> ()
                | o :: _, (ObsPanic, _) :: _ ->
                    (match z_rs_step cn s (pads k) sregs o with
                     | Panic _ -> ()
                     | _ -> set_v (Printf.sprintf "DIFF op%d struct-model-does-not-panic" idx))
                | _, _ -> set_v "DIFF observation-count" in
              walk sregs0 ops parsed O 0
            end;
          end
        with
        | Bad m -> set_v ("DIFF " ^ m)
        | Not_found -> set_v "DIFF missing-field"
        | Failure m -> set_v ("DIFF parse-error " ^ (String.map (fun ch -> if ch = ' ' then '_' else ch) m)));
        print_endline (id ^ " " ^ !verdict)
      end
    done
  with End_of_file -> ()
