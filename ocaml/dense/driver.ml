(* Driver for the extracted DenseMatrix model (property C19).
   Reads observation lines produced by `lmh-dense run` on stdin:
     <id> T=<ty> size=<bytes> C=<cols> ops=<op;op;...> => <per-op obs>;...;END|<final obs>
   and prints one verdict line per case:
     <id> OK | <id> PROPFAIL <why> | <id> DIFF <why>
   PROPFAIL: the implementation's observation contradicts the table-level
   specification (the property itself); DIFF: it only differs from the
   storage-level model. *)
open Dense_model

let rec nat_of_int n = if n <= 0 then O else S (nat_of_int (n - 1))
let rec int_of_nat = function O -> 0 | S n -> 1 + int_of_nat n

let rec pos_of_int n =
  if n = 1 then XH else if n land 1 = 0 then XO (pos_of_int (n lsr 1)) else XI (pos_of_int (n lsr 1))
let z_of_int n = if n = 0 then Z0 else if n > 0 then Zpos (pos_of_int n) else Zneg (pos_of_int (-n))
let rec int_of_pos = function XH -> 1 | XO p -> 2 * int_of_pos p | XI p -> 2 * int_of_pos p + 1
let int_of_z = function Z0 -> 0 | Zpos p -> int_of_pos p | Zneg p -> - (int_of_pos p)

let split c s = if s = "" then [] else String.split_on_char c s

let parse_rows s : z list list =
  (* rows separated by '/', cells by ','; "-" denotes an empty row *)
  List.map (fun r -> if r = "-" then [] else List.map (fun x -> z_of_int (int_of_string x)) (split ',' r))
    (split '/' s)

let parse_op s : z op =
  match String.split_on_char ':' s with
  | ["new"; r] -> ONew (nat_of_int (int_of_string r))
  | ["cap"; r; c] -> OWithCap (nat_of_int (int_of_string r), nat_of_int (int_of_string c))
  | ["resize"; r] -> OResize (nat_of_int (int_of_string r))
  | ["fill"; v] -> OFill (z_of_int (int_of_string v))
  | ["set"; r; c; v] -> OSet (nat_of_int (int_of_string r), nat_of_int (int_of_string c), z_of_int (int_of_string v))
  | ["setmc"; r; c; v] -> OSetMc (nat_of_int (int_of_string r), nat_of_int (int_of_string c), z_of_int (int_of_string v))
  | ["from"; rows] -> OFromRows (parse_rows rows)
  | ["from"] -> OFromRows []
  | ["clone"] -> OClone
  | ["imc"; c; v] -> OIterMutCol (nat_of_int (int_of_string c), z_of_int (int_of_string v))
  | _ -> failwith ("bad op " ^ s)

let show_table (t : z list list) =
  if t = [] then "" else
  String.concat "/" (List.map (fun r -> if r = [] then "-" else String.concat "," (List.map (fun x -> string_of_int (int_of_z x)) r)) t)

let kv tok = match String.index_opt tok '=' with
  | Some i -> (String.sub tok 0 i, String.sub tok (i + 1) (String.length tok - i - 1))
  | None -> (tok, "")

(* junk written in the padding by the storage-level model: differs per step and cell *)
let pads k i = z_of_int (1000003 + 7919 * int_of_nat k + int_of_nat i)

let prefixes l =
  let rec go acc pre = function [] -> List.rev acc | x :: r -> let pre' = pre @ [x] in go (pre' :: acc) pre' r in
  go [] [] l

let () =
  try
    while true do
      let line = input_line stdin in
      if String.length line > 0 && line.[0] <> '#' then begin
        let (inp, obs) =
          match Str.bounded_split (Str.regexp_string " => ") line 2 with
          | [a; b] -> (a, b) | [a] -> (a, "") | _ -> failwith "bad line" in
        let toks = String.split_on_char ' ' inp in
        let id = List.hd toks in
        let fields = List.map kv (List.tl toks) in
        let get k = List.assoc k fields in
        let size = int_of_string (get "size") in
        let c = int_of_string (get "C") in
        let align = int_of_string (get "align") in
        let ops = List.map parse_op (split ';' (get "ops")) in
        let cn = nat_of_int c in
        let s = stride (nat_of_int size) cn (nat_of_int align) in
        let si = int_of_nat s in
        let obs_items = split ';' obs in
        let verdict = ref "OK" in
        let set_v v = if !verdict = "OK" then verdict := v in
        (* expected observation after each prefix of the op list *)
        let rec walk pres obs_items idx =
          match pres, obs_items with
          | [], [fin] ->
              (* final observation: END|iter|rev|eqclone|eqpad|eqmod *)
              (match String.split_on_char '|' fin with
               | ["END"; it; rv; eqc; eqp; eqm; mixed; mixed_mut; into; itok] ->
                   let tfin = (match z_t_run cn [] ops with Ok t -> t | _ -> []) in
                   let sfin = (match z_s_run cn s pads O [] ops with Ok st -> st | _ -> []) in
                   if it <> show_table tfin then set_v "PROPFAIL iter-order";
                   if rv <> show_table (List.rev tfin) then set_v "PROPFAIL rev-iter-order";
                   let pat = List.init (List.length tfin) (fun i -> i mod 3 <> 1) in
                   let exp_mixed = show_table (z_take_mixed pat tfin) in
                   if mixed <> exp_mixed then set_v "PROPFAIL double-ended-iter";
                   if mixed_mut <> exp_mixed then set_v "PROPFAIL double-ended-iter-mut";
                   if into <> show_table tfin then set_v "PROPFAIL into-iter-order";
                   if itok <> "1" then set_v "PROPFAIL iterator-len-or-fuse";
                   if eqc <> "1" then set_v "PROPFAIL clone-not-equal";
                   if eqp <> "1" then set_v "PROPFAIL eq-depends-on-padding";
                   let has_cell = (tfin <> [] && c > 0) in
                   if eqm <> (if has_cell then "0" else "1") then set_v "PROPFAIL eq-ignores-logical-cell";
                   (* storage-level self checks of the model (tie to DenseProofs) *)
                   if not (z_s_eqb (z_s_clone cn s (pads (nat_of_int 77)) sfin) sfin) then set_v "DIFF model-clone-eq"
               | _ -> set_v ("DIFF bad-final-observation " ^ fin))
          | [], [] -> set_v "DIFF missing-final-observation"
          | [], _ -> set_v "DIFF too-many-observations"
          | pre :: rest, o :: orest ->
              let tr = z_t_run cn [] pre in
              let sr = z_s_run cn s pads O [] pre in
              (match tr, sr, o with
               | Panic _, Panic _, "P" -> if rest <> [] && orest <> [] then set_v "DIFF ops-after-panic" else ()
               | Panic _, _, _ -> set_v (Printf.sprintf "PROPFAIL op%d expected-panic got %s" idx o)
               | Ok _, _, "P" -> set_v (Printf.sprintf "PROPFAIL op%d unexpected-panic" idx)
               | Ok t, Ok st, _ ->
                   (match String.split_on_char '|' o with
                    | [rows; strd; al; rav; contents] ->
                        if int_of_string rows <> List.length t then set_v (Printf.sprintf "PROPFAIL op%d rows %s expected %d" idx rows (List.length t))
                        else if contents <> show_table t then set_v (Printf.sprintf "PROPFAIL op%d contents" idx)
                        else if int_of_string strd <> si then set_v (Printf.sprintf "PROPFAIL op%d stride %s expected %d" idx strd si)
                        else if al <> "1" then set_v (Printf.sprintf "PROPFAIL op%d row-not-aligned" idx)
                        else if rav <> "1" then set_v (Printf.sprintf "PROPFAIL op%d ravel-layout" idx)
                        else if show_table (z_abs st) <> contents then set_v (Printf.sprintf "DIFF op%d storage-model" idx)
                        else if List.length (z_ravel st) <> List.length t * si then set_v (Printf.sprintf "DIFF op%d ravel-length-model" idx)
                        else ();
                        walk rest orest (idx + 1)
                    | _ -> set_v (Printf.sprintf "DIFF op%d bad-observation %s" idx o))
               | _, _, _ -> set_v (Printf.sprintf "DIFF op%d model-levels-disagree" idx))
          | _ :: _, [] -> set_v "DIFF missing-observations"
        in
        (* a panic ends the case: the harness emits no END record then *)
        let pres = prefixes ops in
        let panicked = List.exists (fun x -> x = "P") obs_items in
        if panicked then begin
          let n = List.length obs_items in
          let pres' = List.filteri (fun i _ -> i < n) pres in
          (* walk expects a final record; emulate by checking prefix only *)
          let rec walkp pres obs idx = match pres, obs with
            | [], [] -> ()
            | pre :: rest, o :: orest ->
                let tr = z_t_run cn [] pre in
                (match tr, o with
                 | Panic _, "P" -> if orest <> [] then set_v "DIFF ops-after-panic"
                 | Panic _, _ -> set_v (Printf.sprintf "PROPFAIL op%d expected-panic" idx)
                 | Ok _, "P" -> set_v (Printf.sprintf "PROPFAIL op%d unexpected-panic" idx)
                 | Ok t, _ ->
                     (match String.split_on_char '|' o with
                      | [rows; _; _; _; contents] ->
                          if int_of_string rows <> List.length t || contents <> show_table t
                          then set_v (Printf.sprintf "PROPFAIL op%d contents" idx);
                          walkp rest orest (idx + 1)
                      | _ -> set_v "DIFF bad-observation")
                 | _, _ -> set_v "DIFF model")
            | _, _ -> set_v "DIFF observation-count" in
          walkp pres' obs_items 0
        end else walk pres obs_items 0;
        print_endline (id ^ " " ^ !verdict)
      end
    done
  with End_of_file -> ()
