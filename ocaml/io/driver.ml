(* Driver for the extracted reader models of lightmotif-io (properties C14, C15;
   formats JASPAR raw, JASPAR 2016, UniPROBE).

   stdin: observation lines produced by `io <mode> run` (see harness/src/bin/io.rs for the
   line protocol); stdout: one verdict per case
     <id> OK | <id> PROPFAIL <why> | <id> DIFF <why>
   PROPFAIL is decided on the implementation's observations alone by the checkers
   extracted from Coq (check_c14 / check_c15 / no_panic, IoPrint.v):
     c14: for every chunking the outcomes are the expected records (record_of: every
          cell in the row of its position and the column of its symbol) then END;
     c15: no PANIC, and the outcomes up to the first error are records then E | END
          (CAP = the harness' bound on the number of calls was hit: a hang).
   DIFF: the extracted model (run on the same bytes under the same chunk list) does
   not produce the same outcome list, or the Coq printer does not print the file
   the harness printed.  Lines of other groups (fmt=transfac ...) are answered OK.
   Round 3: the whole outcome list (the calls after the first error / END included) is compared with
   the polling models IoPoll.*_polls_e; `ev:` chunk specs are fault scripts (IoErr.v event streams);
   `layout=g` cases are printed and judged through IoPrintG (per-count blanks); a bundled file is
   recognised (recognise_jaspar16 / recognise_uniprobe, untrusted) as an instance of the extracted
   printers -- re-printed byte for byte, accepted by the extracted wf predicates -- and then judged by
   check_c14 against the records written in it; a file that is not recognised is a DIFF. *)
open Io_model

(* deep recursion of extracted list functions on large files: re-exec with a big stack *)
let () =
  match Sys.getenv_opt "LM_IO_STACK" with
  | Some _ -> ()
  | None ->
      (try
         Unix.putenv "LM_IO_STACK" "1";
         let self = Sys.executable_name in
         let args = Array.to_list Sys.argv |> List.tl |> List.map Filename.quote |> String.concat " " in
         Unix.execv "/bin/sh" [| "/bin/sh"; "-c"; "ulimit -s unlimited 2>/dev/null || ulimit -s 1000000 2>/dev/null; exec " ^ Filename.quote self ^ " " ^ args |]
       with _ -> ())

(* ---------- conversions ---------- *)
let nat_of_int n = (* tail recursive *)
  let rec go acc k = if k <= 0 then acc else go (S acc) (k - 1) in go O n
let int_of_nat n = let rec go acc = function O -> acc | S m -> go (acc + 1) m in go 0 n
let rec pos_of_int n =
  if n = 1 then XH else if n land 1 = 0 then XO (pos_of_int (n lsr 1)) else XI (pos_of_int (n lsr 1))
let n_of_int n = if n = 0 then N0 else Npos (pos_of_int n)
let rec int_of_pos = function XH -> 1 | XO p -> 2 * int_of_pos p | XI p -> 2 * int_of_pos p + 1
let int_of_n = function N0 -> 0 | Npos p -> int_of_pos p
let z_of_int n = if n = 0 then Z0 else if n > 0 then Zpos (pos_of_int n) else Zneg (pos_of_int (-n))

(* byte / char tables to avoid rebuilding positives *)
let byte_tab = Array.init 256 n_of_int
let bytes_of_string (s : string) : n list =
  let l = ref [] in
  for i = String.length s - 1 downto 0 do l := byte_tab.(Char.code s.[i]) :: !l done; !l
let string_of_bytes (l : n list) : string =
  let b = Buffer.create 64 in List.iter (fun x -> Buffer.add_char b (Char.chr (int_of_n x land 255))) l; Buffer.contents b

let unhex (s : string) : string =
  let n = String.length s / 2 in
  let hv c = match c with '0'..'9' -> Char.code c - 48 | 'a'..'f' -> Char.code c - 87 | 'A'..'F' -> Char.code c - 55 | _ -> 0 in
  String.init n (fun i -> Char.chr (hv s.[2*i] * 16 + hv s.[2*i+1]))

let fnv64 (s : string) : string =
  let h = ref 0xcbf29ce484222325L in
  String.iter (fun c -> h := Int64.logxor !h (Int64.of_int (Char.code c)); h := Int64.mul !h 0x100000001b3L) s;
  Printf.sprintf "%Lu" !h

let split c s = if s = "" then [] else String.split_on_char c s
let kv tok = match String.index_opt tok '=' with
  | Some i -> (String.sub tok 0 i, String.sub tok (i + 1) (String.length tok - i - 1))
  | None -> (tok, "")

exception Bad of string

(* UTF-8 bytes -> scalar values through the model's own decoder *)
let chars_of_utf8 (s : string) : n list =
  match utf8_decode (bytes_of_string s) with Some l -> l | None -> raise (Bad "harness-string-not-utf8")

(* ---------- chunk lists ---------- *)
let chunks_of (spec : string) (data : string) : n list list =
  let len = String.length data in
  let sub a b = (* bytes a..b-1 *)
    let l = ref [] in for i = b - 1 downto a do l := byte_tab.(Char.code data.[i]) :: !l done; !l in
  let sizes_fun : int -> int =
    if spec = "all" then (fun _ -> max len 1)
    else if String.length spec > 4 && String.sub spec 0 4 = "cap:" then
      (let c = int_of_string (String.sub spec 4 (String.length spec - 4)) in fun _ -> c)
    else if String.length spec > 4 && String.sub spec 0 4 = "cyc:" then
      (let a = Array.of_list (List.map int_of_string (split ',' (String.sub spec 4 (String.length spec - 4)))) in
       fun k -> max 1 a.(k mod Array.length a))
    else raise (Bad ("bad-chunk-spec " ^ spec)) in
  let acc = ref [] and pos = ref 0 and k = ref 0 in
  while !pos < len do
    let e = min len (!pos + sizes_fun !k) in
    acc := sub !pos e :: !acc; pos := e; incr k
  done;
  List.rev !acc

(* event list of an `ev:` chunk spec (same script interpretation as harness EvReader) *)
let is_ev spec = String.length spec > 3 && String.sub spec 0 3 = "ev:"
let events_of (spec : string) (data : string) : event list =
  let len = String.length data in
  let sub a b = let l = ref [] in for i = b - 1 downto a do l := byte_tab.(Char.code data.[i]) :: !l done; !l in
  let items = List.filter (fun x -> x <> "") (split ',' (String.sub spec 3 (String.length spec - 3))) in
  let acc = ref [] and pos = ref 0 in
  List.iter (fun it ->
      if String.length it > 0 && it.[0] = 'E' then acc := EvErr (it = "Ei") :: !acc
      else begin
        let n = max 1 (int_of_string it) in
        if !pos < len then begin
          let e = min len (!pos + n) in acc := EvData (sub !pos e) :: !acc; pos := e
        end
      end) items;
  if !pos < len then acc := EvData (sub !pos len) :: !acc;
  List.rev !acc

(* ---------- source records ---------- *)
let blanks_dec s = List.map (fun c -> if c = 's' then byte_tab.(32) else byte_tab.(9)) (List.init (String.length s) (String.get s))

let style_dec (s : string) : style =
  match String.split_on_char '.' s with
  | [crlf; hsep; lead; sep; sym; tail; post; gap] | [crlf; hsep; lead; sep; sym; tail; post; gap; _] ->
      { y_crlf = (crlf = "1"); y_hsep = blanks_dec hsep; y_lead = blanks_dec lead; y_sep = blanks_dec sep;
        y_sym = blanks_dec sym; y_tail = blanks_dec tail; y_post = blanks_dec post; y_gap = nat_of_int (int_of_string gap) }
  | _ -> raise (Bad "bad-style")

let rec_dec (s : string) : style * src =
  match String.split_on_char '~' s with
  | [st; id; desc; cols] ->
      let cols = List.map (fun c ->
          match String.index_opt c ':' with
          | Some i ->
              let sym = int_of_string (String.sub c 0 i) in
              let toks = split ',' (String.sub c (i + 1) (String.length c - i - 1)) in
              (n_of_int sym, List.map chars_of_utf8 toks)
          | None -> raise (Bad "bad-col")) (split ';' cols) in
      (style_dec st,
       { sid = chars_of_utf8 (unhex id);
         sdesc = (if desc = "-" then None else Some (chars_of_utf8 (unhex desc)));
         scols = cols })
  | _ -> raise (Bad "bad-rec")

(* a record of the general layout (IoPrintG.v): a token `<blanks>^<digits>` carries its own blanks; the blanks in
   front of count i are (y_lead for i = 0, y_sep otherwise) ++ its own *)
let grec_dec (s : string) : gsrc =
  match String.split_on_char '~' s with
  | [st; id; desc; cols] ->
      let y = style_dec st in
      let trail = (match String.split_on_char '.' st with [_; _; _; _; _; _; _; _; "1"] -> true | _ -> false) in
      let lines = List.map (fun c ->
          match String.index_opt c ':' with
          | Some i ->
              let sym = int_of_string (String.sub c 0 i) in
              let toks = split ',' (String.sub c (i + 1) (String.length c - i - 1)) in
              let bt k t =
                let own, d = match String.index_opt t '^' with
                  | Some j -> (blanks_dec (String.sub t 0 j), String.sub t (j + 1) (String.length t - j - 1))
                  | None -> ([], t) in
                ((if k = 0 then y.y_lead else y.y_sep) @ own, chars_of_utf8 d) in
              { g_sym = n_of_int sym; g_gap = y.y_sym; g_toks = List.mapi bt toks; g_tail = y.y_tail; g_post = y.y_post }
          | None -> raise (Bad "bad-col")) (split ';' cols) in
      { g_id = chars_of_utf8 (unhex id);
        g_desc = (if desc = "-" then None else Some (chars_of_utf8 (unhex desc)));
        g_hsep = (if desc = "-" && not trail then [] else y.y_hsep); g_crlf = y.y_crlf; g_lines = lines }
  | _ -> raise (Bad "bad-rec")

(* ---------- recogniser of the general JASPAR 2016 layout (IoPrintG.v) ----------
   Untrusted: what it returns is only used after the EXTRACTED printer has re-printed it to exactly the
   bytes of the file and the extracted wf_jaspar16_g / wf_prefix / wf_suffix accepted it; then the records
   the round-trip theorem C14io.reader_roundtrip_jaspar16_general promises are record_of (src_of_g r). *)
exception No_parse of string

let recognise_jaspar16 (data : string) : (n list * gsrc list * n list) =
  let cps = match utf8_decode (bytes_of_string data) with
    | Some l -> Array.of_list (List.map int_of_n l) | None -> raise (No_parse "not UTF-8") in
  let len = Array.length cps in
  let ns a b = let l = ref [] in for i = b - 1 downto a do l := n_of_int cps.(i) :: !l done; !l in
  let is_blank c = c = 32 || c = 9 in
  let is_ws c = c = 32 || (c >= 9 && c <= 13) in
  let is_digit c = c >= 48 && c <= 57 in
  (* the prefix is given in BYTES (print_file_g prepends it to the encoded text): only ASCII prefixes are recognised *)
  let p0 = ref 0 in
  while !p0 < len && cps.(!p0) <> 62 do incr p0 done;
  if !p0 = len then raise (No_parse "no record");
  for i = 0 to !p0 - 1 do if cps.(i) >= 128 then raise (No_parse "non-ASCII prefix") done;
  let prefix = ns 0 !p0 in
  let pos = ref !p0 in
  let span f = let a = !pos in while !pos < len && f cps.(!pos) do incr pos done; (a, !pos) in
  let eol crlf =
    if crlf then begin
      if !pos + 1 < len && cps.(!pos) = 13 && cps.(!pos + 1) = 10 then pos := !pos + 2 else raise (No_parse "CRLF expected")
    end else begin
      if !pos < len && cps.(!pos) = 10 then incr pos else raise (No_parse "LF expected")
    end in
  let recs = ref [] in
  let fin = ref false in
  while not !fin && !pos < len && cps.(!pos) = 62 do
    incr pos;
    let (a, b) = span (fun c -> not (is_ws c)) in
    let id = ns a b in
    let (h0, h1) = span is_blank in
    let (d0, d1) = span (fun c -> c <> 10) in
    (* the description runs up to the line ending; "\r\n" ends a CRLF record *)
    let crlf = d1 > d0 && cps.(d1 - 1) = 13 || (d1 = d0 && h1 > h0 && false) in
    let crlf = crlf || (d1 = d0 && h1 = h0 && false) in
    let d1' = if crlf then d1 - 1 else d1 in
    let desc, hsep =
      if d1' > d0 then (Some (ns d0 d1'), ns h0 h1)
      else (None, ns h0 h1) (* trailing blanks after an identifier without description *) in
    pos := d1'; eol crlf;
    let lines = ref [] in
    while !pos < len && cps.(!pos) <> 62 && not (is_ws cps.(!pos)) do
      let sym = cps.(!pos) in incr pos;
      let (g0, g1) = span is_blank in
      if !pos >= len || cps.(!pos) <> 91 then raise (No_parse "'[' expected");
      incr pos;
      let toks = ref [] in
      let go = ref true in
      let tail = ref [] in
      while !go do
        let (b0, b1) = span is_blank in
        let (t0, t1) = span is_digit in
        if t1 > t0 then toks := (ns b0 b1, ns t0 t1) :: !toks
        else begin tail := ns b0 b1; go := false end
      done;
      if !pos >= len || cps.(!pos) <> 93 then raise (No_parse "']' expected");
      incr pos;
      let (q0, q1) = span is_blank in
      eol crlf;
      lines := { g_sym = n_of_int sym; g_gap = ns g0 g1; g_toks = List.rev !toks; g_tail = !tail; g_post = ns q0 q1 } :: !lines
    done;
    recs := { g_id = id; g_desc = desc; g_hsep = hsep; g_crlf = crlf; g_lines = List.rev !lines } :: !recs;
    if !pos < len && cps.(!pos) <> 62 then fin := true
  done;
  for i = !pos to len - 1 do if cps.(i) >= 128 then raise (No_parse "non-ASCII suffix") done;
  (prefix, List.rev !recs, ns !pos len)

(* recogniser of UniPROBE files as print_file print_uniprobe prefix rs suffix (IoPrint.v): name line, lines
   `S:` TAB token TAB token .., then y_gap empty lines; untrusted in the same sense as recognise_jaspar16 *)
let recognise_uniprobe (data : string) : (n list * (style * src) list * n list) =
  let cps = match utf8_decode (bytes_of_string data) with
    | Some l -> Array.of_list (List.map int_of_n l) | None -> raise (No_parse "not UTF-8") in
  let len = Array.length cps in
  let ns a b = let l = ref [] in for i = b - 1 downto a do l := n_of_int cps.(i) :: !l done; !l in
  let pos = ref 0 in
  (* one line: (start, end of content, crlf, next position); None at end of input or without line ending *)
  let line_at p =
    let e = ref p in
    while !e < len && cps.(!e) <> 10 do incr e done;
    if !e >= len then None
    else if !e > p && cps.(!e - 1) = 13 then Some (p, !e - 1, true, !e + 1) else Some (p, !e, false, !e + 1) in
  let is_col a b = b - a >= 2 && cps.(a + 1) = 58 && (b - a = 2 || cps.(a + 2) = 9) in
  let recs = ref [] in
  let go = ref true in
  while !go do
    match line_at !pos with
    | Some (a, b, crlf, nx) when b > a && not (is_col a b) ->
        let id = ns a b in
        pos := nx;
        let cols = ref [] in
        let more = ref true in
        while !more do
          match line_at !pos with
          | Some (a, b, c2, nx) when c2 = crlf && is_col a b ->
              let toks = ref [] and p = ref (a + 2) in
              while !p < b do
                if cps.(!p) <> 9 then raise (No_parse "TAB expected");
                let q = ref (!p + 1) in
                while !q < b && cps.(!q) <> 9 do incr q done;
                toks := ns (!p + 1) !q :: !toks; p := !q
              done;
              cols := (n_of_int cps.(a), List.rev !toks) :: !cols; pos := nx
          | _ -> more := false
        done;
        let gap = ref 0 in
        let more = ref true in
        while !more do
          match line_at !pos with
          | Some (a, b, c2, nx) when c2 = crlf && a = b -> incr gap; pos := nx
          | _ -> more := false
        done;
        let y = { y_crlf = crlf; y_hsep = [n_of_int 32]; y_lead = []; y_sep = [n_of_int 32]; y_sym = [n_of_int 32];
                  y_tail = []; y_post = []; y_gap = nat_of_int !gap } in
        recs := (y, { sid = id; sdesc = None; scols = List.rev !cols }) :: !recs
    | _ -> go := false
  done;
  for i = !pos to len - 1 do if cps.(i) >= 128 then raise (No_parse "non-ASCII suffix") done;
  ([], List.rev !recs, ns !pos len)

(* ---------- observed outcomes ---------- *)
let parse_outcome (cell : string -> 'c) (k : int) (s : string) : 'c outcome =
  if s = "END" then Ok None
  else if s = "PANIC" then Panic O
  else if s = "CAP" || s = "HANG" then OutOfFuel
  else if s = "E:io" then Err eIo
  else if s = "E:nom" then Err eNom
  else if s = "E:inv" then Err eInvalid
  else match String.split_on_char ':' s with
    | ["R"; id; desc; rows; cells] ->
        let rows = int_of_string rows in
        let cells = Array.of_list (split ',' cells) in
        if Array.length cells <> rows * k then raise (Bad "bad-cell-count");
        let m = List.init rows (fun i -> List.init k (fun j -> cell cells.(i * k + j))) in
        Ok (Some { rid = chars_of_utf8 (unhex id);
                   rdesc = (if desc = "-" then None else Some (chars_of_utf8 (unhex desc)));
                   rmatrix = m })
    | _ -> raise (Bad ("bad-outcome " ^ (if String.length s > 40 then String.sub s 0 40 else s)))

let show_outcome (o : 'c outcome) : string =
  match o with
  | Ok None -> "END" | Ok (Some r) -> "R(" ^ String.concat "" (List.map (fun c -> let c = int_of_n c in if c > 32 && c < 127 then String.make 1 (Char.chr c) else Printf.sprintf "\\x%02x" c) (utf8_encode r.rid)) ^ ")"
  | Err e -> "E" ^ string_of_int (int_of_nat e) | Panic s -> "PANIC" ^ string_of_int (int_of_nat s) | OutOfFuel -> "FUEL"

let first_diff ceqb (a : 'c outcome list) (b : 'c outcome list) : string =
  let rec go i a b = match a, b with
    | [], [] -> "none"
    | x :: _, [] -> Printf.sprintf "call%d impl=%s model=nothing" i (show_outcome x)
    | [], y :: _ -> Printf.sprintf "call%d impl=nothing model=%s" i (show_outcome y)
    | x :: a', y :: b' -> if outcome_eqb ceqb x y then go (i + 1) a' b'
        else Printf.sprintf "call%d impl=%s model=%s" i (show_outcome x) (show_outcome y) in
  go 0 a b

(* capacity oracle of the JASPAR readers' compaction test (any function will do:
   compaction_transparent); varied so that both branches are exercised and buffers stay small *)
let caps_tab = [| nat_of_int 0; nat_of_int 64; nat_of_int 2048; nat_of_int 16384 |]
let caps (k : nat) : nat = caps_tab.((int_of_nat k) mod 4)

let read_file path = let ic = open_in_bin path in let n = in_channel_length ic in let s = really_input_string ic n in close_in ic; s

exception Oracle_missing of string

(* IEEE bits (decimal string) -> Flocq binary32, cached: F32.of_bits costs ~40 us *)
let f32_cache : (string, F32.t) Hashtbl.t = Hashtbl.create 4096
let f32_of_bits_cached (b : string) : F32.t =
  match Hashtbl.find_opt f32_cache b with
  | Some f -> f
  | None -> let f = F32.of_bits (z_of_int (int_of_string b)) in
      if Hashtbl.length f32_cache > 200000 then Hashtbl.reset f32_cache;
      Hashtbl.add f32_cache b f; f

(* one case, generic in the cell type *)
let run_case (type c) ~(fmt : string) ~(mode : string) ~(get : string -> string option) ~(obs_field : string -> string option)
    ~(k : int) ~(cell : string -> c) ~(ceqb : c -> c -> bool) ~(zero : c) ~(value : n list -> c)
    ~(alphabet : alphabet) ~(wf_extra : (style * src) list -> n list -> n list -> bool)
    ~(model_stop : n list list -> c outcome list) ~(model_calls : int -> n list list -> c outcome list)
    ~(model_stop_e : event list -> c outcome list) ~(model_calls_e : int -> event list -> c outcome list)
    ~(model_polls_e : int -> event list -> c outcome list) : string =
  let verdict = ref "OK" in
  let set v = if !verdict = "OK" then verdict := v in
  (* the file *)
  (* generated records whose counts carry their own blanks (`^` in a token): the general layout of IoPrintG.v,
     theorems reader_roundtrip_jaspar_general / _jaspar16_general *)
  let general = fmt <> "uniprobe" && get "layout" = Some "g" in
  let grecs = if general then (match get "recs" with Some r -> Some (List.map grec_dec (split '/' r)) | None -> None) else None in
  let recs = if general then None else match get "recs" with Some r -> Some (List.map rec_dec (split '/' r)) | None -> None in
  let data =
    match get "hex", get "file", recs with
    | Some h, _, _ -> unhex h
    | None, Some p, _ -> read_file p
    | None, None, None when grecs <> None ->
        let grs = (match grecs with Some l -> l | None -> []) in
        let pre = bytes_of_string (unhex (Option.value (get "pre") ~default:"")) in
        let suf = bytes_of_string (unhex (Option.value (get "suf") ~default:"")) in
        (if mode = "c14" then begin
           let ok = if fmt = "jaspar" then List.for_all wf_jaspar_g grs else List.for_all (wf_jaspar16_g alphabet) grs in
           if not (ok && wf_prefix pre && wf_suffix suf) then set "DIFF generator-output-not-wf (general layout)"
         end);

        string_of_bytes (print_file_g (if fmt = "jaspar" then print_jaspar_g else print_jaspar16_g) pre grs suf)
    | None, None, Some rs ->
        let pr = (match fmt with "jaspar" -> print_jaspar | "jaspar16" -> print_jaspar16 | _ -> print_uniprobe) in
        let pre = bytes_of_string (unhex (Option.value (get "pre") ~default:"")) in
        let suf = bytes_of_string (unhex (Option.value (get "suf") ~default:"")) in
        (* well-formedness of what the generator claims to be well-formed *)
        (if mode = "c14" then begin
           let ok = match fmt with
             | "jaspar" -> List.for_all wf_jaspar rs
             | "jaspar16" -> List.for_all (wf_jaspar16 alphabet) rs
             | _ -> wf_extra rs pre suf in
           if not (ok && (fmt = "uniprobe" || wf_prefix pre) && wf_suffix suf) then set "DIFF generator-output-not-wf"
         end);
        string_of_bytes (print_file pr pre rs suf)
    | None, None, None -> "" in
  (match obs_field "fnv" with
   | Some h -> if h <> fnv64 data && obs_field "obs" <> Some "HANG" then set "DIFF printed-file-differs-from-coq-printer"
   | None -> set "DIFF no-fnv");
  (* observations *)
  let groups = split '|' (Option.value (obs_field "obs") ~default:"") in
  let specs = split ';' (Option.value (get "chunks") ~default:"all") in
  if List.length groups <> List.length specs then set "DIFF observation-count";
  let parsed_first = ref None in
  let parse_group g =
    if g = "=" then (match !parsed_first with Some p -> p | None -> raise (Bad "dangling ="))
    else begin
      let p = List.map (parse_outcome cell k) (split ';' g) in
      if !parsed_first = None then parsed_first := Some p; p
    end in
  let expected = match recs, grecs, mode with
    | Some rs, _, "c14" -> Some (List.map (fun (_, r) -> record_of alphabet zero value r) rs)
    | None, Some grs, "c14" -> Some (List.map (fun r -> record_of alphabet zero value (src_of_g r)) grs)
    | _ -> None in
  (* bundled JASPAR 2016 files: recognise the file as print_file_g print_jaspar16_g prefix rs suffix (checked with the
     extracted printer and well-formedness predicates); not recognised = the file is outside the round-trip theorem *)
  let bundled_expected = ref None in
  (if mode = "c14" && fmt = "jaspar16" && recs = None && grecs = None && get "file" <> None then begin
     match (try `Rec (recognise_jaspar16 data) with No_parse why -> `Bad why) with
     | `Bad why -> set ("DIFF bundled-file-not-recognised-as-general-layout: " ^ why)
     | `Rec (pre, rs, suf) ->
         if string_of_bytes (print_file_g print_jaspar16_g pre rs suf) <> data then
           set "DIFF bundled-file-recogniser-does-not-reprint-the-file"
         else if not (List.for_all (wf_jaspar16_g alphabet) rs && wf_prefix pre && wf_suffix suf && rs <> []) then
           set "DIFF bundled-file-not-wf-for-the-general-round-trip-theorem"
         else bundled_expected := Some (List.map (fun r -> record_of alphabet zero value (src_of_g r)) rs)
   end);
  (* bundled UniPROBE files: the same with print_uniprobe / wf_uniprobe (reader_roundtrip_uniprobe); a file that is not an
     instance (e.g. last line without final newline) falls back to the checks below and says so *)
  (if mode = "c14" && fmt = "uniprobe" && recs = None && get "file" <> None then begin
     match (try `Rec (recognise_uniprobe data) with No_parse why -> `Bad why) with
     | `Bad why -> set ("DIFF bundled-file-not-recognised-as-print_uniprobe: " ^ why)
     | `Rec (pre, rs, suf) ->
         if string_of_bytes (print_file print_uniprobe pre rs suf) <> data then
           set "DIFF bundled-file-recogniser-does-not-reprint-the-file (e.g. last line without final newline: outside reader_roundtrip_uniprobe)"
         else if not (rs <> [] && wf_extra rs pre suf && wf_suffix suf) then
           set "DIFF bundled-file-not-wf-for-reader_roundtrip_uniprobe"
         else bundled_expected := Some (List.map (fun (_, r) -> record_of alphabet zero value r) rs)
   end);

  List.iteri (fun gi (g, spec) ->
      if !verdict = "OK" || (String.length !verdict > 4 && String.sub !verdict 0 4 = "DIFF") then begin
        let obs = parse_group g in
        let stop = stop_prefix obs in
        (* ---- property checkers on the implementation's observations ---- *)
        (match mode with
         | "c14" ->
             (match expected with
              | Some ex ->
                  if not (check_c14 ceqb ex stop) then
                    set (Printf.sprintf "PROPFAIL chunking=%s records-differ-from-written %s" spec
                           (first_diff ceqb stop (List.map (fun r -> Ok (Some r)) ex @ [Ok None])))
              | None when !bundled_expected <> None ->
                  (* bundled file recognised as an instance of the general printer: exactly the records of
                     reader_roundtrip_jaspar16_general, decided by the extracted check_c14 *)
                  (match !bundled_expected with
                   | Some ex ->
                       if not (check_c14 ceqb ex stop) then
                         set (Printf.sprintf "PROPFAIL chunking=%s records-differ-from-written %s" spec
                                (first_diff ceqb stop (List.map (fun r -> Ok (Some r)) ex @ [Ok None])))
                       else (match get "expect" with
                           | Some n -> if List.length ex <> int_of_string n then
                                 set (Printf.sprintf "DIFF record-count-of-bundled-file %d expected %s" (List.length ex) n)
                           | None -> ())
                   | None -> ())
              | None ->
                  (* a bundled file that was NOT recognised as an instance of the printers (a DIFF was set above): still
                     records then END, same under every chunking, expected count -- never the only verdict *)
                  if not (check_c15 stop) || (match List.rev stop with Ok None :: _ -> false | _ -> true) then
                    set (Printf.sprintf "PROPFAIL chunking=%s bundled-file-not-read-to-END" spec)
                  else begin
                    (match get "expect" with
                     | Some n -> if List.length stop - 1 <> int_of_string n then
                           set (Printf.sprintf "PROPFAIL chunking=%s record-count %d expected %s" spec (List.length stop - 1) n)
                     | None -> ());
                    (match !parsed_first with
                     | Some p0 -> if not (outcomes_eqb ceqb obs p0) then
                           set (Printf.sprintf "PROPFAIL chunking=%s differs-from-first-chunking %s" spec (first_diff ceqb obs p0))
                     | None -> ())
                  end)
         | _ ->
             if not (no_panic obs) then begin
               (* where the model (if it panics too) places the panic: model-site=<n> of IoJaspar / IoUniprobe *)
               let site =
                 try
                   let m = model_polls_e (List.length obs)
                       (if is_ev spec then events_of spec data else of_stream (mk_stream (chunks_of spec data))) in
                   (match List.find_opt (fun o -> match o with Panic _ -> true | _ -> false) m with
                    | Some (Panic k) -> Printf.sprintf " model-site=%d" (int_of_nat k)
                    | _ -> " model-site=none")
                 with _ -> " model-site=?" in
               set (Printf.sprintf "PROPFAIL chunking=%s %s%s" spec
                      (if List.exists (fun o -> o = OutOfFuel) obs then "hang-call-cap-reached" else "panic") site)
             end
             else if not (check_c15 stop) then set (Printf.sprintf "PROPFAIL chunking=%s bad-outcome-sequence" spec));
        (* ---- correspondence with the extracted model ---- *)
        (* error-free chunkings: the error-free models (the ones the C14 theorems are about); scripts with
           I/O error events: the models over event streams (IoErr.v), proved to coincide with the former on
           error-free streams *)
        let ev = is_ev spec in
        let cs = if ev then [] else mk_stream (chunks_of spec data) in
        let es = if ev then events_of spec data else [] in
        let m_stop = if ev then model_stop_e es else model_stop cs in
        if not (outcomes_eqb ceqb stop m_stop) then
          set (Printf.sprintf "DIFF chunking=%s %s" spec (first_diff ceqb stop m_stop))
        else if List.length obs > List.length stop && mode = "c14" && gi > 0
                && (match List.rev stop with Ok None :: _ -> true | _ -> false) then begin
          (* C14 files are big: the polling model is run in full for the first chunking only; for the others the
             prefix up to END already equals the model's and the calls after END must all answer END
             (theorems reader_end_is_final) *)
          if not (end_final obs) then set (Printf.sprintf "DIFF chunking=%s end-not-final" spec)
        end
        else if List.length obs > List.length stop then begin
          (* the polling consumer (IoPoll.v): every call made after the first error / END, outcome by outcome *)
          let m_all = model_polls_e (List.length obs) (if ev then es else of_stream cs) in
          if not (outcomes_eqb ceqb obs m_all) then
            set (Printf.sprintf "DIFF chunking=%s after-first-stop %s" spec (first_diff ceqb obs m_all))
          else if not (end_final obs) then
            set (Printf.sprintf "DIFF chunking=%s end-not-final" spec)
        end;
        ignore model_calls; ignore model_calls_e;
        ignore gi
      end) (List.combine groups specs);
  !verdict

let () =
  try
    while true do
      let line = input_line stdin in
      if String.length line > 0 && line.[0] <> '#' then begin
        let (inp, obs) =
          match Str.bounded_split (Str.regexp_string " => ") line 2 with
          | [a; b] -> (a, b) | [a] -> (a, "") | _ -> ("?", "") in
        let toks = String.split_on_char ' ' inp in
        let id = List.hd toks in
        let fields = List.map kv (List.tl toks) in
        let get key = List.assoc_opt key fields in
        let ofields = List.map kv (String.split_on_char ' ' obs) in
        let obs_field key = List.assoc_opt key ofields in
        let fmt = Option.value (get "fmt") ~default:"?" in
        let mode = Option.value (get "mode") ~default:"c15" in
        let abc = Option.value (get "abc") ~default:"dna" in
        let alphabet = if abc = "protein" then protein else dna in
        let k = int_of_nat alphabet.aK in
        let verdict =
          try
            match fmt with
            | ("jaspar" | "jaspar16" | "uniprobe") when obs_field "obs" = Some "HANG" ->
                "PROPFAIL hang-watchdog-expired (a call into the reader did not return)"
            | "jaspar" | "jaspar16" ->
                let precord = if fmt = "jaspar" then j_record false else j16_record alphabet in
                let k = if fmt = "jaspar" then 5 else k in
                let alphabet = if fmt = "jaspar" then dna else alphabet in
                run_case ~fmt ~mode ~get ~obs_field ~k
                  ~cell:(fun s -> n_of_int (int_of_string s)) ~ceqb:N.eqb ~zero:N0 ~value:dec_value ~alphabet
                  ~wf_extra:(fun _ _ _ -> true)
                  ~model_stop:(fun cs -> if fmt = "jaspar" then jaspar_read caps cs else jaspar16_read alphabet caps cs)
                  ~model_calls:(fun n cs -> j_calls precord (nat_of_int n) caps cs)
                  ~model_stop_e:(fun es -> if fmt = "jaspar" then jaspar_read_e caps es else jaspar16_read_e alphabet caps es)
                  ~model_calls_e:(fun n es -> if fmt = "jaspar" then jaspar_calls_e (nat_of_int n) caps es
                                   else jaspar16_calls_e alphabet (nat_of_int n) caps es)
                  ~model_polls_e:(fun n es -> if fmt = "jaspar" then jaspar_polls_e (nat_of_int n) caps es
                                   else jaspar16_polls_e alphabet (nat_of_int n) caps es)
            | "uniprobe" ->
                (* oracle table token -> f32 bits (Rust's str::parse::<f32>, printed by the harness) *)
                let tab = Hashtbl.create 64 in
                List.iter (fun e -> match String.index_opt e ':' with
                    | Some i -> Hashtbl.replace tab (String.sub e 0 i) (String.sub e (i + 1) (String.length e - i - 1))
                    | None -> ()) (split ',' (Option.value (obs_field "ft") ~default:""));
                let parse_f32 (tok : n list) : F32.t option =
                  let s = string_of_bytes tok in
                  match Hashtbl.find_opt tab s with
                  | Some "x" -> None
                  | Some b -> Some (f32_of_bits_cached b)
                  | None -> raise (Oracle_missing s) in
                let value tok = match parse_f32 tok with Some b -> b | None -> F32.zero in
                run_case ~fmt ~mode ~get ~obs_field ~k
                  ~cell:f32_of_bits_cached ~ceqb:(fun (a : F32.t) b -> a = b) ~zero:F32.zero ~value ~alphabet
                  (* the hypotheses of reader_roundtrip_uniprobe hold for what the generator printed
                     (wf_suffix suf is checked by the caller) *)
                  ~wf_extra:(fun rs pre _ -> List.for_all (wf_uniprobe alphabet parse_f32) rs && wf_blank_prefix pre)
                  ~model_stop:(fun cs -> uniprobe_read alphabet parse_f32 cs)
                  ~model_calls:(fun n cs -> uniprobe_calls alphabet parse_f32 false (nat_of_int n) cs)
                  ~model_stop_e:(fun es -> uniprobe_read_e alphabet parse_f32 es)
                  ~model_calls_e:(fun n es -> uniprobe_calls_e alphabet parse_f32 (nat_of_int n) es)
                  ~model_polls_e:(fun n es -> uniprobe_polls_e alphabet parse_f32 (nat_of_int n) es)
            | _ -> "OK"   (* a case of another group *)
          with
          | Bad why -> "DIFF driver: " ^ why
          | Oracle_missing t -> "DIFF float-oracle-has-no-entry-for " ^ t
          | Failure why -> "DIFF driver-failure: " ^ why
          | Not_found -> "DIFF driver-not-found"
          | Invalid_argument why -> "DIFF driver-invalid-argument: " ^ why
          | Stack_overflow -> "DIFF driver-stack-overflow" in
        print_endline (id ^ " " ^ verdict)
      end
    done
  with End_of_file -> ()
