(* Driver for the extracted model and property checker of C18 (Python indexing and
   buffer views).  Reads the observation lines of pyharness/py/c18_driver.py:
     <id> cls=<class> prot=<0|1> ... => obj=<logical> [LM=<L>,<M>] len=<o> get=<i:o;...> views=<W>@<view>|...
   and prints one verdict per case:
     <id> OK | <id> PROPFAIL <detail> | <id> DIFF <detail>
   PROPFAIL is decided by the extracted checker check_C18 (proved sound in
   coq/pyidx/PyIdxProofs.v: check_C18_sound) applied to the implementation's
   observation; the detail is found by re-running the same checker on the parts of
   the observation.  DIFF: the observation passes the checker but differs from what
   the extracted model of lib.rs predicts. *)
open Pyidx_model

let rec nat_of_int n = if n <= 0 then O else S (nat_of_int (n - 1))
let rec int_of_nat = function O -> 0 | S n -> 1 + int_of_nat n

let rec pos_of_int n =
  if n = 1 then XH else if n land 1 = 0 then XO (pos_of_int (n lsr 1)) else XI (pos_of_int (n lsr 1))
let z_of_int n = if n = 0 then Z0 else if n > 0 then Zpos (pos_of_int n) else Zneg (pos_of_int (-n))
let z10 = z_of_int 10

(* decimal string of any size -> Z *)
let z_of_string (s : string) : z =
  let n = String.length s in
  if n = 0 then failwith "empty number";
  let neg = s.[0] = '-' in
  let start = if neg then 1 else 0 in
  if n - start <= 17 then z_of_int (int_of_string s)
  else begin
    let acc = ref Z0 in
    for i = start to n - 1 do
      let d = Char.code s.[i] - 48 in
      if d < 0 || d > 9 then failwith ("bad number " ^ s);
      acc := Z.add (Z.mul !acc z10) (z_of_int d)
    done;
    if neg then Z.opp !acc else !acc
  end

let rec int_of_pos = function XH -> 1 | XO p -> 2 * int_of_pos p | XI p -> 2 * int_of_pos p + 1
(* printing only (values that fit, or an approximation marker) *)
let rec pos_bits = function XH -> 1 | XO p | XI p -> 1 + pos_bits p
let string_of_z = function
  | Z0 -> "0"
  | Zpos p -> if pos_bits p < 62 then string_of_int (int_of_pos p) else "<big>"
  | Zneg p -> if pos_bits p < 62 then string_of_int (- (int_of_pos p)) else "-<big>"

let split c s = if s = "" then [] else String.split_on_char c s

let kv tok = match String.index_opt tok '=' with
  | Some i -> (String.sub tok 0 i, String.sub tok (i + 1) (String.length tok - i - 1))
  | None -> (tok, "")

let parse_zlist s = List.map z_of_string (split ',' s)
let parse_table s : z list list =
  List.map (fun r -> if r = "-" then [] else parse_zlist r) (split '/' s)

let exc_of_token tok : int option =
  (* E1 IndexError, E2 OverflowError, E3 TypeError, E4 BufferError, E9:... other *)
  if String.length tok >= 2 && tok.[0] = 'E' then Some (Char.code tok.[1] - 48) else None

let parse_outcome_val (tok : string) : z pyval outcome =
  if tok = "P" then OPanic
  else match exc_of_token tok with
    | Some c -> OExc (nat_of_int c)
    | None ->
      if tok.[0] = 'v' then OVal (VElem (z_of_string (String.sub tok 1 (String.length tok - 1))))
      else if tok.[0] = 'r' then OVal (VRow (parse_zlist (String.sub tok 1 (String.length tok - 1))))
      else OExc (nat_of_int 9)

let parse_len (tok : string) : z outcome =
  if tok = "P" then OPanic
  else match exc_of_token tok with
    | Some c -> OExc (nat_of_int c)
    | None -> OVal (z_of_string (String.sub tok 1 (String.length tok - 1)))

let fmt_of_string = function "B" -> 0 | "f" -> 1 | "d" -> 2 | _ -> 9

(* view token -> (outcome, unsafe flag, element-access cross-check ok) *)
let parse_view (tok : string) : z vobs outcome * bool * bool =
  if tok = "P" then (OPanic, false, true)
  else if String.length tok >= 2 && tok.[0] = 'E' && tok.[1] >= '0' && tok.[1] <= '9' && not (String.contains tok '!')
  then (OExc (nat_of_int (Char.code tok.[1] - 48)), false, true)
  else match String.split_on_char '!' tok with
    | [sh; st; isz; fm; nd; nb; ro; tl; by; x] ->
      let unsafe = (tl = "unsafe") in
      let v = { vo_shape = parse_zlist sh; vo_strides = parse_zlist st; vo_itemsize = z_of_string isz;
                vo_format = nat_of_int (fmt_of_string fm); vo_ndim = z_of_string nd; vo_nbytes = z_of_string nb;
                vo_readonly = (ro = "1");
                vo_tolist = (if unsafe then [] else parse_table tl);
                vo_bytes = (if unsafe then [] else parse_zlist by) } in
      (OVal v, unsafe, x = "1")
    | _ -> (OExc (nat_of_int 9), false, true)

let show_zlist l = String.concat "," (List.map string_of_z l)

let show_view_head (v : z vobs) =
  Printf.sprintf "shape=%s,strides=%s,itemsize=%s,format=%d,ndim=%s,nbytes=%s" (show_zlist v.vo_shape)
    (show_zlist v.vo_strides) (string_of_z v.vo_itemsize) (int_of_nat v.vo_format) (string_of_z v.vo_ndim)
    (string_of_z v.vo_nbytes)

let show_out_val (o : z pyval outcome) = match o with
  | OVal (VElem x) -> "value:" ^ string_of_z x
  | OVal (VRow r) -> "row:" ^ show_zlist r
  | OExc c -> (match int_of_nat c with 1 -> "IndexError" | 2 -> "OverflowError" | 3 -> "TypeError"
                                      | 4 -> "BufferError" | _ -> "other-exception")
  | OPanic -> "PanicException"

let () =
  try
    while true do
      let line = input_line stdin in
      if String.length line > 0 && line.[0] <> '#' then begin
        let (inp, obs) =
          match Str.bounded_split (Str.regexp_string " => ") line 2 with
          | [a; b] -> (a, b) | [a] -> (a, "") | _ -> failwith "bad line" in
        let toks = String.split_on_char ' ' inp in
        let id = List.hd toks in
        (try
          let fields = List.map kv (List.tl toks) in
          let get k = List.assoc k fields in
          let cls = get "cls" in
          let prot = (try get "prot" with Not_found -> "0") = "1" in
          let ofields = List.map kv (String.split_on_char ' ' obs) in
          if List.mem_assoc "ctor" ofields then
            Printf.printf "%s DIFF class=%s constructor-raised:%s\n" id cls (List.assoc "ctor" ofields)
          else if cls = "alloc" then begin
            (* buffer identity of a StripedSequence while a view is exported (finding F24) *)
            let r = match String.split_on_char ':' (List.assoc "obj" ofields) with
              | ["alloc"; r] -> nat_of_int (int_of_string r) | _ -> failwith "bad alloc obj" in
            let ms = List.filter_map (fun op -> if String.length op > 1 && op.[0] = 'c'
                                        then Some (nat_of_int (int_of_string (String.sub op 1 (String.length op - 1)))) else None)
                (split ';' (get "hist")) in
            let moves : bool option list =
              List.map (fun m -> match m with "1" -> Some true | "0" -> Some false | _ -> None)
                (split ',' (List.assoc "moves" ofields)) in
            let avx2 = (try List.assoc "avx2" ofields with Not_found -> "1") = "1" in
            let show l = String.concat "," (List.map (fun n -> string_of_int (int_of_nat n)) l) in
            if List.length moves <> List.length ms then
              Printf.printf "%s DIFF class=alloc observation-count\n" id
            (* the property: extracted check_alloc (C18_check_alloc_sound_complete) *)
            else if not (check_alloc r moves) then begin
              (* diagnosis: the steps at which the buffer moved, split by the prediction of the
                 allocation model (model_moves = view_dangling per step) *)
              let (expected, unexpected) = alloc_steps O (model_moves avx2 r [] ms) moves in
              if unexpected <> [] then
                Printf.printf "%s PROPFAIL class=alloc buffer moved while a view was exported although the new row count fits the capacity reserved by stripe() (rows=%d, steps %s)\n"
                  id (int_of_nat r) (show unexpected)
              else
                Printf.printf "%s PROPFAIL class=alloc stale-view call-sequence=memoryview(StripedSequence);ScoringMatrix.calculate(wider motif);read view -- buffer moved while a view was exported (rows=%d, steps %s)\n"
                  id (int_of_nat r) (show expected)
            end
            else if List.mem None moves then
              (* not observable (no ctypes in the embedded interpreter): reported, never silently OK *)
              Printf.printf "%s DIFF class=alloc buffer-address-not-observable\n" id
            else Printf.printf "%s OK\n" id
          end
          else begin
            let oget k = List.assoc k ofields in
            let kk = if prot then 21 else 5 in
            let (l_, m_) = (try match split ',' (oget "LM") with [a; b] -> (int_of_string a, int_of_string b) | _ -> (0, 0)
                            with Not_found -> (0, 0)) in
            let kind = match cls with
              | "enc" -> KEnc | "dist" -> KDist | "count" -> KCount | "weight" -> KWeight
              | "scoring" -> KScoring | "striped" -> KStriped | "scores" -> KScores
              | _ -> failwith ("unknown class " ^ cls) in
            let lo : z lobj =
              match String.split_on_char ':' (oget "obj") with
              | ["seq"; vals] -> LSeq (kind, parse_zlist vals)
              | ["rows"; k; rows] -> LRows (kind, nat_of_int (int_of_string k), parse_table rows)
              | ["striped"; r; pos; maxi] ->
                if kind = KScores then z_scores_lobj (nat_of_int l_) (nat_of_int m_) (parse_zlist pos)
                else LStriped (kind, nat_of_int (int_of_string r), parse_zlist pos, nat_of_int (int_of_string maxi))
              | _ -> failwith "bad obj" in
            if not (z_lobj_wfb lo) then failwith "reference object of the harness is not well formed (lobj_wfb)";
            (* default element: the wildcard symbol for symbol matrices, 0 otherwise *)
            let dflt = match kind with KEnc | KStriped -> z_of_int (kk - 1) | _ -> Z0 in
            let poison = z_of_int (-1) in
            let o_len = parse_len (oget "len") in
            let gets = List.map (fun t ->
                match Str.bounded_split (Str.regexp_string ":") t 2 with
                | [i; o] -> (z_of_string i, parse_outcome_val o)
                | _ -> failwith ("bad get " ^ t)) (split ';' (oget "get")) in
            let views = List.map (fun t ->
                match Str.bounded_split (Str.regexp_string "@") t 2 with
                | [w; v] -> (List.map (fun x -> nat_of_int (int_of_string x)) (split ',' w), v)
                | [v] -> ([], v)
                | _ -> failwith "bad view") (split '|' (oget "views")) in
            let idxs = List.map fst gets in
            let fails = ref [] and diffs = ref [] in
            let addf s = if not (List.mem s !fails) then fails := s :: !fails in
            let addd s = if not (List.mem s !diffs) then diffs := s :: !diffs in
            let chk ob = z_check_C18 dflt lo ob in
            let indexable = has_index kind in
            let exports = (match kfmt kind with None -> false | Some _ -> true) in
            let nviews = List.length views in
            List.iteri (fun vi (wraps, vtok) ->
                let (o_view, unsafe, xok) = parse_view vtok in
                let ob = { o_len = o_len; o_get = (if vi = 0 then gets else []); o_view = o_view } in
                let model = z_model_obs dflt poison lo (if vi = 0 then idxs else []) wraps (nat_of_int l_) (nat_of_int m_) in
                let where = if nviews > 1 then Printf.sprintf " after-calculate-widths=[%s]" (String.concat "," (List.map (fun n -> string_of_int (int_of_nat n)) wraps)) else "" in
                if not (chk ob) then begin
                  (* locate: length, each index, view — with the parts of the same extracted checker *)
                  if indexable && vi = 0 then begin
                    if not (z_check_index dflt lo o_len []) then
                      addf (Printf.sprintf "len observed=%s" (match o_len with OVal n -> string_of_z n | OExc _ -> "exception" | OPanic -> "PanicException"));
                    List.iter (fun (i, o) ->
                        if not (z_check_index dflt lo (OVal (llen lo)) [(i, o)]) then
                          addf (Printf.sprintf "getitem i=%s%s got=%s" (string_of_z i)
                                  (if in_ssize i then "" else " outside-ssize_t") (show_out_val o))) gets
                  end;
                  if exports && not (z_check_view dflt lo o_view) then
                    addf (Printf.sprintf "view%s %s%s" where
                            (match o_view with
                             | OVal v -> show_view_head v
                             | OExc _ -> "raised-exception"
                             | OPanic -> "PanicException")
                            (if unsafe then " reaches-outside-the-allocation-or-unknown-format" else ""));
                  if !fails = [] then addf "check_C18 rejected the observation"
                end;
                (* correspondence with the model of lib.rs *)
                if vi = 0 then begin
                  if model.o_len <> o_len then addd "len differs from model";
                  List.iter2 (fun (i, o) (_, mo) ->
                      if o <> mo then addd (Printf.sprintf "getitem i=%s got=%s model=%s" (string_of_z i) (show_out_val o) (show_out_val mo)))
                    gets model.o_get
                end;
                if not xok then addd ("memoryview element access disagrees with tolist, or the view does not hold a reference to its exporter" ^ where);
                (match o_view, model.o_view with
                 | OVal v, OVal mv ->
                   if v <> mv && not unsafe then
                     addd (Printf.sprintf "view%s %s model %s%s" where (show_view_head v) (show_view_head mv)
                             (if v.vo_tolist <> mv.vo_tolist || v.vo_bytes <> mv.vo_bytes then " contents-differ" else
                              if v.vo_readonly <> mv.vo_readonly then " readonly-differs" else ""))
                   else if unsafe then addd (Printf.sprintf "view%s not read (unsafe descriptor) %s" where (show_view_head v))
                 | a, b -> if a <> b then addd (Printf.sprintf "view%s outcome differs from model" where)))
              views;
            (* buffer requests with explicit flags (PyObject_GetBuffer through ctypes) against the
               model of the guards of __getbuffer__: model_request / model_request_null *)
            (match (try Some (oget "raw") with Not_found -> None) with
             | None -> ()
             | Some "" -> ()
             | Some raw ->
               (match Str.bounded_split_delim (Str.regexp_string "@") raw 2 with
                | [w; reqs] when reqs <> "NA" ->
                  let wraps = List.map (fun x -> nat_of_int (int_of_string x)) (split ',' w) in
                  let fmt_char = function FmtB -> "B" | Fmtf -> "f" | Fmtd -> "d" in
                  let optl = function None -> "N" | Some l -> show_zlist l in
                  let expect (r : pybuf res) = match r with
                    | Ok b -> Printf.sprintf "%s/%s/%d/%d/%s/%s/%s/1/1/1/1/0" (string_of_z b.pb_len) (string_of_z b.pb_itemsize)
                                (if b.pb_readonly then 1 else 0) (int_of_nat b.pb_ndim) (fmt_char b.pb_format)
                                (optl b.pb_shape) (optl b.pb_strides)
                    | Err c -> "E" ^ string_of_int (int_of_nat c)
                    | Panic _ -> "P"
                    | OutOfFuel -> "E9" in
                  List.iter (fun t ->
                      match Str.bounded_split (Str.regexp_string ":") t 2 with
                      | [fl; got] ->
                        let model = if fl = "null" then z_model_request_null dflt lo wraps (nat_of_int l_) (nat_of_int m_)
                          else z_model_request dflt lo wraps (nat_of_int l_) (nat_of_int m_) (z_of_string fl) in
                        let exp = expect model in
                        let got' = if String.length got > 2 && got.[0] = 'E' && got.[1] = '9' then "E9" else got in
                        if got' <> exp then
                          addd (Printf.sprintf "getbuffer(flags=%s) got=%s model=%s" fl got exp)
                      | _ -> ()) (split '|' reqs)
                | _ -> ()));
            if !fails <> [] then
              Printf.printf "%s PROPFAIL class=%s %s\n" id cls (String.concat " ; " (List.rev !fails))
            else if !diffs <> [] then
              Printf.printf "%s DIFF class=%s %s\n" id cls (String.concat " ; " (List.rev !diffs))
            else Printf.printf "%s OK\n" id
          end
        with e -> Printf.printf "%s DIFF driver-error:%s\n" id (String.map (fun c -> if c = ' ' then '_' else c) (Printexc.to_string e)))
      end
    done
  with End_of_file -> ()
