(* Driver for the extracted scanner model and property checkers (C02, C03).
   usage: driver c02|c03      (observation lines of `scan <prop> run` on stdin)
   One verdict line per case:
     <id> OK | <id> PROPFAIL <detail> | <id> DIFF <detail>
   PROPFAIL: the implementation's own observations (hits / max() answers against the
   per-position scores it printed) violate the property, as decided by the checkers
   extracted from Coq (ScanCheck.check_c02 / check_c03).
   DIFF: the observations differ from the extracted binary32 scanner model
   (ScanConcrete: hits in yield order with exact bits, take(k) prefixes, max()
   position and bits, panics), the property checker having passed. *)
open Scan_model

let rec nat_of_int n = if n <= 0 then O else S (nat_of_int (n - 1))
let int_of_nat n = let rec go acc = function O -> acc | S m -> go (acc + 1) m in go 0 n

let rec pos_of_int n =
  if n = 1 then XH else if n land 1 = 0 then XO (pos_of_int (n lsr 1)) else XI (pos_of_int (n lsr 1))
let z_of_int n = if n = 0 then Z0 else if n > 0 then Zpos (pos_of_int n) else Zneg (pos_of_int (-n))
let rec int_of_pos = function XH -> 1 | XO p -> 2 * int_of_pos p | XI p -> 2 * int_of_pos p + 1
let int_of_z = function Z0 -> 0 | Zpos p -> int_of_pos p | Zneg p -> - (int_of_pos p)

let split c s = if s = "" || s = "-" then [] else String.split_on_char c s

let kv tok = match String.index_opt tok '=' with
  | Some i -> (String.sub tok 0 i, String.sub tok (i + 1) (String.length tok - i - 1))
  | None -> (tok, "")

let is_nan_bits b = (b land 0x7F800000) = 0x7F800000 && (b land 0x007FFFFF) <> 0
let bits_same a b = a = b || (is_nan_bits a && is_nan_bits b)

let f32_of_int_bits b = x_of_bits (z_of_int b)
let int_bits_of_f32 x = int_of_z (x_to_bits x)

(* "pos:bits,pos:bits" *)
let parse_hits s : (int * int) list =
  List.map (fun h -> match String.split_on_char ':' h with
      | [p; b] -> (int_of_string p, int_of_string b)
      | _ -> failwith ("bad hit " ^ h)) (split ',' s)

let show_hit (p, b) = Printf.sprintf "%d:%d" p b
let zhit (p, b) = (z_of_int p, z_of_int b)

let model_hits (l : fhit list) : (int * int) list =
  List.map (fun (p, s) -> (int_of_nat p, int_bits_of_f32 s)) l

let rec take n l = if n <= 0 then [] else match l with [] -> [] | x :: r -> x :: take (n - 1) r

let arm_of = function 'g' -> Generic | 's' -> Sse2 | 'a' -> Avx2 | c -> failwith (Printf.sprintf "bad arm %c" c)

(* split the observation into the common part and one token list per arm *)
let split_arms toks =
  let rec go cur_arm cur acc = function
    | [] -> List.rev ((cur_arm, List.rev cur) :: acc)
    | t :: r when String.length t = 2 && t.[0] = '@' -> go (Some t.[1]) [] ((cur_arm, List.rev cur) :: acc) r
    | t :: r -> go cur_arm (t :: cur) acc r in
  go None [] [] toks

let () =
  let prop = if Array.length Sys.argv > 1 then String.lowercase_ascii Sys.argv.(1) else "c02" in
  try
    while true do
      let line = input_line stdin in
      if String.length line > 0 && line.[0] <> '#' then begin
        let (inp, obs) =
          match Str.bounded_split (Str.regexp_string " => ") line 2 with
          | [a; b] -> (a, b) | [a] -> (a, "") | _ -> failwith "bad line" in
        let toks = String.split_on_char ' ' inp in
        let id = List.hd toks in
        let verdict = ref "OK" in
        (* PROPFAIL takes precedence over DIFF; first of each kind is kept *)
        let set_v v =
          if !verdict = "OK" then verdict := v
          else if String.length !verdict >= 4 && String.sub !verdict 0 4 = "DIFF"
                  && String.length v >= 8 && String.sub v 0 8 = "PROPFAIL" then verdict := v in
        (try
          let fields = List.map kv (List.tl toks) in
          let get k = List.assoc k fields in
          let m = int_of_string (get "M") in
          let pssm_bits = List.map (fun r -> List.map int_of_string (split ',' r)) (split '/' (get "pssm")) in
          let pssm = List.map (List.map f32_of_int_bits) pssm_bits in
          let sq = (let s = get "seq" in if s = "-" then [] else
                      List.init (String.length s) (fun i -> nat_of_int (Char.code s.[i] - 48))) in
          let wrap = int_of_string (get "wrap") in
          (* `thr=d` / `B=d`: the setter was not called; the defaults are the field initialisers of
             Scanner::new as read from scan.rs on this run (GenScan.v) *)
          let thr_bits = (match get "thr" with "d" -> int_of_z gen_default_threshold_bits | s -> int_of_string s) in
          let thr = f32_of_int_bits thr_bits in
          let b = (match get "B" with "d" -> int_of_nat gen_default_block_size | s -> int_of_string s) in
          let ks = List.map int_of_string (split ',' (get "ks")) in
          (* setters called after k calls of next(): (k, thr2 bits, B2), `=` = setter not called *)
          let sw = (match List.assoc_opt "sw" fields with
              | None | Some "-" -> None
              | Some x -> (match String.split_on_char ':' x with
                  | [k; t; bb] -> Some (int_of_string k,
                                        (if t = "=" then thr_bits else int_of_string t),
                                        (if bb = "=" then b else int_of_string bb))
                  | _ -> failwith ("bad sw " ^ x))) in
          let configured = m >= 1 && wrap >= m - 1 && b >= 1 in
          let nan_cell = List.exists (fun r -> List.exists is_nan_bits (take 4 r)) pssm_bits in
          let pre = configured && not nan_cell in
          let otoks = String.split_on_char ' ' obs in
          let sections = split_arms otoks in
          let common = (match sections with (None, c) :: _ -> List.map kv c | _ -> []) in
          let sc_s = (try List.assoc "sc" common with Not_found -> "P") in
          let env = c_env (nat_of_int 5) (nat_of_int 32) pssm sq (nat_of_int wrap) in
          (* ---- per-position scores: implementation's own numbers, and the model's ---- *)
          let impl_scores : int list option = if sc_s = "P" then None else Some (List.map int_of_string (split ',' sc_s)) in
          (match env, impl_scores with
           | Ok v, Some sc ->
               let ms = v.ce_ptab in
               if List.length ms <> List.length sc then
                 set_v (Printf.sprintf "DIFF score-count impl=%d model=%d" (List.length sc) (List.length ms))
               else
                 List.iteri (fun i (r, ib) ->
                     match r with
                     | Ok x -> if not (bits_same (int_bits_of_f32 x) ib) then
                           set_v (Printf.sprintf "DIFF score_position pos=%d impl=%d model=%d" i ib (int_bits_of_f32 x))
                     | _ -> set_v (Printf.sprintf "DIFF score_position pos=%d model-panics" i))
                   (List.combine ms sc)
           | Ok _, None -> if pre then set_v "PROPFAIL score_position-panicked" else set_v "DIFF score_position-panicked"
           | _, _ -> ());
          let zscores = (match impl_scores with Some sc -> List.map z_of_int sc | None -> []) in
          let zthr = z_of_int thr_bits in
          let bn = nat_of_int b in
          (* diagnostic for a lost hit: was it the 8-bit pre-filter (C08) ? *)
          let prefilter_note p =
            (match env with
             | Ok v ->
                 (match ce_dscore v (nat_of_int p) with
                  | Ok d -> let t = int_of_nat (ce_scale v thr) in let d = int_of_nat d in
                      if d < t then Printf.sprintf " c08-prefilter-not-conservative(scale=%d,dscore=%d,factor=%d,wc=%b)" t d
                          (int_bits_of_f32 v.ce_dm.d_factor) (ce_wc (nat_of_int 5) v)
                      else ""
                  | _ -> "")
             | _ -> "") in
          (* the scanner parameterised by the skeleton read from scan.rs (ShapeConcrete.v) is replayed
             under one arm per case (chosen by the case id) *)
          let narms = List.length (List.filter (fun (a, _) -> a <> None) sections) in
          let pick = if narms = 0 then 0 else (Hashtbl.hash id) mod narms in
          let arm_no = ref (-1) in
          List.iter (fun (a, stoks) ->
              match a with
              | None -> ()
              | Some ac ->
                  incr arm_no;
                  let with_skel = (!arm_no = pick) in
                  let am = arm_of ac in
                  let f = List.map kv stoks in
                  let has k = List.mem_assoc k f in
                  let fget k = List.assoc k f in
                  let tag = Printf.sprintf "arm=%c" ac in
                  if has "new" then begin
                    (* Scanner::new panicked *)
                    (match env with
                     | Ok _ -> if pre then set_v ("PROPFAIL " ^ tag ^ " panic-in-new") else set_v ("DIFF " ^ tag ^ " panic-in-new")
                     | _ -> ())
                  end else begin
                    (match env with
                     | Ok _ -> ()
                     | _ -> set_v ("DIFF " ^ tag ^ " model-panics-in-new"));
                    if prop = "c02" then begin
                      let hits = parse_hits (fget "hits") in
                      let e = fget "end" in
                      (* --- property --- *)
                      if e = "X" then set_v ("PROPFAIL " ^ tag ^ " more-hits-than-cells")
                      else if e = "P" then (if pre then set_v (Printf.sprintf "PROPFAIL %s panic-after-%d-hits" tag (List.length hits)))
                      else if impl_scores <> None then begin
                        let zh = List.map zhit hits in
                        if not (check_c02 zscores zthr zh) then begin
                          let d =
                            (match first_missing zscores zthr zh with
                             | Some (p, s) -> Printf.sprintf "missing pos=%d bits=%d%s" (int_of_z p) (int_of_z s) (prefilter_note (int_of_z p))
                             | None ->
                                 (match first_spurious zscores zthr zh with
                                  | Some (p, s) -> Printf.sprintf "spurious pos=%d bits=%d" (int_of_z p) (int_of_z s)
                                  | None -> "duplicate-hit")) in
                          set_v (Printf.sprintf "PROPFAIL %s %s" tag d)
                        end
                      end;
                      (* take(k): k distinct qualifying positions with exact scores (or all of them) *)
                      let takes = List.map (fun t -> match String.split_on_char '/' t with
                          | [k; h; r] -> (int_of_string k, parse_hits h, r)
                          | _ -> failwith ("bad take " ^ t)) (split ';' (fget "take")) in
                      let nq = List.length (qual zscores zthr) in
                      List.iter (fun (k, h, r) ->
                          if r = "P" then (if pre then set_v (Printf.sprintf "PROPFAIL %s take(%d)-panicked" tag k))
                          else if impl_scores <> None then begin
                            let zh = List.map zhit h in
                            let sorted = List.sort_uniq compare (List.map fst h) in
                            if List.length h <> min k nq then
                              set_v (Printf.sprintf "PROPFAIL %s take(%d)-length=%d expected=%d" tag k (List.length h) (min k nq))
                            else if List.length sorted <> List.length h then
                              set_v (Printf.sprintf "PROPFAIL %s take(%d)-duplicate" tag k)
                            else (match first_spurious zscores zthr zh with
                                | Some (p, _) -> set_v (Printf.sprintf "PROPFAIL %s take(%d)-spurious pos=%d" tag k (int_of_z p))
                                | None -> ())
                          end) takes;
                      (* --- model --- *)
                      (match env with
                       | Ok v ->
                           let n = List.length hits in
                           (match ce_collect v am thr bn with
                            | Ok mh ->
                                let mh = model_hits mh in
                                if e = "P" then set_v (Printf.sprintf "DIFF %s impl-panics model-yields-%d" tag (List.length mh))
                                else if mh <> hits then begin
                                  let rec first i a b = match a, b with
                                    | x :: a', y :: b' -> if x = y then first (i + 1) a' b' else Printf.sprintf "at=%d impl=%s model=%s" i (show_hit x) (show_hit y)
                                    | [], [] -> "same" | [], y :: _ -> Printf.sprintf "at=%d impl=end model=%s" i (show_hit y)
                                    | x :: _, [] -> Printf.sprintf "at=%d impl=%s model=end" i (show_hit x) in
                                  set_v (Printf.sprintf "DIFF %s hits %s" tag (first 0 hits mh))
                                end;
                                List.iter (fun (k, h, r) ->
                                    if r = "N" && h <> take k mh then set_v (Printf.sprintf "DIFF %s take(%d)" tag k)) takes;
                                if with_skel then begin
                                  (match ce_pcollect v am thr bn with
                                   | Ok ph -> if e <> "P" && model_hits ph <> hits then set_v (Printf.sprintf "DIFF %s source-skeleton-model hits" tag)
                                   | _ -> set_v (Printf.sprintf "DIFF %s source-skeleton-model fails" tag));
                                  List.iter (fun (k, h, r) ->
                                      if r = "N" then
                                        (match ce_ptake v am thr bn (nat_of_int k) with
                                         | Ok ph -> if model_hits ph <> h then set_v (Printf.sprintf "DIFF %s source-skeleton-model take(%d)" tag k)
                                         | _ -> set_v (Printf.sprintf "DIFF %s source-skeleton-model take(%d) fails" tag k))) takes
                                end
                            | Panic site ->
                                if e <> "P" then set_v (Printf.sprintf "DIFF %s model-panics-site-%d impl-yields-%d" tag (int_of_nat site) n)
                                else (match ce_take v am thr bn (nat_of_int n) with
                                    | Ok mh -> if model_hits mh <> hits then set_v (Printf.sprintf "DIFF %s hits-before-panic" tag)
                                    | _ -> set_v (Printf.sprintf "DIFF %s model-panics-earlier" tag))
                            | _ -> set_v (Printf.sprintf "DIFF %s model-out-of-fuel" tag))
                       | _ -> ());
                      (* --- setters changed between calls --- *)
                      (match sw with
                       | Some (k, t2bits, b2) when has "sw" ->
                           let before, after, e2 = (match String.split_on_char '/' (fget "sw") with
                               | [x; y; z] -> (parse_hits x, parse_hits y, z)
                               | _ -> failwith "bad sw observation") in
                           let pre2 = pre && b2 >= 1 in
                           if e2 = "P" then (if pre2 then set_v (Printf.sprintf "PROPFAIL %s sw-panicked-after-%d-hits" tag (List.length before + List.length after)))
                           else if e2 = "X" then set_v (Printf.sprintf "PROPFAIL %s sw-more-hits-than-cells" tag)
                           else if impl_scores <> None then begin
                             (* weak property: distinct positions with exact scores; the hits of the first k calls meet
                                thr, the later ones thr or thr2; every position meeting both thresholds is yielded *)
                             let sc = Array.of_list (match impl_scores with Some l -> l | None -> []) in
                             let all = before @ after in
                             let ge a bb = bits_ge (z_of_int a) (z_of_int bb) in
                             let exact (p, x) = p >= 0 && p < Array.length sc && sc.(p) = x in
                             if List.length (List.sort_uniq compare (List.map fst all)) <> List.length all then
                               set_v (Printf.sprintf "PROPFAIL %s sw-duplicate-hit" tag)
                             else if not (List.for_all exact all) then set_v (Printf.sprintf "PROPFAIL %s sw-inexact-hit" tag)
                             else if not (List.for_all (fun (_, x) -> ge x thr_bits) before) then set_v (Printf.sprintf "PROPFAIL %s sw-hit-below-thr" tag)
                             else if not (List.for_all (fun (_, x) -> ge x thr_bits || ge x t2bits) after) then set_v (Printf.sprintf "PROPFAIL %s sw-hit-below-both" tag)
                             else
                               Array.iteri (fun p x ->
                                   if ge x thr_bits && ge x t2bits && not (List.mem_assoc p all) then
                                     set_v (Printf.sprintf "PROPFAIL %s sw-missing pos=%d%s" tag p (prefilter_note p))) sc
                           end;
                           (match env with
                            | Ok v ->
                                (match ce_switch_collect v am thr bn (nat_of_int k) (f32_of_int_bits t2bits) (nat_of_int b2) with
                                 | Ok (mb, ma) ->
                                     if e2 = "P" then set_v (Printf.sprintf "DIFF %s sw impl-panics" tag)
                                     else if model_hits mb <> before then set_v (Printf.sprintf "DIFF %s sw hits-before" tag)
                                     else if model_hits ma <> after then set_v (Printf.sprintf "DIFF %s sw hits-after" tag)
                                 | Panic _ -> if e2 <> "P" then set_v (Printf.sprintf "DIFF %s sw model-panics" tag)
                                 | _ -> if b2 >= 1 then set_v (Printf.sprintf "DIFF %s sw model-out-of-fuel" tag))
                            | _ -> ())
                       | _ -> ())
                    end else begin
                      (* c03 *)
                      let items = List.map (fun t -> match String.split_on_char '/' t with
                          | [k; c; r] -> (int_of_string k, List.map int_of_string (split '+' c), r)
                          | _ -> failwith ("bad max item " ^ t)) (split ';' (fget "max")) in
                      List.iter (fun (k, consumed, r) ->
                          let result = (match r with
                              | "N" -> `None | "P" -> `Panic
                              | s -> (match String.split_on_char ':' s with
                                  | [p; bb] -> `Some (int_of_string p, int_of_string bb)
                                  | _ -> failwith ("bad max result " ^ s))) in
                          (* --- property --- *)
                          (match result with
                           | `Panic -> if pre then set_v (Printf.sprintf "PROPFAIL %s k=%d max-panicked" tag k)
                           | `None | `Some _ when impl_scores = None -> ()
                           | _ ->
                               let zr = (match result with `Some h -> Some (zhit h) | _ -> None) in
                               let zc = List.map z_of_int consumed in
                               if not (check_c03 zscores zthr zc zr) then begin
                                 let rem = remaining zscores zthr zc in
                                 let best = List.fold_left (fun acc (p, s) -> match acc with
                                     | None -> Some (p, s)
                                     | Some (_, bs) -> if bits_ge s bs then Some (p, s) else acc) None rem in
                                 let bs = (match best with
                                     | Some (p, s) -> Printf.sprintf "best-remaining=%d:%d%s" (int_of_z p) (int_of_z s)
                                                        (if r = "N" then prefilter_note (int_of_z p) else "")
                                     | None -> "nothing-remains") in
                                 set_v (Printf.sprintf "PROPFAIL %s k=%d max=%s %s" tag k r bs)
                               end);
                          (* --- model --- *)
                          (match env with
                           | Ok v ->
                               (match ce_take_max v am thr bn (nat_of_int k) with
                                | Ok (mh, mx) ->
                                    if List.map fst (model_hits mh) <> consumed && result <> `Panic then
                                      set_v (Printf.sprintf "DIFF %s k=%d consumed-prefix" tag k);
                                    (match mx, result with
                                     | Ok None, `None -> ()
                                     | Ok (Some (p, s)), `Some (ip, ib) ->
                                         if int_of_nat p <> ip || int_bits_of_f32 s <> ib then
                                           set_v (Printf.sprintf "DIFF %s k=%d max impl=%d:%d model=%d:%d" tag k ip ib (int_of_nat p) (int_bits_of_f32 s))
                                     | Panic _, `Panic -> ()
                                     | Ok None, _ -> set_v (Printf.sprintf "DIFF %s k=%d max impl=%s model=None" tag k r)
                                     | Ok (Some (p, s)), _ -> set_v (Printf.sprintf "DIFF %s k=%d max impl=%s model=%d:%d" tag k r (int_of_nat p) (int_bits_of_f32 s))
                                     | Panic site, _ -> set_v (Printf.sprintf "DIFF %s k=%d max impl=%s model-panics-site-%d" tag k r (int_of_nat site))
                                     | _, _ -> set_v (Printf.sprintf "DIFF %s k=%d model-out-of-fuel" tag k))
                                | Panic _ -> if result <> `Panic then set_v (Printf.sprintf "DIFF %s k=%d model-panics-in-prefix" tag k)
                                | _ -> set_v (Printf.sprintf "DIFF %s k=%d model-out-of-fuel" tag k));
                               if with_skel && result <> `Panic then
                                 (match ce_ptake_max v am thr bn (nat_of_int k) with
                                  | Ok (ph, px) ->
                                      if List.map fst (model_hits ph) <> consumed then
                                        set_v (Printf.sprintf "DIFF %s k=%d source-skeleton-model consumed-prefix" tag k);
                                      (match px, result with
                                       | Ok None, `None -> ()
                                       | Ok (Some (p, s)), `Some (ip, ib) ->
                                           if int_of_nat p <> ip || int_bits_of_f32 s <> ib then
                                             set_v (Printf.sprintf "DIFF %s k=%d source-skeleton-model max impl=%d:%d model=%d:%d" tag k ip ib (int_of_nat p) (int_bits_of_f32 s))
                                       | _, _ -> set_v (Printf.sprintf "DIFF %s k=%d source-skeleton-model max impl=%s" tag k r))
                                  | _ -> set_v (Printf.sprintf "DIFF %s k=%d source-skeleton-model fails" tag k))
                           | _ -> ())) items;
                      (* --- setters changed between the k calls of next() and max() --- *)
                      (match sw with
                       | Some (k, t2bits, b2) when has "swmax" ->
                           let consumed, r = (match String.split_on_char '/' (fget "swmax") with
                               | [c; r] -> (List.map int_of_string (split '+' c), r)
                               | _ -> failwith "bad swmax observation") in
                           let pre2 = pre && b2 >= 1 in
                           let result = (match r with
                               | "N" -> `None | "P" -> `Panic
                               | x -> (match String.split_on_char ':' x with
                                   | [p; bb] -> `Some (int_of_string p, int_of_string bb)
                                   | _ -> failwith ("bad swmax result " ^ x))) in
                           (match result with
                            | `Panic -> if pre2 then set_v (Printf.sprintf "PROPFAIL %s swmax-panicked" tag)
                            | _ when impl_scores = None -> ()
                            | _ ->
                                (* weak property: the answer is an unconsumed position with its exact score meeting thr2
                                   and dominating every unconsumed position that meets both thresholds; None only if
                                   there is no such position *)
                                let sc = Array.of_list (match impl_scores with Some l -> l | None -> []) in
                                let ge a bb = bits_ge (z_of_int a) (z_of_int bb) in
                                let strong = ref [] in
                                Array.iteri (fun p x -> if ge x thr_bits && ge x t2bits && not (List.mem p consumed) then strong := (p, x) :: !strong) sc;
                                (match result with
                                 | `None -> (match !strong with
                                     | (p, _) :: _ -> set_v (Printf.sprintf "PROPFAIL %s swmax=N unconsumed-qualifying pos=%d%s" tag p (prefilter_note p))
                                     | [] -> ())
                                 | `Some (p, x) ->
                                     if not (p >= 0 && p < Array.length sc && sc.(p) = x) then set_v (Printf.sprintf "PROPFAIL %s swmax-inexact" tag)
                                     else if List.mem p consumed then set_v (Printf.sprintf "PROPFAIL %s swmax-consumed-position" tag)
                                     else if not (ge x t2bits) then set_v (Printf.sprintf "PROPFAIL %s swmax-below-thr2" tag)
                                     else List.iter (fun (q, y) -> if not (ge x y) then
                                                        set_v (Printf.sprintf "PROPFAIL %s swmax=%d:%d better-unconsumed=%d:%d" tag p x q y)) !strong
                                 | _ -> ()));
                           (match env with
                            | Ok v ->
                                (match ce_switch_max v am thr bn (nat_of_int k) (f32_of_int_bits t2bits) (nat_of_int b2) with
                                 | Ok (mh, mx) ->
                                     if List.map fst (model_hits mh) <> consumed && result <> `Panic then
                                       set_v (Printf.sprintf "DIFF %s swmax consumed-prefix" tag);
                                     (match mx, result with
                                      | Ok None, `None -> ()
                                      | Ok (Some (p, x)), `Some (ip, ib) ->
                                          if int_of_nat p <> ip || int_bits_of_f32 x <> ib then
                                            set_v (Printf.sprintf "DIFF %s swmax impl=%d:%d model=%d:%d" tag ip ib (int_of_nat p) (int_bits_of_f32 x))
                                      | Panic _, `Panic -> ()
                                      | OutOfFuel, _ -> if b2 >= 1 then set_v (Printf.sprintf "DIFF %s swmax model-out-of-fuel" tag)
                                      | _, _ -> set_v (Printf.sprintf "DIFF %s swmax impl=%s model-differs" tag r))
                                 | Panic _ -> if result <> `Panic then set_v (Printf.sprintf "DIFF %s swmax model-panics-in-prefix" tag)
                                 | _ -> set_v (Printf.sprintf "DIFF %s swmax model-out-of-fuel" tag))
                            | _ -> ())
                       | _ -> ())
                    end
                  end) sections
        with
        | Not_found -> set_v "DIFF driver-missing-field"
        | Failure msg -> set_v ("DIFF driver-failure " ^ (String.map (fun c -> if c = ' ' then '_' else c) msg)));
        print_endline (id ^ " " ^ !verdict)
      end
    done
  with End_of_file -> ()
