(* Driver for the extracted scanner model and property checkers (C02, C03).
   usage: driver c02|c03      (observation lines of `scan <prop> run` on stdin)
   One verdict line per case:
     <id> OK | <id> PROPFAIL <detail> | <id> DIFF <detail>
   PROPFAIL: the implementation's own observations (hits / max() answers against the
   per-position scores it printed) violate the property, as decided by the checkers
   extracted from Coq (ScanCheck.check_c02 / check_c03).
   DIFF: the observations differ from the extracted binary32 scanner model
   (ScanConcrete: hits in yield order with exact bits, take(k) prefixes, max()
   position and bits, panics), the property checker having passed. *)
open Scan_model

let rec nat_of_int n = if n <= 0 then O else S (nat_of_int (n - 1))
let int_of_nat n = let rec go acc = function O -> acc | S m -> go (acc + 1) m in go 0 n

let rec pos_of_int n =
  if n = 1 then XH else if n land 1 = 0 then XO (pos_of_int (n lsr 1)) else XI (pos_of_int (n lsr 1))
let z_of_int n = if n = 0 then Z0 else if n > 0 then Zpos (pos_of_int n) else Zneg (pos_of_int (-n))
let rec int_of_pos = function XH -> 1 | XO p -> 2 * int_of_pos p | XI p -> 2 * int_of_pos p + 1
let int_of_z = function Z0 -> 0 | Zpos p -> int_of_pos p | Zneg p -> - (int_of_pos p)

let split c s = if s = "" || s = "-" then [] else String.split_on_char c s

let kv tok = match String.index_opt tok '=' with
  | Some i -> (String.sub tok 0 i, String.sub tok (i + 1) (String.length tok - i - 1))
  | None -> (tok, "")

let is_nan_bits b = (b land 0x7F800000) = 0x7F800000 && (b land 0x007FFFFF) <> 0
let bits_same a b = a = b || (is_nan_bits a && is_nan_bits b)

let f32_of_int_bits b = x_of_bits (z_of_int b)
let int_bits_of_f32 x = int_of_z (x_to_bits x)

(* "pos:bits,pos:bits" *)
let parse_hits s : (int * int) list =
  List.map (fun h -> match String.split_on_char ':' h with
      | [p; b] -> (int_of_string p, int_of_string b)
      | _ -> failwith ("bad hit " ^ h)) (split ',' s)

(* consumed hits of the c03 observations: "pos:bits+pos:bits" (older corpus observations: "pos+pos") *)
let parse_consumed s : (int * int option) list =
  List.map (fun h -> match String.split_on_char ':' h with
      | [p; b] -> (int_of_string p, Some (int_of_string b))
      | [p] -> (int_of_string p, None)
      | _ -> failwith ("bad consumed hit " ^ h)) (split '+' s)

(* model hits against the consumed hits: positions, and score bits where the harness printed them *)
let same_consumed (mh : (int * int) list) (c : (int * int option) list) =
  List.length mh = List.length c &&
  List.for_all2 (fun (p, b) (q, ob) -> p = q && (match ob with Some x -> x = b | None -> true)) mh c

let show_hit (p, b) = Printf.sprintf "%d:%d" p b
let zhit (p, b) = (z_of_int p, z_of_int b)

let model_hits (l : fhit list) : (int * int) list =
  List.map (fun (p, s) -> (int_of_nat p, int_bits_of_f32 s)) l

let rec take n l = if n <= 0 then [] else match l with [] -> [] | x :: r -> x :: take (n - 1) r

(* decimal string -> N (block sizes up to usize::MAX do not fit OCaml's int) *)
let n_of_string (x : string) =
  n_of_digits (List.init (String.length x) (fun i ->
      let c = Char.code x.[i] - 48 in
      if c < 0 || c > 9 then failwith ("bad number " ^ x) else nat_of_int c))
let big_number (x : string) = String.length x > 7

let rec is_prefix a b = match a, b with
  | [], _ -> true
  | x :: a', y :: b' -> x = y && is_prefix a' b'
  | _ :: _, [] -> false

let arm_of = function 'g' -> Generic | 's' -> Sse2 | 'a' -> Avx2 | c -> failwith (Printf.sprintf "bad arm %c" c)

(* split the observation into the common part and one token list per arm *)
let split_arms toks =
  let rec go cur_arm cur acc = function
    | [] -> List.rev ((cur_arm, List.rev cur) :: acc)
    | t :: r when String.length t = 2 && t.[0] = '@' -> go (Some t.[1]) [] ((cur_arm, List.rev cur) :: acc) r
    | t :: r -> go cur_arm (t :: cur) acc r in
  go None [] [] toks

let () =
  let prop = if Array.length Sys.argv > 1 then String.lowercase_ascii Sys.argv.(1) else "c02" in
  try
    while true do
      let line = input_line stdin in
      if String.length line > 0 && line.[0] <> '#' then begin
        let (inp, obs) =
          match Str.bounded_split (Str.regexp_string " => ") line 2 with
          | [a; b] -> (a, b) | [a] -> (a, "") | _ -> failwith "bad line" in
        let toks = String.split_on_char ' ' inp in
        let id = List.hd toks in
        let verdict = ref "OK" in
        (* PROPFAIL takes precedence over DIFF; first of each kind is kept *)
        let set_v v =
          (* SCAN_DRIVER_ALL=1: every verdict on stderr (a DIFF behind a PROPFAIL is otherwise not shown) *)
          if Sys.getenv_opt "SCAN_DRIVER_ALL" = Some "1" then prerr_endline ("# " ^ id ^ " " ^ v);
          if !verdict = "OK" then verdict := v
          else if String.length !verdict >= 4 && String.sub !verdict 0 4 = "DIFF"
                  && String.length v >= 8 && String.sub v 0 8 = "PROPFAIL" then verdict := v in
        (try
          let fields = List.map kv (List.tl toks) in
          let get k = List.assoc k fields in
          let m = int_of_string (get "M") in
          let pssm_bits = List.map (fun r -> List.map int_of_string (split ',' r)) (split '/' (get "pssm")) in
          let pssm = List.map (List.map f32_of_int_bits) pssm_bits in
          let sq = (let s = get "seq" in if s = "-" then [] else
                      List.init (String.length s) (fun i -> nat_of_int (Char.code s.[i] - 48))) in
          let wrap = int_of_string (get "wrap") in
          (* `thr=d` / `B=d`: the setter was not called; the defaults are the field initialisers of
             Scanner::new as read from scan.rs on this run (GenScan.v) *)
          let thr_bits = (match get "thr" with "d" -> int_of_z gen_default_threshold_bits | s -> int_of_string s) in
          let thr = f32_of_int_bits thr_bits in
          let b_str = (match get "B" with "d" -> string_of_int (int_of_nat gen_default_block_size) | s -> s) in
          (* the nat-level model is unary: an initial block size above 10^7 is only supported for the
             new block size of `sw=` (word-level model, ScanWord.v) *)
          let b_big = big_number b_str in
          let b_n = n_of_string b_str in
          let ks = List.map int_of_string (split ',' (get "ks")) in
          (* setters called after k calls of next(): (k, thr2 bits, B2), `=` = setter not called *)
          let sw = (match List.assoc_opt "sw" fields with
              | None | Some "-" -> None
              | Some x -> (match String.split_on_char ':' x with
                  | [k; t; bb] -> Some (int_of_string k,
                                        (if t = "=" then thr_bits else int_of_string t),
                                        (if bb = "=" then b_str else bb))
                  | _ -> failwith ("bad sw " ^ x))) in
          (* the inputs on which a panic is a property failure: extracted predicate (ScanCheck2.pre_ok,
             C02_pre_ok_spec) *)
          let pre = pre_ok (nat_of_int 5) (nat_of_int m) (nat_of_int wrap) (n_pos b_n)
              (List.map (List.map z_of_int) pssm_bits) in
          let otoks = String.split_on_char ' ' obs in
          let sections = split_arms otoks in
          let common = (match sections with (None, c) :: _ -> List.map kv c | _ -> []) in
          (* overflow behaviour of `usize + usize` in the build profile of the harness *)
          (* ... unless scan.rs adds with saturating_add (read from the source on this run: GenScan.gen_row_add_saturating) *)
          let mo = gen_ovf (match List.assoc_opt "ovf" common with Some "w" -> false | _ -> true) in
          let sc_s = (try List.assoc "sc" common with Not_found -> "P") in
          let env = c_env (nat_of_int 5) (nat_of_int 32) pssm sq (nat_of_int wrap) in
          (* ---- per-position scores: implementation's own numbers, and the model's ---- *)
          let impl_scores : int list option = if sc_s = "P" then None else Some (List.map int_of_string (split ',' sc_s)) in
          (match env, impl_scores with
           | Ok v, Some sc ->
               let ms = v.ce_ptab in
               if List.length ms <> List.length sc then
                 set_v (Printf.sprintf "DIFF score-count impl=%d model=%d" (List.length sc) (List.length ms))
               else
                 List.iteri (fun i (r, ib) ->
                     match r with
                     | Ok x -> if not (bits_same (int_bits_of_f32 x) ib) then
                           set_v (Printf.sprintf "DIFF score_position pos=%d impl=%d model=%d" i ib (int_bits_of_f32 x))
                     | _ -> set_v (Printf.sprintf "DIFF score_position pos=%d model-panics" i))
                   (List.combine ms sc)
           | Ok _, None -> if pre then set_v "PROPFAIL score_position-panicked" else set_v "DIFF score_position-panicked"
           | _, _ -> ());
          let zscores = (match impl_scores with Some sc -> List.map z_of_int sc | None -> []) in
          let zthr = z_of_int thr_bits in
          (* unary block size of the nat-level model; block sizes above 10^7 (b_big) go through the word-level
             model instead (ScanWord.v; equal to the nat-level one for a block size set before the first call,
             C02_word_scanner_eq) *)
          let bn = if b_big then O else nat_of_int (int_of_string b_str) in
          let unpanic f = function Ok x -> Ok (f x) | Panic s -> Panic s | Err c -> Err c | OutOfFuel -> OutOfFuel in
          let m_collect v am =
            if b_big then unpanic snd (ce_wswitch_collect mo v am thr b_n O thr b_n) else ce_collect v am thr bn in
          let m_take v am k =
            if b_big then ce_wtake mo v am thr b_n k else ce_take v am thr bn k in
          let m_take_max v am k =
            if b_big then ce_wswitch_max mo v am thr b_n k thr b_n else ce_take_max v am thr bn k in
          (* diagnostic for a lost hit: was it the 8-bit pre-filter (C08) ? *)
          let prefilter_note p =
            (match env with
             | Ok v ->
                 (match ce_dscore v (nat_of_int p) with
                  | Ok d -> let t = int_of_nat (ce_scale v thr) in let d = int_of_nat d in
                      if d < t then Printf.sprintf " c08-prefilter-not-conservative(scale=%d,dscore=%d,factor=%d,wc=%b)" t d
                          (int_bits_of_f32 v.ce_dm.d_factor) (ce_wc (nat_of_int 5) v)
                      else ""
                  | _ -> "")
             | _ -> "") in
          (* the scanner parameterised by the skeleton read from scan.rs (ShapeConcrete.v) is replayed
             under one arm per case (chosen by the case id) *)
          let narms = List.length (List.filter (fun (a, _) -> a <> None) sections) in
          let pick = if narms = 0 then 0 else (Hashtbl.hash id) mod narms in
          let arm_no = ref (-1) in
          List.iter (fun (a, stoks) ->
              match a with
              | None -> ()
              | Some ac ->
                  incr arm_no;
                  let with_skel = (!arm_no = pick) in
                  let am = arm_of ac in
                  let f = List.map kv stoks in
                  let has k = List.mem_assoc k f in
                  let fget k = List.assoc k f in
                  let tag = Printf.sprintf "arm=%c" ac in
                  if has "new" then begin
                    (* Scanner::new panicked *)
                    (match env with
                     | Ok _ -> if pre then set_v ("PROPFAIL " ^ tag ^ " panic-in-new") else set_v ("DIFF " ^ tag ^ " panic-in-new")
                     | _ -> ())
                  end else begin
                    (match env with
                     | Ok _ -> ()
                     | _ -> set_v ("DIFF " ^ tag ^ " model-panics-in-new"));
                    if prop = "c02" then begin
                      let hits = parse_hits (fget "hits") in
                      let e = fget "end" in
                      (* --- property --- *)
                      if e = "X" && (impl_scores = None || check_c02 zscores zthr (List.map zhit hits)) then
                        (* the harness stops after rows*C+4 hits: the checker necessarily rejects such a list *)
                        set_v ("DIFF " ^ tag ^ " more-hits-than-cells-but-checker-passes")
                      else if e = "P" then (if pre then set_v (Printf.sprintf "PROPFAIL %s panic-after-%d-hits" tag (List.length hits)))
                      else if impl_scores <> None then begin
                        let zh = List.map zhit hits in
                        if not (check_c02 zscores zthr zh) then begin
                          let d =
                            (match first_missing zscores zthr zh with
                             | Some (p, s) -> Printf.sprintf "missing pos=%d bits=%d%s" (int_of_z p) (int_of_z s) (prefilter_note (int_of_z p))
                             | None ->
                                 (match first_spurious zscores zthr zh with
                                  | Some (p, s) -> Printf.sprintf "spurious pos=%d bits=%d" (int_of_z p) (int_of_z s)
                                  | None -> "duplicate-hit")) in
                          set_v (Printf.sprintf "PROPFAIL %s %s%s" tag d (if e = "X" then " more-hits-than-cells" else ""))
                        end
                      end;
                      (* take(k): k distinct qualifying positions with exact scores (or all of them) *)
                      let takes = List.map (fun t -> match String.split_on_char '/' t with
                          | [k; h; r] -> (int_of_string k, parse_hits h, r)
                          | _ -> failwith ("bad take " ^ t)) (split ';' (fget "take")) in
                      let nq = List.length (qual zscores zthr) in
                      List.iter (fun (k, h, r) ->
                          if r = "P" then (if pre then set_v (Printf.sprintf "PROPFAIL %s take(%d)-panicked" tag k))
                          else if impl_scores <> None then begin
                            let zh = List.map zhit h in
                            (* decided by the extracted checker (C02_check_take_sound / _complete); the rest
                               only words the detail *)
                            if not (check_take zscores zthr (nat_of_int k) zh) then begin
                              let sorted = List.sort_uniq compare (List.map fst h) in
                              if List.length h <> min k nq then
                                set_v (Printf.sprintf "PROPFAIL %s take(%d)-length=%d expected=%d" tag k (List.length h) (min k nq))
                              else if List.length sorted <> List.length h then
                                set_v (Printf.sprintf "PROPFAIL %s take(%d)-duplicate" tag k)
                              else (match first_spurious zscores zthr zh with
                                  | Some (p, _) -> set_v (Printf.sprintf "PROPFAIL %s take(%d)-spurious pos=%d" tag k (int_of_z p))
                                  | None -> set_v (Printf.sprintf "PROPFAIL %s take(%d)-rejected" tag k))
                            end
                          end) takes;
                      (* --- model --- *)
                      (match env with
                       | Ok v ->
                           let n = List.length hits in
                           (match m_collect v am with
                            | Ok mh ->
                                let mh = model_hits mh in
                                if e = "P" then set_v (Printf.sprintf "DIFF %s impl-panics model-yields-%d" tag (List.length mh))
                                else if mh <> hits then begin
                                  let rec first i a b = match a, b with
                                    | x :: a', y :: b' -> if x = y then first (i + 1) a' b' else Printf.sprintf "at=%d impl=%s model=%s" i (show_hit x) (show_hit y)
                                    | [], [] -> "same" | [], y :: _ -> Printf.sprintf "at=%d impl=end model=%s" i (show_hit y)
                                    | x :: _, [] -> Printf.sprintf "at=%d impl=%s model=end" i (show_hit x) in
                                  set_v (Printf.sprintf "DIFF %s hits %s" tag (first 0 hits mh))
                                end;
                                List.iter (fun (k, h, r) ->
                                    if r = "N" && h <> take k mh then set_v (Printf.sprintf "DIFF %s take(%d)" tag k)) takes;
                                if with_skel && not b_big then begin
                                  (match ce_pcollect v am thr bn with
                                   | Ok ph -> if e <> "P" && model_hits ph <> hits then set_v (Printf.sprintf "DIFF %s source-skeleton-model hits" tag)
                                   | _ -> set_v (Printf.sprintf "DIFF %s source-skeleton-model fails" tag));
                                  List.iter (fun (k, h, r) ->
                                      if r = "N" then
                                        (match ce_ptake v am thr bn (nat_of_int k) with
                                         | Ok ph -> if model_hits ph <> h then set_v (Printf.sprintf "DIFF %s source-skeleton-model take(%d)" tag k)
                                         | _ -> set_v (Printf.sprintf "DIFF %s source-skeleton-model take(%d) fails" tag k))) takes
                                end
                            | Panic site ->
                                if e <> "P" then set_v (Printf.sprintf "DIFF %s model-panics-site-%d impl-yields-%d" tag (int_of_nat site) n)
                                else (match m_take v am (nat_of_int n) with
                                    | Ok mh -> if model_hits mh <> hits then set_v (Printf.sprintf "DIFF %s hits-before-panic" tag)
                                    | _ -> set_v (Printf.sprintf "DIFF %s model-panics-earlier" tag))
                            | _ -> set_v (Printf.sprintf "DIFF %s model-out-of-fuel" tag))
                       | _ -> ());
                      (* --- setters changed between calls --- *)
                      (match sw with
                       | Some (k, t2bits, b2s) when has "sw" ->
                           let before, after, e2 = (match String.split_on_char '/' (fget "sw") with
                               | [x; y; z] -> (parse_hits x, parse_hits y, z)
                               | _ -> failwith "bad sw observation") in
                           let b2big = big_number b2s in
                           let b2n = n_of_string b2s in
                           let pre2 = pre && n_pos b2n in
                           let wmodel m = (match env with
                               | Ok v -> Some (ce_wswitch_collect m v am thr b_n (nat_of_int k) (f32_of_int_bits t2bits) b2n)
                               | _ -> None) in
                           (* the class of known finding F-scan-ovf: `self.row + self.block_size` reaches 2^64
                              (the word-level model with overflow checks panics at site 40) *)
                           let ovf_note = if b2big then (match wmodel Checked with
                               | Some (Panic site) when int_of_nat site = 40 -> " usize-overflow(row+block_size)"
                               | _ -> "") else "" in
                           let set_v x = set_v (if String.length x >= 8 && String.sub x 0 8 = "PROPFAIL" then x ^ ovf_note else x) in
                           if e2 = "P" then (if pre2 then set_v (Printf.sprintf "PROPFAIL %s sw-panicked-after-%d-hits" tag (List.length before + List.length after)))
                           else if e2 = "X" then set_v (Printf.sprintf "PROPFAIL %s sw-more-hits-than-cells" tag)
                           else if impl_scores <> None
                                   && not (check_sw zscores zthr (z_of_int t2bits) (List.map zhit before) (List.map zhit after)) then begin
                             (* weak property, decided by the extracted check_sw (C02_check_sw_sound): distinct positions
                                with exact scores; the hits of the first k calls meet thr, the later ones thr or thr2; every
                                position meeting both thresholds is yielded.  The rest only words the detail. *)
                             let sc = Array.of_list (match impl_scores with Some l -> l | None -> []) in
                             let before_v = !verdict in
                             let all = before @ after in
                             let ge a bb = bits_ge (z_of_int a) (z_of_int bb) in
                             let exact (p, x) = p >= 0 && p < Array.length sc && sc.(p) = x in
                             if List.length (List.sort_uniq compare (List.map fst all)) <> List.length all then
                               set_v (Printf.sprintf "PROPFAIL %s sw-duplicate-hit" tag)
                             else if not (List.for_all exact all) then set_v (Printf.sprintf "PROPFAIL %s sw-inexact-hit" tag)
                             else if not (List.for_all (fun (_, x) -> ge x thr_bits) before) then set_v (Printf.sprintf "PROPFAIL %s sw-hit-below-thr" tag)
                             else if not (List.for_all (fun (_, x) -> ge x thr_bits || ge x t2bits) after) then set_v (Printf.sprintf "PROPFAIL %s sw-hit-below-both" tag)
                             else
                               Array.iteri (fun p x ->
                                   if ge x thr_bits && ge x t2bits && not (List.mem_assoc p all) then
                                     set_v (Printf.sprintf "PROPFAIL %s sw-missing pos=%d%s" tag p (prefilter_note p))) sc;
                             if !verdict == before_v then set_v (Printf.sprintf "PROPFAIL %s sw-rejected" tag)
                           end;
                           (match env with
                            | Ok v ->
                                let cmp name res =
                                  (match res with
                                   | Ok (mb, ma) ->
                                       if e2 = "P" then set_v (Printf.sprintf "DIFF %s sw%s impl-panics" tag name)
                                       else if model_hits mb <> before then set_v (Printf.sprintf "DIFF %s sw%s hits-before" tag name)
                                       else if model_hits ma <> after && e2 <> "X" then set_v (Printf.sprintf "DIFF %s sw%s hits-after" tag name)
                                       else if e2 = "X" && not (is_prefix after (model_hits ma)) then set_v (Printf.sprintf "DIFF %s sw%s hits-after" tag name)
                                   | Panic site ->
                                       if e2 <> "P" then set_v (Printf.sprintf "DIFF %s sw%s model-panics" tag name)
                                       else if int_of_nat site = 40 then
                                         (* overflow panic.  A step under the new block size that does not overflow ends the
                                            loop for good (row + B' >= B' > R), so the panic can only come at the first loop
                                            entry after the setters: the hits yielded before it are the k hits and the hits
                                            that were buffered, i.e. what take(|before| + |after|) yields under the OLD block size *)
                                         (match ce_wtake mo v am thr b_n (nat_of_int (List.length before + List.length after)) with
                                          | Ok mh ->
                                              if model_hits mh <> before @ after then
                                                set_v (Printf.sprintf "DIFF %s sw%s hits-before-overflow-panic" tag name)
                                          | _ -> set_v (Printf.sprintf "DIFF %s sw%s take-model-fails-before-overflow-panic" tag name))
                                   | _ -> if n_pos b2n then set_v (Printf.sprintf "DIFF %s sw%s model-out-of-fuel" tag name)) in
                                if b2big || b_big then cmp "-word" (ce_wswitch_collect mo v am thr b_n (nat_of_int k) (f32_of_int_bits t2bits) b2n)
                                else begin
                                  cmp "" (ce_switch_collect v am thr bn (nat_of_int k) (f32_of_int_bits t2bits) (nat_of_int (int_of_string b2s)));
                                  if with_skel then
                                    cmp "-word" (ce_wswitch_collect mo v am thr b_n (nat_of_int k) (f32_of_int_bits t2bits) b2n)
                                end
                            | _ -> ())
                       | _ -> ())
                    end else begin
                      (* c03 *)
                      let items = List.map (fun t -> match String.split_on_char '/' t with
                          | [k; c; r] -> (int_of_string k, parse_consumed c, r)
                          | _ -> failwith ("bad max item " ^ t)) (split ';' (fget "max")) in
                      List.iter (fun (k, consumed_h, r) ->
                          let consumed = List.map fst consumed_h in
                          let result = (match r with
                              | "N" -> `None | "P" -> `Panic
                              | s -> (match String.split_on_char ':' s with
                                  | [p; bb] -> `Some (int_of_string p, int_of_string bb)
                                  | _ -> failwith ("bad max result " ^ s))) in
                          (* --- property --- *)
                          (match result with
                           | `Panic -> if pre then set_v (Printf.sprintf "PROPFAIL %s k=%d max-panicked" tag k)
                           | `None | `Some _ when impl_scores = None -> ()
                           | _ ->
                               let zr = (match result with `Some h -> Some (zhit h) | _ -> None) in
                               let zc = List.map z_of_int consumed in
                               if not (check_c03 zscores zthr zc zr) then begin
                                 let rem = remaining zscores zthr zc in
                                 let best = List.fold_left (fun acc (p, s) -> match acc with
                                     | None -> Some (p, s)
                                     | Some (_, bs) -> if bits_ge s bs then Some (p, s) else acc) None rem in
                                 let bs = (match best with
                                     | Some (p, s) -> Printf.sprintf "best-remaining=%d:%d%s" (int_of_z p) (int_of_z s)
                                                        (if r = "N" then prefilter_note (int_of_z p) else "")
                                     | None -> "nothing-remains") in
                                 set_v (Printf.sprintf "PROPFAIL %s k=%d max=%s %s" tag k r bs)
                               end);
                          (* --- model --- *)
                          (match env with
                           | Ok v ->
                               (match m_take_max v am (nat_of_int k) with
                                | Ok (mh, mx) ->
                                    if not (same_consumed (model_hits mh) consumed_h) && result <> `Panic then
                                      set_v (Printf.sprintf "DIFF %s k=%d consumed-prefix" tag k);
                                    (match mx, result with
                                     | Ok None, `None -> ()
                                     | Ok (Some (p, s)), `Some (ip, ib) ->
                                         if int_of_nat p <> ip || int_bits_of_f32 s <> ib then
                                           set_v (Printf.sprintf "DIFF %s k=%d max impl=%d:%d model=%d:%d" tag k ip ib (int_of_nat p) (int_bits_of_f32 s))
                                     | Panic _, `Panic -> ()
                                     | Ok None, _ -> set_v (Printf.sprintf "DIFF %s k=%d max impl=%s model=None" tag k r)
                                     | Ok (Some (p, s)), _ -> set_v (Printf.sprintf "DIFF %s k=%d max impl=%s model=%d:%d" tag k r (int_of_nat p) (int_bits_of_f32 s))
                                     | Panic site, _ -> set_v (Printf.sprintf "DIFF %s k=%d max impl=%s model-panics-site-%d" tag k r (int_of_nat site))
                                     | _, _ -> set_v (Printf.sprintf "DIFF %s k=%d model-out-of-fuel" tag k))
                                | Panic _ -> if result <> `Panic then set_v (Printf.sprintf "DIFF %s k=%d model-panics-in-prefix" tag k)
                                | _ -> set_v (Printf.sprintf "DIFF %s k=%d model-out-of-fuel" tag k));
                               if with_skel && not b_big && result <> `Panic then
                                 (match ce_ptake_max v am thr bn (nat_of_int k) with
                                  | Ok (ph, px) ->
                                      if not (same_consumed (model_hits ph) consumed_h) then
                                        set_v (Printf.sprintf "DIFF %s k=%d source-skeleton-model consumed-prefix" tag k);
                                      (match px, result with
                                       | Ok None, `None -> ()
                                       | Ok (Some (p, s)), `Some (ip, ib) ->
                                           if int_of_nat p <> ip || int_bits_of_f32 s <> ib then
                                             set_v (Printf.sprintf "DIFF %s k=%d source-skeleton-model max impl=%d:%d model=%d:%d" tag k ip ib (int_of_nat p) (int_bits_of_f32 s))
                                       | _, _ -> set_v (Printf.sprintf "DIFF %s k=%d source-skeleton-model max impl=%s" tag k r))
                                  | _ -> set_v (Printf.sprintf "DIFF %s k=%d source-skeleton-model fails" tag k))
                           | _ -> ())) items;
                      (* --- block-size independence: max() of a fresh scanner under B and under another block size --- *)
                      if has "maxb" then begin
                        (match String.split_on_char '/' (fget "maxb") with
                         | [alt; ra; rb] ->
                             let parse r = (match r with
                                 | "N" -> `None | "P" -> `Panic
                                 | x -> (match String.split_on_char ':' x with
                                     | [p; bb] -> `Some (int_of_string p, int_of_string bb)
                                     | _ -> failwith ("bad maxb result " ^ x))) in
                             let za = parse ra and zb = parse rb in
                             let zo = function `Some h -> Some (zhit h) | _ -> None in
                             if za = `Panic || zb = `Panic then
                               (if pre then set_v (Printf.sprintf "PROPFAIL %s maxb-panicked" tag))
                             else if not (same_answer (zo za) (zo zb)) then
                               set_v (Printf.sprintf "PROPFAIL %s max-depends-on-block-size B=%s:%s B=%s:%s wc=%b" tag b_str rb alt ra
                                        (match env with Ok v -> ce_wc (nat_of_int 5) v | _ -> false));
                             (* the model under the other block size, on the arm that also replays the skeleton *)
                             if with_skel then
                               (match env with
                                | Ok v ->
                                    (match ce_max_after v am thr (nat_of_int (int_of_string alt)) O, za with
                                     | Panic _, `Panic -> ()
                                     | Ok None, `None -> ()
                                     | Ok (Some (p, x)), `Some (ip, ib) ->
                                         if int_of_nat p <> ip || int_bits_of_f32 x <> ib then set_v (Printf.sprintf "DIFF %s maxb model=%d:%d impl=%s" tag (int_of_nat p) (int_bits_of_f32 x) ra)
                                     | _, _ -> set_v (Printf.sprintf "DIFF %s maxb model-differs impl=%s" tag ra))
                                | _ -> ())
                         | _ -> failwith "bad maxb observation")
                      end;
                      (* --- setters changed between the k calls of next() and max() --- *)
                      (match sw with
                       | Some (k, t2bits, b2s) when has "swmax" ->
                           let consumed_h, r = (match String.split_on_char '/' (fget "swmax") with
                               | [c; r] -> (parse_consumed c, r)
                               | _ -> failwith "bad swmax observation") in
                           let consumed = List.map fst consumed_h in
                           let b2big = big_number b2s in
                           let b2n = n_of_string b2s in
                           let pre2 = pre && n_pos b2n in
                           let wmodel m = (match env with
                               | Ok v -> Some (ce_wswitch_max m v am thr b_n (nat_of_int k) (f32_of_int_bits t2bits) b2n)
                               | _ -> None) in
                           let ovf_note = if b2big then (match wmodel Checked with
                               | Some (Ok (_, Panic site)) when int_of_nat site = 40 -> " usize-overflow(row+block_size)"
                               | _ -> "") else "" in
                           let set_v x = set_v (if String.length x >= 8 && String.sub x 0 8 = "PROPFAIL" then x ^ ovf_note else x) in
                           let result = (match r with
                               | "N" -> `None | "P" -> `Panic
                               | x -> (match String.split_on_char ':' x with
                                   | [p; bb] -> `Some (int_of_string p, int_of_string bb)
                                   | _ -> failwith ("bad swmax result " ^ x))) in
                           (match result with
                            | `Panic -> if pre2 then set_v (Printf.sprintf "PROPFAIL %s swmax-panicked" tag)
                            | _ when impl_scores = None -> ()
                            | _ when check_swmax zscores zthr (z_of_int t2bits) (List.map z_of_int consumed)
                                       (match result with `Some h -> Some (zhit h) | _ -> None) -> ()
                            | _ ->
                                (* weak property, decided by the extracted check_swmax (C03_check_swmax_sound): the answer is
                                   an unconsumed position with its exact score meeting thr2 and dominating every unconsumed
                                   position that meets both thresholds; None only if there is no such position.  The rest
                                   only words the detail. *)
                                let sc = Array.of_list (match impl_scores with Some l -> l | None -> []) in
                                let before_v = !verdict in
                                let ge a bb = bits_ge (z_of_int a) (z_of_int bb) in
                                let strong = ref [] in
                                Array.iteri (fun p x -> if ge x thr_bits && ge x t2bits && not (List.mem p consumed) then strong := (p, x) :: !strong) sc;
                                (match result with
                                 | `None -> (match !strong with
                                     | (p, _) :: _ -> set_v (Printf.sprintf "PROPFAIL %s swmax=N unconsumed-qualifying pos=%d%s" tag p (prefilter_note p))
                                     | [] -> ())
                                 | `Some (p, x) ->
                                     if not (p >= 0 && p < Array.length sc && sc.(p) = x) then set_v (Printf.sprintf "PROPFAIL %s swmax-inexact" tag)
                                     else if List.mem p consumed then set_v (Printf.sprintf "PROPFAIL %s swmax-consumed-position" tag)
                                     else if not (ge x t2bits) then set_v (Printf.sprintf "PROPFAIL %s swmax-below-thr2" tag)
                                     else List.iter (fun (q, y) -> if not (ge x y) then
                                                        set_v (Printf.sprintf "PROPFAIL %s swmax=%d:%d better-unconsumed=%d:%d" tag p x q y)) !strong
                                 | _ -> ());
                                if !verdict == before_v then set_v (Printf.sprintf "PROPFAIL %s swmax-rejected" tag));
                           (match env with
                            | Ok v ->
                                let cmp name res =
                                  (match res with
                                   | Ok (mh, mx) ->
                                       if not (same_consumed (model_hits mh) consumed_h) && result <> `Panic then
                                         set_v (Printf.sprintf "DIFF %s swmax%s consumed-prefix" tag name);
                                       (match mx, result with
                                        | Ok None, `None -> ()
                                        | Ok (Some (p, x)), `Some (ip, ib) ->
                                            if int_of_nat p <> ip || int_bits_of_f32 x <> ib then
                                              set_v (Printf.sprintf "DIFF %s swmax%s impl=%d:%d model=%d:%d" tag name ip ib (int_of_nat p) (int_bits_of_f32 x))
                                        | Panic _, `Panic -> ()
                                        | OutOfFuel, _ -> if n_pos b2n then set_v (Printf.sprintf "DIFF %s swmax%s model-out-of-fuel" tag name)
                                        | _, _ -> set_v (Printf.sprintf "DIFF %s swmax%s impl=%s model-differs" tag name r))
                                   | Panic _ -> if result <> `Panic then set_v (Printf.sprintf "DIFF %s swmax%s model-panics-in-prefix" tag name)
                                   | _ -> set_v (Printf.sprintf "DIFF %s swmax%s model-out-of-fuel" tag name)) in
                                if b2big || b_big then cmp "-word" (ce_wswitch_max mo v am thr b_n (nat_of_int k) (f32_of_int_bits t2bits) b2n)
                                else begin
                                  cmp "" (ce_switch_max v am thr bn (nat_of_int k) (f32_of_int_bits t2bits) (nat_of_int (int_of_string b2s)));
                                  if with_skel then
                                    cmp "-word" (ce_wswitch_max mo v am thr b_n (nat_of_int k) (f32_of_int_bits t2bits) b2n)
                                end
                            | _ -> ())
                       | _ -> ())
                    end
                  end) sections
        with
        | Not_found -> set_v "DIFF driver-missing-field"
        | Failure msg -> set_v ("DIFF driver-failure " ^ (String.map (fun c -> if c = ' ' then '_' else c) msg)));
        print_endline (id ^ " " ^ !verdict)
      end
    done
  with End_of_file -> ()
