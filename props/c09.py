"""C09 — count -> frequency -> weight -> log-odds conversions obey their definitions."""
import os
import sys

sys.path.insert(0, os.path.dirname(os.path.dirname(os.path.abspath(__file__))))
from translate import pwm_complement  # noqa: E402


def translate():
    return pwm_complement.generate()


def _fields(line):
    return dict(t.split("=", 1) for t in line.split(" ")[1:] if "=" in t)


def nontrivial(line):
    f = _fields(line)
    k = f.get("k")
    if k == "pipe":
        src = f.get("seqs", f.get("counts", ""))
        if not src:
            return None
        return (k, f.get("a"), src, f.get("ps"), f.get("bg"), f.get("bg2"), f.get("base"), f.get("seq"))
    if k == "raw":
        return (k, f.get("a"), f.get("sm"), f.get("seq")) if f.get("sm") else None
    if k in ("bgnew", "bgcnt", "bgseq", "fnew"):
        return (k, f.get("a"), f.get("v", f.get("c", f.get("m", f.get("seqs")))), f.get("unk"), f.get("multi"))
    return None


def histogram(line):
    f = _fields(line)
    keys = ["kind=" + f.get("k", "?"), "alphabet=" + f.get("a", "?")]
    if f.get("k") == "pipe":
        keys.append("src=" + ("seqs" if "seqs" in f else "counts"))
        keys.append("bg=" + f.get("bg", "?").split(":")[0])
        keys.append("bg2=" + f.get("bg2", "?").split(":")[0])
        keys.append("pseudo=" + ("scalar" if f.get("ps", "").startswith("s:") else "per-symbol"))
        b = f.get("base")
        keys.append("base=" + {"1073741824": "2", "1092616192": "10", "1076754516": "e", "1080033280": "3.5"}.get(b, "other"))
        if "xpos" in f:
            keys.append("out-of-range-positions")
    return keys


SPEC = dict(
    id="C09",
    group="pwm",
    props_file="C09.v",
    module="LMPwm.C09",
    harness_bin="pwm",
    harness_args=["c09"],
    driver_args=["c09"],
    ml_modules=["pwm_model"],
    translate=translate,
    n={"quick": 1000, "thorough": 30000},
    search_n={"quick": 3000, "thorough": 40000},
    nontrivial=nontrivial,
    histogram=histogram,
    rule="DNA (2/3) and protein (1/3) cases. kind=pipe (62%): CountMatrix::from_sequences (0..30 sequences of "
         "length 0..20, 1/8 with unequal lengths) or CountMatrix::new (arbitrary counts incl. > 2^24), to_freq with a "
         "scalar or per-symbol pseudocount (a few NaN/inf/negative/denormal), to_weight / to_scoring / into_scoring "
         "with background None / uniform() / Background::new (dyadic compositions with zero entries and wildcard "
         "mass, the documented decimal example, invalid arrays) / from_counts, WeightMatrix::to_scoring and "
         "to_scoring_with_base (2, 10, e, 3.5, random > 1), rescale to a second background, min_score / max_score "
         "and score_position at every position (plus out-of-range positions) of a generated sequence striped with "
         "4 or 32 columns; kind=raw: the same for arbitrary ScoringMatrix::new data (NaN => panic, +-inf, +-0); "
         "kind=bgnew/bgcnt/bgseq/fnew: Background::new / from_counts / from_sequence(s) / FrequencyMatrix::new on "
         "accepting and rejecting inputs (one-ulp perturbations, values around the 0.01 tolerance). All floats as u32 "
         "bit patterns. PROPFAIL: extracted checkers (counts = occurrences / Err on unequal lengths; frequency within "
         "1e-5 of (count+pseudo)/total and rows summing to 1; weight*background within 1e-6 of the frequency, 0 where the "
         "background is 0; score within 1e-5 of log_base(weight) from the libm oracle, -inf where the background is 0; "
         "one-step = two-step; rescaled weights; min_score <= window <= max_score for wildcard-free windows; invalid "
         "backgrounds / frequency matrices rejected). DIFF: bit-exact comparison with the extracted binary32 model (through "
         "the oracle table after the logarithm; the table is re-validated: log 0 = -inf, monotone, b^y = x within 1e-4). "
         "Non-trivial: distinct non-empty inputs per kind.",
    trusted_base=[
        "Coq 8.16.1 kernel (coqc); Flocq 4.1.0 (binary32 semantics); vm_compute only in Example lemmas",
        "extraction: ExtrOcamlBasic only (nat, N, Z, positive, Q kept as extracted inductives); OCaml 4.13.1",
        "translator translate/pwm_complement.py (alphabet sizes, symbol order, default symbol from abc.rs)",
        "hand-written OCaml driver ocaml/pwm/driver.ml (parsing, oracle table and its validation with OCaml's "
        "double-precision pow, tolerances, comparison)",
        "Rust harness harness/src/bin/pwm.rs (calls f32::log2/log10/ln on the observed weight cells to produce the "
        "oracle table, stripes sequences with the generic pipeline, catch_unwind)",
        "modelled, not verified: pwm/mod.rs and the Background/Pseudocounts parts of abc.rs (hand-written Gallina model "
        "tied by the bit-exact correspondence check); libm log2f/log10f/logf (oracle table); Iterator::sum::<f32>() "
        "starting from -0.0 (observed on rustc 1.95); the padding of a striped sequence being the wildcard (C04)",
    ],
    assumptions=[
        "logarithms are Section variables flog2/flog10/fln; one_step_eq_two_step needs flog2 0.0 = -inf (re-validated on "
        "every run from the oracle table) and 2.0 == 2.0",
        "value theorems (freq_cell, freq_rows_sum_to_one, weight_cell, rescale_spec, acceptance in exact arithmetic) are "
        "over exact rationals Qc; the distance between the binary32 result and the exact value is not proved, it is "
        "checked on the observations with the stated tolerances",
        "freq_cell / freq_rows_sum_to_one exclude rows whose total count+pseudocount is 0 (0/0 = NaN in the code)",
        "window_between_min_max is proved for ordered commutative monoids (Qc and Qc + -inf) and, for binary32, under "
        "the hypothesis that no NaN occurs (see the theorem list in notes/pwm.md)",
        "fewer than 2^32 sequences and counts whose sum fits in usize (no integer overflow in from_sequences / from_counts)",
        "rows of every matrix have exactly K cells, symbol indices are < K (guaranteed by the Rust types)",
    ],
)
