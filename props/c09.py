"""C09 — count -> frequency -> weight -> log-odds conversions obey their definitions."""
import os
import sys

sys.path.insert(0, os.path.dirname(os.path.dirname(os.path.abspath(__file__))))
from translate import pwm_complement, pwm_skel  # noqa: E402


def translate():
    # abc.rs -> GenComplement.v (alphabet constants, complement table); pwm/mod.rs -> GenPwmSkel.v (statement
    # skeletons of the functions modelled in PwmStat.v, compared with the pinned PwmSkel.v by C09_source_skeleton)
    a = pwm_complement.generate()
    b = pwm_skel.translate()
    return dict(ok=a.get("ok", True) and b.get("ok", True),
                errors=list(a.get("errors", [])) + list(b.get("errors", [])),
                notes=list(a.get("notes", [])) + list(b.get("notes", [])))


def _e2e_stat_obligations():
    # the statistics-side composition theorems of coq/e2e (E2EStat.v) count as obligations of the thorough
    # tier (round 3, requested by the e2e builder; lazy import, quick tier untouched; see props/e2e.py STAT_EXTRA)
    from props import e2e
    return e2e.obligations_stat()


def _fields(line):
    return dict(t.split("=", 1) for t in line.split(" ")[1:] if "=" in t)


def nontrivial(line):
    f = _fields(line)
    k = f.get("k")
    if k == "pipe":
        src = f.get("seqs", f.get("counts", ""))
        if not src:
            return None
        return (k, f.get("a"), src, f.get("ps"), f.get("bg"), f.get("bg2"), f.get("base"), f.get("seq"))
    if k == "raw":
        return (k, f.get("a"), f.get("sm"), f.get("seq")) if f.get("sm") else None
    if k == "stat":
        src = f.get("seqs", f.get("counts", ""))
        if not src:
            return None
        return (k, f.get("a"), src, f.get("counts2"), f.get("ps"), f.get("bg"), f.get("delays"), f.get("sm"))
    if k in ("bgnew", "bgcnt", "bgseq", "fnew"):
        return (k, f.get("a"), f.get("v", f.get("c", f.get("m", f.get("seqs")))), f.get("unk"), f.get("multi"),
                f.get("cols"), f.get("wrap"))
    return None


def histogram(line):
    f = _fields(line)
    keys = ["kind=" + f.get("k", "?"), "alphabet=" + f.get("a", "?")]
    if f.get("k") == "bgseq":
        keys.append("bgseq-mode=" + {"0": "slice", "1": "from_sequences", "2": "striped"}.get(f.get("multi"), "?"))
    if f.get("k") == "stat":
        rows = [r.split(",") for r in f.get("counts", "").split(";") if r]
        if any(all(c == "0" for c in r) for r in rows):
            keys.append("stat:zero-row")
        if any(sum(int(c) for c in r) >= 2 ** 32 for r in rows):
            keys.append("stat:u32-row-sum-overflow")
        if any(len(r) > 1 and sorted(map(int, r))[-1] == sorted(map(int, r))[-2] for r in rows):
            keys.append("stat:tied-maximum")
        if f.get("counts") is not None and f.get("counts") == f.get("counts2"):
            keys.append("stat:cross-with-itself")
        keys.append("stat:bg=" + f.get("bg", "?").split(":")[0])
    if f.get("k") == "pipe":
        keys.append("src=" + ("seqs" if "seqs" in f else "counts"))
        if "seqs" in f:
            ls = [0 if x == "-" else len(x) for x in f["seqs"].split("/")] if f["seqs"] else []
            if len(set(ls)) > 1:
                keys.append("ragged=" + ("empty-first" if ls[0] == 0 else
                                         "later-longer" if max(ls[1:]) > ls[0] else "later-shorter"))
        keys.append("bg=" + f.get("bg", "?").split(":")[0])
        keys.append("bg2=" + f.get("bg2", "?").split(":")[0])
        keys.append("pseudo=" + ("scalar" if f.get("ps", "").startswith("s:") else "per-symbol"))
        # rows outside the domain of the frequency clause (driver: `OK skipped=freq-row:...`, PwmCheck2.freq_row_skip_reason)
        try:
            pb = [int(x) for x in f.get("ps", "")[2:].split(",") if x]
            if any((b & 0x7F800000) == 0x7F800000 for b in pb):
                keys.append("freq-clause-not-judged:pseudocount-nan-or-inf")
            elif any((b & 0x80000000) and (b & 0x7FFFFFFF) for b in pb):
                keys.append("freq-clause-not-judged:pseudocount-negative")
        except ValueError:
            pass
        b = f.get("base")
        names = {"1073741824": "2", "1092616192": "10", "1076754516": "e", "1080033280": "3.5",
                 "1075838976": "2.5", "1093140480": "10.5", "1073741825": "2+ulp", "1073741823": "2-ulp",
                 "1092616193": "10+ulp", "1092616191": "10-ulp", "1077936128": "3", "1082130432": "4",
                 "1098907648": "16", "1056964608": "0.5", "1065353216": "1", "1036831949": "0.1"}
        try:
            import struct
            v = struct.unpack("<f", struct.pack("<I", int(b)))[0]
            cls = "other>1" if v > 1 and v < float("inf") else "other<=1-or-nonfinite"
        except Exception:
            cls = "other"
        keys.append("base=" + names.get(b, cls))
        if f.get("bg") == f.get("bg2"):
            keys.append("rescale-to-same-background")
        if "xpos" in f:
            keys.append("out-of-range-positions")
    return keys


SPEC = dict(
    id="C09",
    group="pwm",
    props_file="C09.v",
    module="LMPwm.C09",
    more_props=[("C09Stat.v", "LMPwm.C09Stat"), ("C09Log.v", "LMPwm.C09Log")],
    extra_obligations={"thorough": _e2e_stat_obligations},
    extra_obligations_name="coq/e2e/E2EStat.v: composition of C09 (conversion chain), C11 / C12 / C13, C10, C14 and the "
                           "scanning pipeline of E2E.v",
    extra_obligations_cmd="make -C coq/e2e (and imported groups) + Print Assumptions audit of LME2E.E2EStat",
    harness_bin="pwm",
    harness_args=["c09"],
    driver_args=["c09"],
    ml_modules=["pwm_model"],
    translate=translate,
    n={"quick": 1000, "thorough": 30000},
    search_n={"quick": 3000, "thorough": 40000},
    nontrivial=nontrivial,
    histogram=histogram,
    rule="DNA (2/3) and protein (1/3) cases. kind=pipe (62%): CountMatrix::from_sequences (0..30 sequences of "
         "length 0..20, 1/6 ragged in seven shapes: empty first, last longer/shorter by one, first longer, one later "
         "sequence longer, an empty later sequence, random) or CountMatrix::new (arbitrary counts incl. > 2^24 and 2^32-1), "
         "to_freq with a scalar or per-symbol pseudocount (wildcard entry non-zero; a few NaN/inf/negative/denormal), "
         "to_weight / to_scoring / into_scoring with background None / uniform() / Background::new (dyadic compositions with "
         "zero entries and wildcard mass, the documented decimal example, invalid arrays, a subnormal entry) / from_counts, "
         "WeightMatrix::to_scoring and to_scoring_with_base (2, 10, e, 3.5; 2.5, 10.5, 2.999, 10.999, 2+-ulp, 10+-ulp, 1.5, 9.5; "
         "3, 4, 16, 11, 20, 100; 0.5, 0.1, 1.0; random in (1.06, 61); NaN/inf/0/negative), rescale to a second background "
         "(1/12: the same one), min_score / max_score and score_position at every position (plus out-of-range positions) of a "
         "generated sequence striped with 4 or 32 columns; kind=raw: the same for arbitrary ScoringMatrix::new data (NaN => "
         "panic, +-inf, +-0); kind=bgnew/bgcnt/bgseq/fnew: Background::new / from_counts / from_sequence (slice, and a "
         "StripedSequence with padding cells and wrap rows) / from_sequences / FrequencyMatrix::new on accepting and "
         "rejecting inputs (one-ulp perturbations, values around the 0.01 tolerance, wildcard-only sequences with and "
         "without `unknown`). corpus/C09: 35 fixed lines (one per ragged shape, per special base, subnormal rescale, "
         "striped backgrounds). All floats as u32 bit patterns. PROPFAIL: extracted checkers (counts = occurrences / Err on "
         "unequal lengths; frequency cells finite, within 1e-5 of (count+pseudo)/exact total, rows summing to 1 within K*1e-5 "
         "(check_freq2, sound: C09_freq_checker_sound; whether a row is judged is a function of the INPUT only - rows whose "
         "pseudocounts are negative / NaN / infinite or whose exact total is 0 or above 2^100 are not judged: counted, "
         "C09_freq_row_skip_reasons; a non-finite observed cell on a judged row is a failure); weight*background within 1e-6 "
         "of the frequency, 0 where the background is 0; every observed score cell of s2 / s1 / sb within 2^-20 relative of "
         "the REAL logarithm ln w / ln base of the observed weight cell, decided by the extracted interval-arithmetic checker "
         "check_score_cell_real_pre (coq-interval, coq/pwm/PwmLog.v; sound: C09_score_cell_real_sound; no oracle in this "
         "verdict; -inf where the background is 0 for a finite base > 1; bases that are NaN, infinite, <= 0 or 1 have no "
         "logarithm function and are judged only against the oracle value by check_score_cell2, 1e-5 - a NaN score against "
         "a non-NaN expected value is a failure); one-step = two-step bit for bit (check_one_step_two_step); rescaled "
         "weight * new background within "
         "rescale_tol = 1e-5|f| + (|f|/old)*new*2^-149 + 2^-60 of the frequency (proved to dominate the binary32 error of the "
         "three operations incl. gradual underflow: C09_rescale_model_passes_check); background from counts/sequences = "
         "occurrences/total within 1e-6, Err iff total 0; min_score <= window <= max_score exactly for wildcard-free windows; "
         "invalid backgrounds / frequency matrices rejected). DIFF: bit-exact comparison with the extracted binary32 model "
         "(through the oracle table after the logarithm; every entry of the log2 / log10 / ln tables is validated by the "
         "extracted log_pair_ok (within 2^-20 relative of the real logarithm; log 0 = -inf, negative / NaN -> NaN, +inf -> "
         "+inf) and the tables are monotone (extracted check_log_mono on the list sorted by the driver; the checker "
         "re-checks the order); sound: C09_log_checkers_sound; a failure is DIFF oracle-not-logarithm / oracle-not-monotone; "
         "the 2^x table as before: OCaml double-precision pow, 1e-4, hand-written). kind=stat (15 %): CountMatrix::entropy / consensus, Correlation::{dot, norm, auto_correlation, "
         "cross_correlation} on count, frequency, weight, scoring (also arbitrary cells) and discrete matrices, "
         "WeightMatrix::information_content, ScoringMatrix::information_content, WeightMatrix::from(ScoringMatrix), on rows "
         "built for the edge cases (all-zero, single symbol, two equal counts, all equal, wildcard-dominant, counts 2^24+1 ... "
         "2^32-1 incl. u32 overflow of the row sum, periodic matrices), second matrix same / reversed / scaled / shorter / "
         "unrelated, delays 0 ... beyond the rows, row pairs in and out of range, valid backgrounds incl. tiny non-zero "
         "entries (1e-8 ... 2^-149); kind=bgcnt with totals up to and beyond 2^64 (usize overflow: panic in dev, wrap in "
         "release, both modelled); corpus/C09/stat.txt: 8 fixed lines. PROPFAIL (extracted checkers, sound: "
         "C09_check_consensus_row_sound, C09_stat_range_checkers_sound, C09_stat_row_checkers_sound, "
         "C09_stat_value_checkers_sound): consensus symbol not a row maximum; cross_correlation not symmetric; correlation of "
         "count / discrete / [0,1]-frequency matrices neither NaN nor in [-1,1] +- 1e-4; auto_correlation of a periodic "
         "count matrix without zero row not 1 +- 1e-4; entropy NaN or outside [0, log2 K] +- 1e-4 (rows whose u32 sum does "
         "not overflow), not 0 for one non-zero cell, not 1 for two equal counts; information content not sum "
         "frequency*score (1e-3 relative); 2^score not the weight (1e-4 relative); background changed by "
         "From<ScoringMatrix>. DIFF: every observation bit-exact against the extracted binary32 model (sqrt = Flocq Bsqrt; "
         "log2 and 2^x through the oracle tables ELi/ELo, WLi/WLo, L2, P2, re-validated). The statement skeletons of the "
         "functions modelled in PwmStat.v are regenerated from pwm/mod.rs on every run (translate/pwm_skel.py -> "
         "GenPwmSkel.v) and compared with the pinned PwmSkel.v by C09_source_skeleton. Comparisons that a checker cannot make "
         "are named by extracted *_skipped functions (PwmCheck2.v), counted per case and printed behind the verdict (`OK "
         "skipped=<what>:<n>`; the runner ignores the detail): frequency rows outside the judged domain, non-finite weight / "
         "rescale cells, zero old background in rescale, NaN oracle values, bases without logarithm, NaN min/max/window, "
         "windows whose min/max panicked, bgcnt totals beyond usize, the guards of the stat checks (2^score only for finite "
         "non-negative weights; correlation range only for frequency cells in [0,1]); the histogram also counts the inputs "
         "whose frequency clause is not judged. corpus/C09/wave3.txt: 8 lines (negative / NaN / f32::MAX pseudocounts, "
         "zero-total rows, bases 0.5, 0.1, 2+ulp, 10, e, protein). Theorems: coq/pwm/C09.v (40), coq/pwm/C09Stat.v (26, "
         "four of them inside a Section) and coq/pwm/C09Log.v (14: logarithm clause, checker soundness, frequency "
         "finiteness); 80 in total. Non-trivial: distinct non-empty inputs per kind.",
    trusted_base=[
        "Coq 8.16.1 kernel (coqc); Flocq 4.1.0 (binary32 semantics); vm_compute only in Example lemmas (incl. the kernel "
        "runs of the interval checker in C09_example_log_checker) and on closed powers of two / closed constants; no "
        "native_compute",
        "coq-interval 4.6.1 (Interval.Float.Specific_ops with StdZRadix2, Interval.Interval.Float_full: I.ln, I.div, "
        "I.subset on Z mantissas at 32 bits and their correctness theorems I.ln_correct, I.div_correct, I.subset_correct) - "
        "part of the proof base like Flocq; no primitive floats, no OCaml floats in the logarithm verdict",
        "extraction: ExtrOcamlBasic only (its Extract Inductive directives for bool, option, list, prod, unit, sumbool, "
        "sumor); no other Extract Inductive (nat, N, Z, positive, Q kept as extracted inductives); OCaml 4.13.1. The ONE "
        "Extract Constant of the whole development is in coq/pwm/Extract.v: ClassicalDedekindReals.sig_forall_dec is "
        "realised as a function that raises (\"real-number computation reached\") because the verified interval-arithmetic "
        "checker (Interval library, used by coq/pwm/PwmLog.v) mentions this Reals axiom in dead code (module extraction "
        "drags the R-side fields); the executable checkers never call it - a call would abort the driver (reported as "
        "DIFF), it can never decide a verdict",
        "translator translate/pwm_complement.py (alphabet sizes, symbol order, default symbol from abc.rs)",
        "translator translate/pwm_skel.py (token-level statement skeletons of matrix_traits! num_rows / dot, Correlation::{norm, "
        "auto_correlation, cross_correlation}, CountMatrix::{new, row_entropy, entropy, consensus}, both information_content, "
        "From<ScoringMatrix> for WeightMatrix and five literals of pwm/mod.rs -> coq/pwm/GenPwmSkel.v; fires on any token-level "
        "edit of these bodies, also a semantically equal one; the pinned copy PwmSkel.v is re-pinned only together with a review "
        "of PwmStat.v)",
        "hand-written OCaml driver ocaml/pwm/driver.ml: parsing; tolerances; the iteration over rows / cells / positions "
        "around the extracted per-cell checkers and the conjunction of their verdicts (e.g. check_score_cell2 and "
        "check_score_cell_real_pre); memo tables of the pure extracted functions ln_iv_f32, base_iv, log_pair_ok_k_pre, "
        "check_score_cell_real_pre keyed by bit patterns; the hash table that implements tab_lookup for the model replay "
        "(first entry per bit pattern, inconsistent duplicates = DIFF); sorting of the table before check_log_mono; the "
        "counting and printing of the skipped comparisons; the 2^x table (kind 3) is validated by hand-written "
        "double-precision code (DIFF path only)",
        "PROPFAIL decisions of ocaml/pwm/driver.ml that are NOT an extracted checker: panics of calls that must not panic "
        "(unexpected-panic ..., count-matrix-panic); shape mismatches of observed matrices (s2-shape, s1-shape, sb-shape, "
        "pow2-of-score-shape); the guards of the stat checks (2^score only for finite non-negative weights, correlation "
        "range only for frequency cells in [0,1]; counted); "
        "background unchanged by From<ScoringMatrix> (extracted row_same, the `if` is OCaml). Every other PROPFAIL is the "
        "verdict of one extracted checker applied by that iteration",
        "Rust harness harness/src/bin/pwm.rs (calls f32::log2/log10/ln on the observed weight cells to produce the "
        "oracle table - the table feeds only the bit-exact model replay and the check_score_cell2 comparison for bases "
        "without logarithm, not the real-logarithm verdict; stripes sequences with the generic pipeline, catch_unwind)",
        "modelled, not verified: pwm/mod.rs and the Background/Pseudocounts parts of abc.rs (hand-written Gallina model "
        "tied by the bit-exact correspondence check); libm log2f/log10f/logf (oracle table, every entry validated against "
        "the real logarithm by the extracted log_pair_ok; that libm stays within 2^-20 relative for ALL binary32 arguments "
        "is sampled, not proved: <= 1 ulp log2f/logf, <= 2 ulp log10f, three roundings for ln w / ln base); "
        "Iterator::sum::<f32>() "
        "starting from -0.0 (observed on rustc 1.95); the padding of a striped sequence being the wildcard (C04)",
        "Flocq's Bsqrt mode_NE as the semantics of f32::sqrt (sqrtss, correctly rounded)",
        "libm powf (2f32.powf) through an oracle table validated against OCaml's double-precision 2.0 ** x (1e-4), monotone, "
        "2^-inf = 0",
        "harness recomputes the inputs of the entropy / information-content logarithms (n as f32 / sum as f32 with the wrapped "
        "u32 sum, x / b) to print the oracle pairs",
        "cfg!(debug_assertions) of the harness build = overflow-checks of the library build (same cargo profile) selects the "
        "panicking or wrapping integer sums of the model",
    ],
    assumptions=[
        "the model's logarithms are parameters flog2/flog10/fln; C09_score_is_logarithm assumes they are logarithms "
        "(is_log_of: within 2^-20 relative of the real log2 / log10 / ln, IEEE conventions at 0, negative numbers, NaN, +inf) "
        "on the arguments that occur - this is re-validated on every run for every argument of the oracle table by the "
        "extracted, sound log_pair_ok, and C09_score_is_logarithm_table is the closed statement for the table-sampled "
        "functions (tab_lookup of tables accepted by check_log_table); one_step_eq_two_step needs flog2 0.0 = -inf, which is "
        "derived from the validated table (C09_neg_inf_at_zero_validated), and 2.0 == 2.0; that libm meets 2^-20 for ALL "
        "binary32 arguments is not proved (sampled)",
        "value theorems freq_cell, freq_rows_sum_to_one, rescale_spec, acceptance-in-exact-arithmetic are over exact "
        "rationals Qc; for weights and rescaled weights the distance between the binary32 result and the exact value IS "
        "proved (C09_weight_f32_error, C09_rescale_f32_error: standard model with gradual underflow, hypotheses: finite "
        "operands, background entries > 0, no overflow of x = f/old, q = old/new, w = x*q), and so is the distance of a "
        "frequency row's real sum from one (C09_freq_rows_sum_to_one_f32: <= 1/(1-u)^K - 1 + K*eta <= 2^-19, for "
        "nonnegative finite count+pseudocount cells with a finite positive total) and of every frequency cell from "
        "(count+pseudocount)/exact total (C09_freq_cell_f32: relative 1/(1-u)^(K+5) - 1 plus eta); the finiteness "
        "hypotheses on the OUTPUT row of these two theorems are discharged (C09_freq_finite_f32: every cell is finite, the "
        "binary32 total is finite for an exact total <= 2^100 and K <= 21), and C09_freq_row_model_passes_check2 (the model "
        "passes check_freq_row2 with eps = 1e-5 for every row of <= 21 u32 counts) has no hypothesis on the pseudocounts: "
        "rows outside the judged domain pass by definition, judged rows by the error bounds; for scores the distance from "
        "the real logarithm is CHECKED on every observed cell by a sound checker (2^-20 relative), and proved for the "
        "general-base quotient given validated natural logarithms (C09_score_general_base_error: 2^-18 relative + 2^-150, "
        "any finite base > 0 other than 1, standard model of the binary32 division)",
        "C09_*_model_passes_check additionally assume background entries <= 1 (guaranteed by Background::new / from_counts)",
        "C09_freq_cell_nonzero_total states the frequency clause (rows sum to one, every cell = (count+pseudo)/total) under "
        "the explicit hypothesis total <> 0; C09_freq_cell itself also holds at total 0 only because x/0 = 0 in Qc; at total "
        "0 (all counts 0, all pseudocounts +-0.0) the code gives NaN in every cell (C09_freq_zero_total_is_nan_f32)",
        "frequency rows whose pseudocounts are negative / NaN / infinite or whose exact total is 0 or above 2^100 are outside "
        "the frequency clause's judged domain (freq_row_skip_reason, a function of the input only): tied bit-exactly to the "
        "model only, counted in the verdict line and in the histogram",
        "score cells for bases that are NaN, infinite, <= 0 or 1 are judged only against the libm oracle value "
        "(check_score_cell2, 1e-5), not against a real logarithm (there is none)",
        "window_between_min_max is proved for ordered commutative monoids (Qc and Qc + -inf) and, for binary32 "
        "(C09_window_between_min_max_f32, Flocq), exactly, for the bounds whose two values are not NaN",
        "fewer than 2^32 sequences and counts whose sum fits in usize (no integer overflow in from_sequences / from_counts)",
        "rows of every matrix have exactly K cells, symbol indices are < K (guaranteed by the Rust types)",
        "the theorems of C09Stat.v about values (Cauchy-Schwarz, correlations in [-1,1], symmetric, = 1 on periodic matrices; "
        "entropy in [0, log2 #non-zero cells]; information content = relative entropy >= 0; 2^x inverts log2) are about the "
        "functions AS CODED interpreted over the real numbers (PwmReal.Rops: exact +,*,/; sqrt, ln x / ln 2, exp (x ln 2)) - the "
        "distance of the binary32 results from these real values is not proved (checked on observations with 1e-4 / 1e-3 slack; "
        "bit-exact tie to the binary32 model); correlation bounds assume no row with zero norm (the 0/0 = NaN cases are binary32 "
        "theorems for count matrices: C09_correlation_zero_over_zero_is_nan); entropy theorems assume 0 < row sum < 2^32 (else "
        "Panic 14 / wrapped sum); bit-for-bit symmetry of cross_correlation in binary32 is proved (C09_cross_correlation_symmetric_f32)",
        "documented, not violations of C09 (notes/pwm.md R3-1..R3-5): WeightMatrix::information_content computes sum x*log2(x/b) "
        "on the odds ratio (C09_weight_information_content_is_relative_entropy_refuted); u32 row sums of entropy/consensus; "
        "CountMatrix::new never rejects (C09_count_new_accepts_everything); consensus keeps the LAST maximum incl. the wildcard "
        "column; usize overflow of Background::from_counts - all modelled as coded",
    ],
)
