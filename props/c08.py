"""C08 — 8-bit discretised scores never under-estimate the real score."""


def _fields(line):
    return dict(t.split("=", 1) for t in line.split(" ")[1:] if "=" in t)


def nontrivial(line):
    # distinct (matrix, sequence) with a motif of at least 2 rows and at least one scored position
    f = _fields(line)
    mat = f.get("mat", "-")
    seq = f.get("seq", "-")
    if mat == "-" or seq == "-":
        return None
    m = mat.count("/") + 1
    if m < 2 or len(seq) < m:
        return None
    return (mat, seq)


def histogram(line):
    f = _fields(line)
    mat = f.get("mat", "-")
    seq = f.get("seq", "-")
    m = 0 if mat == "-" else mat.count("/") + 1
    l = 0 if seq == "-" else len(seq)
    keys = ["kind=" + f.get("kind", "?"), "well_conditioned=" + f.get("wc", "?"),
            "alphabet=" + ("protein" if f.get("alpha") == "P" else "dna"),
            ("M<=%d" % (8 * ((m + 7) // 8))) if m <= 64 else ("M<=%d" % (500 * ((m + 499) // 500))),
            "L<=%d" % (64 * ((l + 63) // 64)) if l <= 704 else "L>704"]
    if "N" in seq:
        keys.append("seq-has-wildcard")
    if l < m:
        keys.append("L<M")
    if mat != "-" and not mat.endswith("4286578688"):
        keys.append("wildcard-column-not-neg-inf")
    # checks the driver cannot make on this input (it prints them behind the verdict: `OK skipped=...`)
    if mat != "-":
        for row in mat.split("/"):
            cells = row.split(",")[:-1]          # the non-wildcard columns
            if any(((int(c) >> 23) & 0xFF) == 0xFF for c in cells):
                keys.append("property-check-skipped:matrix-outside-the-theorem(non-finite-non-wildcard-cell)")
                break
    if m == 0:
        keys.append("avx2-arms-skipped:panic-on-the-empty-motif")
    if "hist" in f:
        keys.append("histories=%d" % (f["hist"].count("|") + 1))
    return keys


def translate():
    # coq/disc/GenDiscU8.v: motif-loop statements, wrapper guards and dispatcher arms of the u8 kernels,
    # regenerated from avx2.rs / neon.rs / dispatch.rs / pli/mod.rs on every check
    # coq/disc/GenDiscSkel.v: statement skeleton of ScoringMatrix::to_discrete and DiscreteMatrix::{scale, unscale,
    # score_position} (pwm/mod.rs)
    from translate import disc_u8, disc_skel
    r1 = disc_u8.run()
    r2 = disc_skel.run()
    return dict(ok=bool(r1.get("ok", True) and r2.get("ok", True)),
                notes=list(r1.get("notes", [])) + list(r2.get("notes", [])),
                errors=list(r1.get("errors", [])) + list(r2.get("errors", [])))


SPEC = dict(
    id="C08",
    group="disc",
    props_file="C08.v",
    module="LMDisc.C08",
    harness_bin="disc",
    ml_modules=["disc_model"],
    n={"quick": 1000, "thorough": 40000},
    search_n={"quick": 4000, "thorough": 60000},
    nontrivial=nontrivial,
    histogram=histogram,
    translate=translate,
    rule="88% DNA cases, 12% Protein cases (K=21: counts->to_freq->to_scoring, arbitrary finite, ties, constant; X column -inf or "
         "finite; only Pipeline::generic()/sse2() exist for Protein u8 scoring), 3% (thorough 1%) wide DNA motifs of 100..700 "
         "(thorough ..2000) rows on a sequence a few symbols longer than the consensus word. "
         "DNA scoring matrices of width 0..40 (thorough: ..64) given as f32 bit patterns: CountMatrix->to_freq->"
         "to_scoring (25%), arbitrary finite cells (30%), half-integers with ties/constant rows/signed zeros (12%), "
         "constant matrices (5%), arbitrary finite bit patterns (8%), ill-conditioned (3%, the known IEEE gap), "
         "matrices around the boundary of the conditioning predicate (7%), non-finite non-wildcard cells (4%, "
         "outside the theorem, inside the model), one dominant + many flat rows (5%), empty (1%); wildcard column "
         "-inf (45%), finite below the row minimum (10%), finite inside the row's range (10%), the row minimum, 0, "
         "above the row maximum, random, +inf/NaN; sequences of length 0..260 (thorough ..700) built from the consensus "
         "word, the minimum word, near-consensus words, words with wildcards, runs of N and random stretches; 30-45 "
         "thresholds per case (+-inf, NaN, +-0, min/max score and both neighbours, min - {0.002,0.01,0.5,1,1.5}*range, "
         "max + 0.01*range, min-1, max+1, attainable scores, the real scores of up to 5 windows of the sequence "
         "(windows with N first) and their neighbours, random in and around the range, one arbitrary finite). "
         "Observed and compared bit-exactly with the extracted binary32/u8 model (DIFF): factor, offset, offsets "
         "(read from the Debug output), min/max_score, all discrete cells, scale(t), unscale(b), "
         "ScoringMatrix::score_position and scale of it and DiscreteMatrix::score_position at every position, the "
         "full u8 score matrices of Pipeline::generic(), Pipeline::avx2(), Pipeline::dispatch() under each forced "
         "arm (sequence striped under that arm) and score_rows_into over a random row range. Property checker "
         "(extracted first_bad / check_C08, proved equivalent to the property) on the implementation's own "
         "numbers: for every position and every source of a byte score, byte score >= scale(real score); all arms "
         "equal cell-wise; also Pipeline::sse2() (u8) at 32 columns and the generic/SSE2 pipelines on a 16-column layout. The "
         "model side of the u8 kernels is GENERATED from the source on every check (translate/disc_u8.py -> GenDiscU8.v: motif-loop "
         "statements of score_u8_avx2_shuffle / score_u8_neon as register operations, wrapper guards in source order, u8 arms "
         "of the dispatcher, Score<u8> impls of the static pipelines); the NEON kernel (not compiled on x86) is tied by the "
         "translator + C08_neon_eq_generic and evaluated against the generic model on every DNA case. For DNA motifs wider "
         "than 64 rows the driver computes the generic expectation with the lane kernel proved equal to it. "
         "In addition the extracted first_bad_impl / check_C08_impl (C08_check_impl_sound) judges the "
         "implementation's OWN images, not the model's: dm.scale(real score of position i) <= byte score, and for "
         "every threshold t_j with t_j <= real score (IEEE <= on the observed bit patterns) dm.scale(t_j) <= byte "
         "score (PROPFAIL threshold-transfer-lost), so that a wrong scale() is a failing input and not only a DIFF. "
         "A failure of the main clause is tagged ill-conditioned iff the extracted predicate well_conditioned "
         "(factor = 0 or factor >= 8*(M+1)*ulp(sum of per-row max |cell|)) is false. Non-trivial: distinct (matrix, sequence) "
         "with M >= 2 and at least one scored position.",
    trusted_base=[
        "Coq 8.16.1 kernel (coqc); vm_compute in wit_outcome / wit_finite / negz_outcome / negz_finite (binary32 witnesses) and in the Example lemmas; no native_compute; the binary32 theorems use Flocq's real-number semantics (classical axioms of the Reals library, allow-listed)",
        "Flocq 4.1.0 (BinarySingleNaN) as the definition of binary32 arithmetic, coq/base/IEEE.v wrappers "
        "(saturating casts, NaN canonicalisation)",
        "extraction: ExtrOcamlBasic only (nat, Z, positive, list kept as extracted inductives); OCaml 4.13.1",
        "translate/disc_u8.py (regex / brace-matching extraction from avx2.rs, neon.rs, dispatch.rs, pli/mod.rs; unknown "
        "statement shapes are an error) and the semantics given to the intrinsics in coq/disc/DiscU8Kernel.v "
        "(_mm256_shuffle_epi8, _mm256_adds_epu8 / _mm256_add_epi8, vqtbl1q_u8, vqaddq_u8 / vaddq_u8, 16-byte table loads); "
        "NEON code is never executed by the check",
        "hand-written OCaml driver ocaml/disc/driver.ml (parsing, printing, comparison, selection of the byte "
        "score of position i as cell (i mod rows, i / rows))",
        "Rust harness harness/src/bin/disc.rs (generator, catch_unwind around every library call, factor/offset/"
        "offsets recovered from the derived Debug output of DiscreteMatrix, whose float formatting round-trips)",
        "modelled, not verified: pwm/mod.rs (to_discrete, scale, unscale, score_position), pli/mod.rs (generic "
        "score_rows_into, Accumulate), avx2.rs (score_u8_avx2_shuffle and its wrapper; intrinsics loadu/"
        "broadcastsi128/shuffle_epi8/adds_epu8 lane-wise), dispatch.rs arm table, striped layout in closed "
        "form (C04), StripedScores indexing",
    ],
    assumptions=[
        "the full statement is proved in EXACT arithmetic (extended rationals). For binary32 (what the code "
        "computes) it is false on ill-conditioned matrices (C08_ieee_refuted, known finding F14) and, for the "
        "consequence clause, with the factor -0.0 (C08_threshold_transfer_f32_refuted_negzero, F14b). Proved for "
        "binary32 (Flocq): scale monotone and threshold transfer whenever the factor's sign bit is clear; the main "
        "clause for every window under the conditioning predicate well_conditioned PLUS three side conditions "
        "(sign bit of the factor clear, at most 16384 rows, cond_A <= 2^126) -- "
        "C08_f32_main_well_conditioned_partial; without the side conditions the binary32 main clause is only "
        "checked on every run by the correspondence harness",
        "Iterator::sum::<f32>() starts from -0.0 (observed on rustc 1.95; bit-compared on every run)",
        "symbols of a sequence index inside the matrix rows (K = 5 for DNA); the wildcard is the last column",
    ],
)
