"""C08 — 8-bit discretised scores never under-estimate the real score."""


def _fields(line):
    return dict(t.split("=", 1) for t in line.split(" ")[1:] if "=" in t)


def nontrivial(line):
    # distinct (matrix, sequence) with a motif of at least 2 rows and at least one scored position
    f = _fields(line)
    mat = f.get("mat", "-")
    seq = f.get("seq", "-")
    if mat == "-" or seq == "-":
        return None
    m = mat.count("/") + 1
    if m < 2 or len(seq) < m:
        return None
    return (mat, seq)


def histogram(line):
    f = _fields(line)
    mat = f.get("mat", "-")
    seq = f.get("seq", "-")
    m = 0 if mat == "-" else mat.count("/") + 1
    l = 0 if seq == "-" else len(seq)
    keys = ["kind=" + f.get("kind", "?"), "well_conditioned=" + f.get("wc", "?"),
            "alphabet=" + ("protein" if f.get("alpha") == "P" else "dna"),
            ("M<=%d" % (8 * ((m + 7) // 8))) if m <= 64 else ("M<=%d" % (500 * ((m + 499) // 500))),
            "L<=%d" % (64 * ((l + 63) // 64)) if l <= 704 else "L>704"]
    if "N" in seq:
        keys.append("seq-has-wildcard")
    if l < m:
        keys.append("L<M")
    if mat != "-" and not mat.endswith("4286578688"):
        keys.append("wildcard-column-not-neg-inf")
    # checks the driver cannot make on this input (it prints them behind the verdict: `OK skipped=...`)
    if mat != "-":
        for row in mat.split("/"):
            cells = row.split(",")[:-1]          # the non-wildcard columns
            if any(((int(c) >> 23) & 0xFF) == 0xFF for c in cells):
                keys.append("property-check-skipped:matrix-outside-the-theorem(non-finite-non-wildcard-cell)")
                break
    if m == 0:
        keys.append("avx2-arms-skipped:panic-on-the-empty-motif")
    if "hist" in f:
        keys.append("histories=%d" % (f["hist"].count("|") + 1))
    return keys


def translate():
    # coq/disc/GenDiscU8.v: motif-loop statements, wrapper guards and dispatcher arms of the u8 kernels,
    # regenerated from avx2.rs / neon.rs / dispatch.rs / pli/mod.rs on every check
    # coq/disc/GenDiscSkel.v: statement skeleton of ScoringMatrix::to_discrete and DiscreteMatrix::{scale, unscale,
    # score_position} (pwm/mod.rs)
    from translate import disc_u8, disc_skel
    r1 = disc_u8.run()
    r2 = disc_skel.run()
    return dict(ok=bool(r1.get("ok", True) and r2.get("ok", True)),
                notes=list(r1.get("notes", [])) + list(r2.get("notes", [])),
                errors=list(r1.get("errors", [])) + list(r2.get("errors", [])))


SPEC = dict(
    id="C08",
    group="disc",
    props_file="C08.v",
    module="LMDisc.C08",
    harness_bin="disc",
    ml_modules=["disc_model"],
    n={"quick": 1000, "thorough": 40000},
    search_n={"quick": 4000, "thorough": 60000},
    nontrivial=nontrivial,
    histogram=histogram,
    translate=translate,
    rule="88% DNA cases, 12% Protein cases (K=21: counts->to_freq->to_scoring, arbitrary finite, ties, constant; X column -inf or "
         "finite; only Pipeline::generic()/sse2() exist for Protein u8 scoring), 3% (thorough 0.5%) wide DNA motifs of 100..700 "
         "(thorough ..1400) rows on a sequence a few symbols longer than the consensus word. "
         "DNA scoring matrices of width 0..40 (thorough: ..64) given as f32 bit patterns: CountMatrix->to_freq->"
         "to_scoring (25%), arbitrary finite cells (30%), half-integers with ties/constant rows/signed zeros (12%), "
         "constant matrices (5%), arbitrary finite bit patterns (8%), ill-conditioned (3%, the known IEEE gap), "
         "matrices around the boundary of the conditioning predicate (7%), non-finite non-wildcard cells (4%, "
         "outside the theorem, inside the model), one dominant + many flat rows (5%), empty (1%); wildcard column "
         "-inf (45%), finite below the row minimum (10%), finite inside the row's range (10%), the row minimum, 0, "
         "above the row maximum, random, +inf/NaN; generator families added in round 3 (3 + 2 + 3 % of the DNA stream): tiny "
         "(range <= 255*EPSILON down to subnormal factors, or cells a few ulps apart), hugecell (one cell 65536, 1e9, +-1e30, +-1e38 or 3e38), cpg (the whole "
         "range in one pair of adjacent rows: pair sums >= 256); sequences of length 0..260 (thorough ..700) built from the consensus "
         "word, the minimum word, near-consensus words, words with wildcards, runs of N and random stretches; 30-45 "
         "thresholds per case (+-inf, NaN, +-0, min/max score and both neighbours, min - {0.002,0.01,0.5,1,1.5}*range, "
         "max + 0.01*range, min-1, max+1, f32::MAX/MIN, +-MIN_POSITIVE, +-smallest subnormal, +-1e30, attainable scores, the real scores of up to 5 windows of the sequence "
         "(windows with N first) and their neighbours, random in and around the range, one arbitrary finite). "
         "Observed and compared bit-exactly with the extracted binary32/u8 model (DIFF): factor, offset, offsets "
         "(read from the Debug output), min/max_score, all discrete cells, scale(t), unscale(b), "
         "ScoringMatrix::score_position and scale of it and DiscreteMatrix::score_position at every position, the "
         "full u8 score matrices of Pipeline::generic(), Pipeline::avx2(), Pipeline::dispatch() under each forced "
         "arm (sequence striped under that arm) and score_rows_into over a random row range. Property checker "
         "(extracted first_bad / check_C08, proved equivalent to the property) on the implementation's own "
         "numbers: for every position and every source of a byte score, byte score >= scale(real score); all arms "
         "equal cell-wise; also Pipeline::sse2() (u8) at 32 columns and the generic/SSE2 pipelines on a 16-column layout. The "
         "model side of the u8 kernels is GENERATED from the source on every check (translate/disc_u8.py -> GenDiscU8.v: motif-loop "
         "statements of score_u8_avx2_shuffle / score_u8_neon as register operations, wrapper guards in source order, u8 arms "
         "of the dispatcher, Score<u8> impls of the static pipelines); the NEON kernel (not compiled on x86) is tied by the "
         "translator + C08_neon_eq_generic and evaluated against the generic model on every DNA case. For DNA motifs wider "
         "than 64 rows the driver computes the generic expectation with the lane kernel proved equal to it. "
         "In addition the extracted first_bad_impl / check_C08_impl (C08_check_impl_sound) judges the "
         "implementation's OWN images, not the model's: dm.scale(real score of position i) <= byte score, and for "
         "every threshold t_j with t_j <= real score (IEEE <= on the observed bit patterns) dm.scale(t_j) <= byte "
         "score (PROPFAIL threshold-transfer-lost), so that a wrong scale() is a failing input and not only a DIFF. "
         "30% of the DNA cases (thorough tier 12%) carry 2-3 histories on ONE reused StripedScores<u8,U32> (score_into / "
         "score_rows_into with 4 motif variants, 5 sequence variants, random row ranges, Pipeline::generic()/sse2()/avx2() and the "
         "forced dispatcher arms mixed on the same buffer, resize and matrix_mut().fill by the caller; every history ends with "
         "score_into of the case's motif on the case's sequence); a third of them also carry histories on ONE StripedScores<u8,U16> "
         "and 25% of the Protein cases carry histories (generic / SSE2 pipelines only): every step is compared (rows, max_index, "
         "checksum; final buffer in full) with the extracted history model DiscHistory.hstep, and the final buffer of a complete "
         "history is one more source of byte scores for the property checkers (under-estimate via=hf<k>). "
         "to_discrete / scale / unscale / DiscreteMatrix::score_position on the model side are built from the statement skeleton "
         "GENERATED from pwm/mod.rs on every check (translate/disc_skel.py -> GenDiscSkel.v; C08_skeleton_as_modelled). "
         "The byte score of position i is read from the observed cells with the extracted sc_index. Checks that cannot be made on a "
         "case are printed behind the verdict (OK skipped=..) and counted in the input histogram; a missing or unparsable "
         "observation is a DIFF (property-not-checked:..), never a silent OK. "
         "A failure of the main clause is tagged ill-conditioned iff the extracted predicate well_conditioned "
         "(factor = 0 or factor >= 8*(M+1)*ulp(sum of per-row max |cell|)) is false. Non-trivial: distinct (matrix, sequence) "
         "with M >= 2 and at least one scored position.",
    trusted_base=[
        "Coq 8.16.1 kernel (coqc); vm_compute in wit_outcome / wit_finite, skel_outcomes, history_example, neon_old_outcome, negz_outcome (binary32 / u8 witnesses), in closed case eliminations of DiscF32Mono.v / DiscF32Main.v and in the Example lemmas of C08.v; no native_compute; the binary32 theorems use Flocq's real-number semantics (classical axioms of the Reals library, allow-listed)",
        "Flocq 4.1.0 (BinarySingleNaN) as the definition of binary32 arithmetic, coq/base/IEEE.v wrappers "
        "(saturating casts, NaN canonicalisation)",
        "extraction: ExtrOcamlBasic only (its Extract Inductive directives for bool, option, list, prod, unit, sumbool, sumor); no other "
        "Extract Inductive, no Extract Constant (nat, Z, positive stay extracted inductives); OCaml 4.13.1",
        "translate/disc_u8.py (regex / brace-matching extraction from avx2.rs, neon.rs, dispatch.rs, pli/mod.rs; unknown "
        "statement shapes are an error) and the semantics given to the intrinsics in coq/disc/DiscU8Kernel.v "
        "(_mm256_shuffle_epi8, _mm256_adds_epu8 / _mm256_add_epi8, vqtbl1q_u8, vqaddq_u8 / vaddq_u8, 16-byte table loads); "
        "NEON code is never executed by the check",
        "translate/disc_skel.py (tokeniser + statement matcher + float-expression parser for the bodies of ScoringMatrix::to_discrete and "
        "DiscreteMatrix::{score_position, scale, unscale} in pwm/mod.rs; unknown statement shapes are an error) and the meaning given to "
        "the skeleton in coq/disc/DiscSkel.v",
        "hand-written OCaml driver ocaml/disc/driver.ml (parsing, printing, comparison, choice of the sources of byte scores handed to "
        "the extracted checkers, the list of printed skips; the byte score of position i is read with the extracted sc_index)",
        "hand-written PROPFAIL paths that remain in ocaml/disc/driver.ml: the `backend-mismatch` family only (string comparison of two "
        "OBSERVED score matrices: avx / dG / dS / dA / sse against gen, s16 against g16, sA against sG; an arm that panicked where the "
        "generic pipeline did not on a non-empty motif; the translated NEON kernel model against the generic model at 32 and 16 "
        "columns). Every under-estimate / threshold-transfer-lost verdict comes from the extracted first_bad / first_bad_impl; the tag "
        "ill-conditioned from the extracted well_conditioned; the tag negative-zero-factor is a hand-written bit test that only labels "
        "a failure the extracted checker found",
        "Rust harness harness/src/bin/disc.rs (generator, catch_unwind around every library call, factor/offset/"
        "offsets recovered from the derived Debug output of DiscreteMatrix, whose float formatting round-trips)",
        "modelled, not verified: pwm/mod.rs max_score / min_score (hand model; to_discrete, scale, unscale, score_position are "
        "translated), pli/mod.rs (generic score_rows_into writing into the caller's buffer, Accumulate), StripedScores::resize and "
        "matrix_mut().fill (coq/disc/DiscHistory.v buf_resize; replayed in the histories), avx2.rs (score_u8_avx2_shuffle and its wrapper; intrinsics loadu/"
        "broadcastsi128/shuffle_epi8/adds_epu8 lane-wise), dispatch.rs arm table, striped layout in closed "
        "form (C04), StripedScores indexing",
    ],
    assumptions=[
        "the full statement is proved in EXACT arithmetic (extended rationals), for every alphabet size and column count on the "
        "generic kernel (C08_generic_backend_overestimates), for K <= 16 and 32 columns on the AVX2 kernel and the x86 dispatcher "
        "(C08_backends_overestimate), for K <= 16 and 16 q columns on the NEON kernel and the Arm-host dispatcher "
        "(C08_arm_hosts_overestimate). For binary32 (what the code computes) it is false on ill-conditioned matrices "
        "(C08_ieee_refuted, known finding F14). Proved for binary32 (Flocq): scale monotone and threshold transfer for every factor "
        "to_discrete can produce (its sign bit is clear: C08_factor_sign_clear; the -0.0 factor of F14b was repaired in /repo "
        "fd98893); the main clause for every window under the conditioning predicate well_conditioned PLUS TWO side conditions (at "
        "most 16384 rows, cond_A <= 2^126) -- C08_f32_main_well_conditioned_partial, C08_generic_backend_overestimates_f32_partial, "
        "C08_backends_overestimate_f32_partial, C08_history_overestimates_f32_partial; without them the binary32 main clause is only "
        "checked on every run by the correspondence harness",
        "histories: the state of a StripedScores buffer after a call that PANICKED is not modelled (a history ends at its first "
        "panic); C08_scores_history covers the generic, AVX2 and NEON kernels' stores on a reused buffer (NEON with 16 q columns)",
        "unscale: proved in exact arithmetic for factor > 0 only (C08_unscale_scale, C08_unscale_bounds_real: real score < "
        "unscale(byte score) + factor for every window whose real score is below offset + 256 factor); in binary32 unscale is bit-compared, no theorem. The `unscale(u8) >= expected` of "
        "lightmotif/tests/dna.rs is not implied by the code and is not claimed",
        "Iterator::sum::<f32>() starts from -0.0 (observed on rustc 1.95; bit-compared on every run)",
        "symbols of a sequence index inside the matrix rows (K = 5 for DNA, 21 for Protein); the wildcard is the last column",
    ],
)
