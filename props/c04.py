"""C04 — striping is a lossless, backend-independent rearrangement of the sequence."""
import re


def _translate():
    from translate import stripe_net
    return stripe_net.translate()


def _ops(line):
    m = line.split(" => ", 1)[0]
    f = dict(t.split("=", 1) for t in m.split(" ")[1:] if "=" in t)
    return f, [o for o in f.get("ops", "").split(";") if o]


def nontrivial(line):
    # distinct (alphabet, C, history) with a stripe of a non-empty sequence whose
    # length is not a multiple of C, followed by at least one more operation
    f, ops = _ops(line)
    try:
        c = int(f.get("C", "1"))
    except ValueError:
        return None
    for i, o in enumerate(ops):
        p = o.split(":")
        if p[0] in ("si", "st") and len(p) == 3:
            l = 0 if p[2] == "-" else len(p[2])
            if l > 0 and l % c != 0 and i + 1 < len(ops):
                return (f.get("A"), c, f.get("ops"))
    return None


def histogram(line):
    f, ops = _ops(line)
    keys = ["A=" + f.get("A", "?"), "C=" + f.get("C", "?"), "ops=%d" % len(ops)]
    for o in ops:
        p = o.split(":")
        if p[0] in ("si", "st"):
            l = 0 if p[2] == "-" else len(p[2])
            keys.append("op:%s:%s" % (p[0], p[1]))
            if l == 0:
                b = "L=0"
            elif l <= 40:
                b = "L=1..40"
            elif l < 992:
                b = "L=41..991"
            elif l <= 1100:
                b = "L=992..1100"
            else:
                b = "L>1100"
            keys.append(b)
        else:
            keys.append("op:" + p[0])
    return keys


def signature(detail, obs):
    # drop the op number so that a known finding matches wherever it occurs
    return re.sub(r"\bop\d+\b", "op", detail)


SPEC = dict(
    id="C04",
    group="stripe",
    props_file="C04.v",
    module="LMStripe.C04",
    harness_bin="stripe",
    ml_modules=["stripe_model"],
    n={"quick": 600, "thorough": 9000},
    search_n={"quick": 2500, "thorough": 12000},
    nontrivial=nontrivial,
    histogram=histogram,
    signature=signature,
    translate=_translate,
    rule="operation histories (1..12 ops: stripe_into / stripe (fresh; to_striped for the dispatcher) / "
         "configure(motif of width M) / configure_wrap(k)) on ONE StripedSequence buffer, DNA and protein, "
         "C in 1,2,4,16,32 (generic pipeline) and C=32 through Pipeline::avx2() and Pipeline::dispatch() with the "
         "arm forced to Generic/Sse2/Avx2; lengths 0..40, around multiples of 32, 992..1100 (around 32*32 where the "
         "AVX2 block loop starts), around multiples of 1024, up to ~3300 (quick) / ~5200 (thorough); wrap widths "
         "small, around the row count (look-ahead rows built from look-ahead rows) and large; the thorough tier "
         "starts with a sweep of every length 0..1100 through the AVX2 kernel and the dispatcher's AVX2 arm into a "
         "stale buffer. After every op: len, wrap, rows, every matrix cell, Index at sampled positions (ends of the "
         "sequences / of the matrices, incl. out-of-range = panic), count_symbols and count_symbol of every symbol are "
         "(a) checked against the property by the extracted, proved-sound checker check_striped with respect to the "
         "sequence striped last (+ check_wrap_rows, Index/counts against the linear sequence, generic-vs-AVX2 "
         "matrices compared directly by the harness) and (b) compared with the extracted Coq model. Non-trivial: "
         "distinct (alphabet, C, history) containing a stripe of a non-empty sequence whose length is not a multiple "
         "of C followed by at least one more operation.",
    trusted_base=[
        "Coq 8.16.1 kernel (coqc); vm_compute in the reflection lemmas about the translated network "
        "(NetProofs) and in Example lemmas; no native_compute",
        "extraction: ExtrOcamlBasic only (nat, list kept as extracted inductives); OCaml 4.13.1",
        "translator translate/stripe_net.py (regex over avx2.rs::stripe_avx2: unpack! macro arms, 32 loads, "
        "unpack! invocations, 32 stores; dispatch.rs Stripe arm table) -> coq/stripe/GenStripeNet.v",
        "lane semantics of _mm256_unpack{lo,hi}_epi{8,16,32,64} and _mm256_permute2x128_si256 as index lists "
        "(coq/stripe/NetModel.v), exercised by the correspondence check on every run",
        "hand-written OCaml driver ocaml/stripe/driver.ml (parsing, printing, comparison)",
        "Rust harness harness/src/bin/stripe.rs (op interpreter over the public API, catch_unwind, hook "
        "lightmotif::pli::verif::force_backend)",
        "modelled by hand, tied by the correspondence check only: Stripe::stripe/stripe_into (pli/mod.rs), "
        "stripe_avx2 outside the network (resize, early return, block loop condition, scalar tail, fill), "
        "StripedSequence::{new, configure, configure_wrap, Index, count_symbol(s)} (seq.rs), DenseMatrix at table "
        "level (dense.rs; layout is C19)",
    ],
    assumptions=[
        "symbols are their indices (< K), A::Symbol::default() is the last symbol (N = 4, X = 20)",
        "Vec capacity (with_capacity / reserve) and the non-temporal nature of _mm256_stream_si256 / _mm_sfence "
        "have no logical effect; one matrix row of a 32-column symbol matrix is exactly one 32-byte vector",
        "usize arithmetic does not overflow (lengths far below 2^64)",
    ],
)
