"""C04 — striping is a lossless, backend-independent rearrangement of the sequence."""
import re


def _translate():
    from translate import stripe_net, stripe_seq, stripe_pli
    rs = [stripe_net.translate(), stripe_seq.translate(), stripe_pli.translate()]
    return dict(ok=all(r.get("ok", True) for r in rs),
                notes=sum((r.get("notes", []) for r in rs), []),
                errors=sum((r.get("errors", []) for r in rs), []))


def _ops(line):
    m = line.split(" => ", 1)[0]
    f = dict(t.split("=", 1) for t in m.split(" ")[1:] if "=" in t)
    return f, [o for o in f.get("ops", "").split(";") if o]


def nontrivial(line):
    # distinct (alphabet, C, history) with a stripe of a non-empty sequence whose
    # length is not a multiple of C, followed by at least one more operation
    f, ops = _ops(line)
    try:
        c = int(f.get("C", "1"))
    except ValueError:
        return None
    for i, o in enumerate(ops):
        p = o.split(":")
        if p[0] in ("si", "st", "fe") and len(p) == 3:
            l = 0 if p[2] == "-" else len(p[2])
            if l > 0 and l % c != 0 and i + 1 < len(ops):
                return (f.get("A"), c, f.get("ops"))
    return None


def histogram(line):
    f, ops = _ops(line)
    keys = ["A=" + f.get("A", "?"), "C=" + f.get("C", "?"), "ops=%d" % len(ops)]
    for o in ops:
        p = o.split(":")
        if p[0] in ("si", "st", "fe"):
            l = 0 if p[2] == "-" else len(p[2])
            keys.append("op:%s:%s" % (p[0], p[1]))
            if l == 0:
                b = "L=0"
            elif l <= 40:
                b = "L=1..40"
            elif l < 992:
                b = "L=41..991"
            elif l <= 1100:
                b = "L=992..1100"
            else:
                b = "L>1100"
            keys.append(b)
        else:
            keys.append("op:" + p[0])
    return keys


def signature(detail, obs):
    # drop the op number so that a known finding matches wherever it occurs
    return re.sub(r"\bop\d+\b", "op", detail)


SPEC = dict(
    id="C04",
    group="stripe",
    props_file="C04.v",
    module="LMStripe.C04",
    harness_bin="stripe",
    ml_modules=["stripe_model"],
    n={"quick": 600, "thorough": 8700},
    search_n={"quick": 2500, "thorough": 12000},
    nontrivial=nontrivial,
    histogram=histogram,
    signature=signature,
    translate=_translate,
    rule="[round 3] column counts 1,2,4,8,16,32,48,64; backends ng/nn = the 16-lane dispatcher of arm/aarch64 targets "
         "(both arms name the generic kernel in the regenerated table; replayed through Pipeline::generic() at C=16); "
         "ops sm:<seed>:<n> = StripedSequence::sample as repaired by /repo 740d563 (rows*C draws row by row, then the cells "
         "past the end overwritten with the wildcard; stream oracle: EncodedSequence::sample with the same seed and "
         "background for rows*C symbols; EncodedSequence::sample(n) must be its first n symbols; every cell inside the "
         "sequence must be draw r*C+c): modelled by the translated text PliT.striped_sample_fix and decided in wildcard mode "
         "by check_C04_full (C04_sample_striped; C04_sample_prefix_striped_refuted keeps the witness against the function as "
         "it was: StripedPad but not Striped); nw:<n>:<rows> = StripedSequence::new on a matrix with arbitrary contents "
         "(exact / extra / too few rows: Err); only after nw, and after vm with look-ahead rows, the padding is arbitrary and "
         "the extracted check_C04_pad (C04_check_pad_sound) decides until the next stripe op; the padding mode (which "
         "checker decides after each op) is the extracted Mode.pad_after1 and the decision is the extracted check_mode "
         "(C04_mode_history, C04_mode_model_passes); configure / configure_wrap / Index / count_symbol(s) of the model are the "
         "statement lists translated from seq.rs (GenSeq.v, SeqT.v). "
         "[round 3b] ops cl (buf = buf.clone(), original dropped: exact capacity), fe:<b>:<seq> (StripedSequence::from("
         "EncodedSequence), C = 32, arm forced), vm (DenseMatrix::from(take(buf)) then StripedSequence::new(m, len): look-ahead "
         "rows become sequence rows; pad mode when wrap > 0); is_empty() and both as_ref() are replayed in every observation; "
         "generator family gen_reuse (1/7 of the generated cases: a longer wildcard-free sequence, then new lengths by pair "
         "class - below C, multiple of R = ceil(L/C) but not of C, multiple of C, partial last column, empty - shrinking and "
         "growing, through g / dg / ds / ng / nn and a / da); corpus/C04/reuse.txt (571 committed histories: reused-destination "
         "pair classes for C = 2..64 and every kernel; count_symbol(wildcard) with look-ahead rows and wildcard runs in the "
         "sequence, on striped and on sample/new-built buffers; Clone and the From conversions); thorough tier: generic sweep "
         "of every new length 0..=1100 (C = 32) / 0..=C*C+C (C = 16, 8, 4, 2) into a reused destination. The model run by the "
         "driver is step3: the provided Stripe::stripe / stripe_into are the statement lists translated from pli/mod.rs "
         "(GenPli.v, PliT.v: C04_pli_translated, C04_pli_expressions, C04_stripe_into_overwrites_everything, "
         "C04_sample_translated, C04_conversions_history, C04_conversions_spec). PROPFAIL in wildcard mode = check_C04_full "
         "(C04_check_full_sound, C04_model_passes_full; adds to check_C04: sampled Index in the padding = wildcard, beyond the "
         "matrix = panic), in padded mode = check_C04_pad; the generic-versus-AVX2 comparison is decided by the extracted "
         "check_agree on the two states the harness prints (C04_check_agree_sound / _complete; no boolean is computed in Rust "
         "any more). 57 theorems in C04.v (C04_history_stale_start_stripe: a history beginning with a fresh stripe from ANY "
         "old state). corpus/C04/boundary.txt (331 committed histories: the AVX2 kernel and the dispatcher's AVX2 arm at "
         "L = 0,1,31..33,63..65,991..993,1000 (the repaired over-read),1023..1025,1054..1057,1087..1089,2047..2049,"
         "2078..2081,3103..3105 into a stale configured buffer; the 64 / 1031 nt lengths of tests/stripe.rs through "
         "all five pipelines; wrap wider than the row count, growing/shrinking widths, empty motif, empty sequence for "
         "C = 1,2,4,16,32, DNA and protein), then generated operation histories (1..12 ops: stripe_into / stripe "
         "(fresh; EncodedSequence::to_striped for the dispatcher) / configure(motif of width M) / configure_wrap(k)) "
         "on ONE StripedSequence buffer, DNA and protein, C in 1,2,4,16,32 (generic pipeline) and C=32 through "
         "Pipeline::avx2() and Pipeline::dispatch() with the arm forced to Generic/Sse2/Avx2; lengths 0..40, around "
         "multiples of 32, 992..1100 (around 32*32 where the AVX2 block loop starts), around multiples of 1024, up to "
         "~3300 (quick) / ~5200, occasionally 6000..12300 (thorough); wrap widths small, around the row count (look-ahead rows built from "
         "look-ahead rows) and large; the thorough tier starts with a sweep of every length 0..1100 through the AVX2 "
         "kernel and the dispatcher's AVX2 arm into a stale buffer. After EVERY op the harness observes len, wrap, "
         "rows, every matrix cell, Index at every position 0..len-1 and at sampled positions up to / beyond the end "
         "of the matrix (panic = observation), count_symbols, count_symbol of every symbol, and the two states that generic and "
         "AVX2 stripe_into of that sequence produce in clones of the buffer. PROPFAIL = the extracted "
         "checker check_mode (= check_C04_full / check_C04_pad, see above; check_C04, C04_check_sound: accepts only observations that are the striped form of the "
         "sequence striped last, with shifted look-ahead rows, Index = linear sequence, counts = linear counts, "
         "backends agreeing) rejects the implementation's observation, or an op panicked (C04_striped_history: none "
         "may). DIFF = observation differs from the extracted Coq model run on the same history (matrix, len, wrap, "
         "sampled Index incl. out-of-range panics; the model's own counting loops for L <= 300 and after the last "
         "op). Non-trivial: distinct (alphabet, C, history) containing a stripe of a non-empty sequence whose length "
         "is not a multiple of C followed by at least one more operation.",
    trusted_base=[
        "Coq 8.16.1 kernel (coqc; coqchk -o on LMStripe.C04 in the thorough tier); vm_compute in the reflection "
        "lemma about the translated network (NetProofs.net_coords and three forallb facts about the load/store "
        "lists) and in Example lemmas / closed witnesses (C04_sample_prefix_striped_refuted); no native_compute",
        "extraction: ExtrOcamlBasic only (its Extract Inductive directives for bool, option, list, prod, unit, sumbool, "
        "sumor); no other Extract Inductive and no Extract Constant (nat kept as an extracted inductive); OCaml 4.13.1",
        "translator translate/stripe_pli.py (statement-skeleton regexes + expression parser over pli/mod.rs trait Stripe: "
        "stripe / stripe_into row formulas, capacity, reserve / resize arguments, both loops' index expressions, fill range, "
        "new arguments; over seq.rs StripedSequence::sample as repaired by /repo 740d563 (row formula, fill-order skeleton, "
        "the wildcard fill loop, new length; the pre-fix text does not parse) and EncodedSequence::sample (take(length)); 15 "
        "forwarding facts matched in the source: empty impls for Generic, AVX2 / dispatch override only stripe_into, "
        "to_striped, the two From impls, into_matrix, derived Clone, the getters len / is_empty / wrap / matrix, Default, the "
        "two AsRef impls) -> coq/stripe/GenPli.v; proved equal to the hand model (C04_pli_translated, C04_sample_translated); "
        "a source it cannot parse is a broken obligation",
        "translator translate/stripe_seq.py (statement-skeleton regexes + expression parser over seq.rs: "
        "DEFAULT_EXTRA_ROWS, StripedSequence::new / configure / configure_wrap, Index<usize>, count_symbol(s)) -> "
        "coq/stripe/GenSeq.v; proved equal to the hand model functions (C04_seq_translated)",
        "the stream oracle of sm ops: EncodedSequence::sample called by the harness with the same StdRng seed and "
        "Background (rand / rand_distr trusted; the model only says which draw lands in which cell)",
        "translator translate/stripe_net.py (regex + a small expression parser over avx2.rs::stripe_avx2: unpack! "
        "macro arms, 32 loads, unpack! invocations, 32 stores, the block loop's `while` condition and its three "
        "end-of-iteration steps, the scalar tail loop (condition, column count, guard, the three index expressions, "
        "step) and the wildcard fill loop (range, index expressions); dispatch.rs Stripe arm table) -> "
        "coq/stripe/GenStripeNet.v; a source it cannot parse is a broken obligation",
        "lane semantics of _mm256_unpack{lo,hi}_epi{8,16,32,64} and _mm256_permute2x128_si256 as index lists "
        "(coq/stripe/NetModel.v), exercised by the correspondence check on every run",
        "hand-written OCaml driver ocaml/stripe/driver.ml (parsing, printing, running the extracted model step3, comparison "
        "with it). The PROPFAIL decision on an observation is the extracted check_mode (check_C04_full in wildcard mode, "
        "check_C04_pad in padded mode; the mode is the extracted pad_after1; the backend comparison inside it is the extracted "
        "check_agree); the sub-checkers (check_striped, check_pad, check_wrap_rows, check_index_beyond) are re-run only to "
        "WORD the detail (not-striped, not-padded-striped, row-width, wrap-row-shift, index-all, count_symbol(s), "
        "backend-mismatch, index in the padding / beyond the matrix, `check_C04` when none names it). Hand-written PROPFAIL "
        "paths that remain: a panic of any op of a history (unexpected-panic; C04_striped_history / C04_mode_history: none "
        "may); a backend-comparison field the harness prefixed with `!` (a panic of either kernel) counts as a mismatch; "
        "`new rejects a matrix that holds the sequence` / `new accepts a matrix smaller than the sequence` (decided by the "
        "inequality rows*C >= len in OCaml, also for vm answering Err); `rows()` printed <> number of rows listed; "
        "`is_empty() / as_ref() inconsistent with len() / matrix()` (flagged by the harness with `!`); the sample-stream "
        "comparisons (a draw >= K; EncodedSequence::sample(n) <> the first n draws, via the extracted enc_sample). Skipped "
        "comparison (DIFF type only, never a property decision): the model's own counting loops run for L <= 300 or after "
        "the last op (cost of unary nat); the implementation's counts are decided against the linear sequence by the "
        "checker after EVERY op",
        "Rust harness harness/src/bin/stripe.rs (op interpreter over the public API, catch_unwind, hook "
        "lightmotif::pli::verif::force_backend; prints the generic and the AVX2 state of the backend comparison, decides "
        "nothing about them)",
        "modelled by hand, tied by the correspondence check only: "
        "the statement skeleton of stripe_avx2 around the translated parts (resize, early return, asserts, order of "
        "the three loops, StripedSequence::new), "
        "the random streams of StripedSequence::sample / EncodedSequence::sample (functional model over an explicit "
        "stream), Clone as the identity on (matrix, len, wrap), "
        "DenseMatrix at table level (dense.rs; layout is C19). Since round 3b NOT hand-modelled any more: "
        "Stripe::stripe / stripe_into (pli/mod.rs) and the text of StripedSequence::sample are translated (GenPli.v, PliT.v)",
        "PadModel.striped_sample / PadHistory.run2 / C04_pad_history / C04_sample_spec are unchanged and now describe "
        "StripedSequence::sample as it was BEFORE /repo 740d563 (kept because coq/score's C01History.v computes on them); "
        "coq/score and coq/e2e import LMStripe: names and statements are kept stable, additions only",
    ],
    assumptions=[
        "symbols are their indices (< K), A::Symbol::default() is the last symbol (N = 4, X = 20)",
        "a reused buffer is any matrix whose rows have C cells (wf_matrix: the type invariant of DenseMatrix<_, C>); "
        "histories start from StripedSequence::default() or from any state that is the striped form of some sequence "
        "(padded form for the op2 / op3 histories: C04_pad_history, C04_mode_history); a history that begins with a fresh "
        "stripe may start from ANY old state (C04_history_stale_start_stripe)",
        "Vec capacity (with_capacity / reserve) and the non-temporal nature of _mm256_stream_si256 / _mm_sfence "
        "have no logical effect; one matrix row of a 32-column symbol matrix is exactly one 32-byte vector; a "
        "vector load outside the sequence slice / store outside the matrix is an explicit failure of the model "
        "(Panic 90/91), proved unreachable (C04_stripe_avx2_spec)",
        "usize arithmetic does not overflow (lengths far below 2^64)",
        "not modelled: NEON / SSE2 have no striping kernel (the dispatcher's Sse2 arm runs the generic one, table "
        "translated from dispatch.rs; the arm/aarch64 arm table and lane count are regenerated too but can only be "
        "replayed through the generic pipeline on this host); Debug; Vec capacity is not part of the model state (Clone gives "
        "exact capacity, stripe gives rows + DEFAULT_EXTRA_ROWS: replayed by `cl` ops followed by configure_wrap beyond the old "
        "capacity, never a logical difference); data.reserve / with_capacity overflow for lengths near usize::MAX; the "
        "distribution of sample() (only "
        "which draw lands where); reads of DenseMatrix::uninitialized before initialisation (C06)",
    ],
)
