"""C14 / C15 for the JASPAR (raw), JASPAR 2016 and UniPROBE readers (group `io`): SPEC dicts
merged by props/c14.py and props/c15.py with the TRANSFAC group."""
from translate import io_abc, io_reader


def _fields(line):
    return dict(t.split("=", 1) for t in line.split(" ")[1:] if "=" in t)


_OURS = ("jaspar", "jaspar16", "uniprobe")


def _nontrivial_c14(line):
    # distinct files with >= 2 records, or bundled files (read with chunk sizes below the record size)
    f = _fields(line)
    if f.get("fmt") not in _OURS:
        return None
    if "file" in f:
        return f["file"]
    recs = f.get("recs", "")
    if recs.count("/") >= 1:
        return (f.get("fmt"), f.get("abc"), f.get("pre"), f.get("suf"), recs)
    return None


def _hist_c14(line):
    f = _fields(line)
    if f.get("fmt") not in _OURS:
        return []
    if "file" in f:
        return ["fmt=" + f["fmt"], "bundled-file"]
    n = f.get("recs", "").count("/") + 1
    return ["fmt=" + f["fmt"], "abc=" + f.get("abc", "?"),
            "records<=%d" % (1 if n <= 1 else 6 if n <= 6 else 40 if n <= 40 else 120 if n <= 120 else 300),
            "prefix=" + ("yes" if f.get("pre") else "no"), "suffix=" + ("yes" if f.get("suf") else "no")]


def _nontrivial_c15(line):
    # distinct non-empty byte strings per format
    f = _fields(line)
    if f.get("fmt") not in _OURS:
        return None
    d = f.get("hex", "")
    return (f.get("fmt"), f.get("abc"), d) if d else None


def _hist_c15(line):
    f = _fields(line)
    if f.get("fmt") not in _OURS:
        return []
    d = f.get("hex", "")
    n = len(d) // 2
    keys = ["fmt=" + f["fmt"], "abc=" + f.get("abc", "?"),
            "bytes<=%d" % (0 if n == 0 else 16 if n <= 16 else 128 if n <= 128 else 1024 if n <= 1024 else 100000)]
    try:
        b = bytes.fromhex(d)
        try:
            b.decode("utf-8")
        except UnicodeDecodeError:
            keys.append("invalid-utf8")
        if b and not b.endswith(b"\n"):
            keys.append("no-final-newline")
        if f["fmt"] != "uniprobe" and b">" not in b:
            keys.append("no-record-marker")
    except ValueError:
        pass
    return keys


_TRUSTED = [
    "Coq 8.16.1 kernel (coqc); vm_compute only in Example lemmas; no native_compute",
    "extraction: ExtrOcamlBasic only (nat, N, Z, positive stay extracted inductives); OCaml 4.13.1",
    "hand-written OCaml driver ocaml/io/driver.ml (line parsing, chunk lists from the chunk specs, calls of the "
    "extracted checkers check_c14 / check_c15 / no_panic, of the extracted printers and wf predicates and of the "
    "extracted reader+parser models; FNV-64 comparison of the printed file)",
    "Rust harness harness/src/bin/io.rs (record generators and mutators, printers compared through FNV-64 of the file "
    "with IoPrint.print_file, BufReader capacities and a custom cyclic-chunk BufRead, catch_unwind, call cap and a "
    "per-case watchdog thread = hang)",
    "modelled, not verified: lightmotif-io/src/{jaspar,jaspar16,uniprobe}/{mod,parse}.rs and error.rs as Gallina "
    "functions (IoJaspar.v, IoUniprobe.v); the nom 7.1.3 combinators used (IoNom.v; nom error kinds not compared); "
    "std BufRead::read_until / read_line over fill_buf/consume (IoBase.read_until over a list of chunks), "
    "core::str::from_utf8 (IoBase.utf8_decode), str::trim / char::is_whitespace / is_ascii_whitespace "
    "(`io selftest` compares the tables with std over all scalar values); Vec::capacity() of the JASPAR readers' "
    "compaction test is an arbitrary oracle (caps) in the model",
    "decimal -> f32 (UniPROBE): Rust's str::parse::<f32> is trusted; the harness prints the bits of every float token "
    "and the model takes them as the Section variable parse_f32; FrequencyMatrix::new's row-sum test is replayed "
    "bit-exactly with Flocq binary32 (LMBase.IEEE.F32)",
]

def _selftest(ctx):
    """`io selftest`: the tables the model states as plain definitions (char::is_whitespace, is_ascii_whitespace,
    to_digit, to_lowercase on the float tag letters, len_utf8) compared with std over all scalar values."""
    import subprocess
    hb = ctx.get("harness") or {}
    if not hb.get("ok"):
        return []
    try:
        p = subprocess.run([hb["path"], "selftest"], stdout=subprocess.PIPE, stderr=subprocess.STDOUT, timeout=300)
    except Exception as e:  # noqa
        return [("INFRA", "io selftest could not run: %r" % (e,), "")]
    out = p.stdout.decode("utf-8", "replace")
    if p.returncode != 0:
        return [("DIFF", "io selftest: std tables differ from the model's: " + out[-400:].replace("\n", " | "), "selftest")]
    ctx["notes"].append("io selftest: " + out.strip().splitlines()[-1])
    return [("EVAL", "1", "")]


def _signature(detail, obs_line):
    """known findings are matched on the PROPFAIL detail plus the format of the case"""
    f = _fields(obs_line.split(" => ")[0]) if obs_line else {}
    return "%s [fmt=%s]" % (detail, f.get("fmt", "?"))


_COMMON = dict(
    group="io",
    name="io",
    harness_bin="io",
    ml_modules=["io_model"],
    ocaml_packages=("str", "unix"),
    extra=_selftest,
    signature=_signature,
    translate=io_reader.translate_all,
)

C14_SPEC = dict(
    _COMMON,
    id="C14",
    props_file="C14io.v",
    module="LMIo.C14io",
    harness_args=["c14"],
    driver_args=["c14"],
    n={"quick": 160, "thorough": 2000},
    search_n={"quick": 300, "thorough": 3000},
    nontrivial=_nontrivial_c14,
    histogram=_hist_c14,
    rule="[JASPAR, JASPAR16, UniPROBE] files printed from random record lists (1..120 records quick, ..300 thorough; "
         "widths 1..40; counts 0..2^32-1 with leading zeros; JASPAR16/UniPROBE symbol lines in any order and any subset, "
         "DNA and protein; optional description; LF or CRLF; blanks/tabs layout freedom per record; bytes before the "
         "first '>' and white space after the last record) by the canonical printers (= IoPrint.print_file, compared "
         "through a hash of the file), plus the bundled benches/JASPAR2024.pwm (2346 records), tests/*.pfm and "
         "tests/*.uniprobe; each file read through BufReader capacities 1,2,3,5,17,64,8192 and two custom BufReads "
         "with cyclic random chunk sizes. Checked: what the generator printed meets the boolean hypotheses of the "
         "round-trip theorems (extracted wf_jaspar / wf_jaspar16 / wf_uniprobe + wf_prefix / wf_blank_prefix / wf_suffix); under "
         "every chunking the outcomes are exactly the written records "
         "(id, description, every cell = the token of its position in the line of its symbol, other columns 0: "
         "IoPrint.record_of) then END (extracted check_c14, proved sound), and equal the extracted reader+parser model "
         "run on the same chunk list. Non-trivial: distinct files with >= 2 records, or bundled files.",
    trusted_base=_TRUSTED,
    assumptions=[
        "proved (all chunkings, all compaction schedules, any number of records >= 1): reader_roundtrip_jaspar, "
        "reader_roundtrip_jaspar16 for every record list meeting the boolean predicates IoPrint.wf_jaspar / wf_jaspar16 "
        "(identifier: scalar values without ASCII white space or '>'; description: no LF, no '>', no leading/trailing "
        "white space; counts: digit strings < 2^32, leading zeros allowed; every layout freedom of IoPrint.style; bytes "
        "without '>' before the first record, ASCII white space after the last)",
        "UniPROBE round trip (reader_roundtrip_uniprobe) is proved for frequency tokens of nom's decimal float grammar "
        "SIGN? (DIGITS ('.' DIGITS?)? | '.' DIGITS) ([eE] SIGN? DIGITS)? (IoPrintU.wf_dec) on which the float oracle is "
        "defined, names without CR/LF that trim() leaves unchanged and that do not look like a column line, rows passing "
        "FrequencyMatrix::new's tolerance (binary32, Flocq), any number of empty lines after each record, any white-space-only "
        "complete lines before the first record, any ASCII white space after the last; nan/inf spellings (such rows never pass the tolerance test) are covered "
        "by the correspondence check only",
        "the record list of the JASPAR round-trip theorems is non-empty; the empty list is reader_roundtrip_no_record "
        "(a file of white space only reads as End; a file without any '>' whose last byte is not white space yields "
        "one Err: documented behaviour of Reader::new)",
        "outside the claimed grammar (documented, each yields an Err, never a wrong record, except the last item): '>' "
        "inside a JASPAR description, blank lines between JASPAR records, trailing blanks on a JASPAR count line, a last "
        "JASPAR line without newline; a last UniPROBE column line without newline is dropped (record with that column "
        "zero if the other columns still pass the row-sum tolerance, then Err)",
        "UniPROBE cells: the value of a decimal token is whatever Rust's str::parse::<f32> returns for it (oracle "
        "parse_f32, universally quantified in the theorems)",
    ],
)

C15_SPEC = dict(
    _COMMON,
    id="C15",
    props_file="C15io.v",
    module="LMIo.C15io",
    harness_args=["c15"],
    driver_args=["c15"],
    n={"quick": 3000, "thorough": 60000},
    search_n={"quick": 6000, "thorough": 60000},
    nontrivial=_nontrivial_c15,
    histogram=_hist_c15,
    rule="[JASPAR, JASPAR16, UniPROBE] malformed inputs: every prefix (thorough; a sample in quick) of valid generated "
         "files, 1-3 byte substitutions/deletions/insertions, structural damage (ragged matrices, header-only records, "
         "'>' in the description, duplicated/unknown symbols, overflowing / signed / fractional counts, float edge "
         "tokens nan/inf/infinity/1e/1e400, empty identifiers, missing separators, rows not summing to one, missing "
         "final newline, blank lines, trailing blanks, stray '>' / invalid UTF-8 before or after), random bytes, fixed "
         "boundary inputs and the corpus of F15-F17 witnesses; each under 3 chunkings (Cursor, BufReader capacities "
         "1,2,3,5,17,8192, cyclic random chunk sizes) under catch_unwind, next() polled 3 more times after the first "
         "error, call cap = len+2 (hang). Checked: no PANIC/CAP in any call and the outcomes up to the first error are "
         "records then one error or END (extracted no_panic / check_c15, proved sound), and equal outcome by outcome "
         "(record contents, error kind io/nom/invalid-data) the extracted reader+parser model, including the calls "
         "after the first error. Non-trivial: distinct non-empty inputs per format.",
    trusted_base=_TRUSTED,
    assumptions=[
        "the underlying BufRead returns no I/O error (in-memory streams); read_until/read_line errors other than "
        "invalid UTF-8 are returned by the code as Err and are not panic sites",
        "reader_total_* are stated for every stream with non-empty chunks (wf_stream; mk_stream drops empty chunks of "
        "any chunk list), every capacity oracle and every float oracle; alphabets only need aindex c = Some k -> k < K "
        "(proved for Dna and Protein: alphabets_ok)",
        "termination measure: unread bytes (pending part of the buffer + bytes left in the stream) strictly decrease "
        "with every record returned (next_step_jaspar; u_next_total for UniPROBE); the model's fuel len+2 is proved sufficient",
    ],
)
