"""C14 / C15 for the JASPAR (raw), JASPAR 2016 and UniPROBE readers (group `io`): SPEC dicts
merged by props/c14.py and props/c15.py with the TRANSFAC group."""
from translate import io_abc, io_reader


def _fields(line):
    return dict(t.split("=", 1) for t in line.split(" ")[1:] if "=" in t)


_OURS = ("jaspar", "jaspar16", "uniprobe")


def _nontrivial_c14(line):
    # distinct files with >= 2 records, or bundled files (read with chunk sizes below the record size)
    f = _fields(line)
    if f.get("fmt") not in _OURS:
        return None
    if "file" in f:
        return f["file"]
    recs = f.get("recs", "")
    if recs.count("/") >= 1:
        return (f.get("fmt"), f.get("abc"), f.get("pre"), f.get("suf"), recs)
    return None


def _hist_c14(line):
    f = _fields(line)
    if f.get("fmt") not in _OURS:
        return []
    if "file" in f:
        return ["fmt=" + f["fmt"], "bundled-file"]
    n = f.get("recs", "").count("/") + 1
    return ["fmt=" + f["fmt"], "abc=" + f.get("abc", "?"),
            "records<=%d" % (1 if n <= 1 else 6 if n <= 6 else 40 if n <= 40 else 120 if n <= 120 else 300),
            "prefix=" + ("yes" if f.get("pre") else "no"), "suffix=" + ("yes" if f.get("suf") else "no")]


def _nontrivial_c15(line):
    # distinct non-empty byte strings per format
    f = _fields(line)
    if f.get("fmt") not in _OURS:
        return None
    d = f.get("hex", "")
    return (f.get("fmt"), f.get("abc"), d) if d else None


def _hist_c15(line):
    f = _fields(line)
    if f.get("fmt") not in _OURS:
        return []
    d = f.get("hex", "")
    n = len(d) // 2
    keys = ["fmt=" + f["fmt"], "abc=" + f.get("abc", "?"),
            "bytes<=%d" % (0 if n == 0 else 16 if n <= 16 else 128 if n <= 128 else 1024 if n <= 1024 else 100000)]
    try:
        b = bytes.fromhex(d)
        try:
            b.decode("utf-8")
        except UnicodeDecodeError:
            keys.append("invalid-utf8")
        if b and not b.endswith(b"\n"):
            keys.append("no-final-newline")
        if f["fmt"] != "uniprobe" and b">" not in b:
            keys.append("no-record-marker")
    except ValueError:
        pass
    return keys


_TRUSTED = [
    "Coq 8.16.1 kernel (coqc); vm_compute only in the Example lemmas of C14io.v / C15io.v, in the concrete counterexample "
    "lemmas F15_refuted / F16_refuted / F17_refuted / polls_unguarded_refuted and in the alphabet-table lemmas of "
    "IoMatrixProofs.v / IoParseProofs.v; no native_compute",
    "extraction: ExtrOcamlBasic only (its Extract Inductive directives for bool, option, list, prod, unit, sumbool, "
    "sumor); no other Extract Inductive, no Extract Constant (nat, N, Z, positive stay extracted inductives); OCaml 4.13.1",
    "translators (re-run on every check, a source they cannot parse is a broken obligation): translate/io_abc.py -> "
    "coq/io/GenIoAbc.v (lightmotif/src/abc.rs: K and the from_ascii / as_ascii arms of Dna and Protein; "
    "jaspar/parse.rs: the symbol array of fn matrix; jaspar/mod.rs and jaspar16/mod.rs Reader::new: the constants of "
    "unwrap_or(U).saturating_sub(S) and the shape of the record slice; uniprobe/parse.rs matrix_column: line_ending or "
    "alt((line_ending, eof)) = gen_uniprobe_col_eof) and translate/io_reader.py -> coq/io/GenIoReader.v (statement "
    "skeleton of Iterator::next of the three mod.rs as code lists, the read_until delimiter, the tag / take_until "
    "literals of fn header of both JASPAR parse.rs; whether any of the three parse.rs mentions streaming / Incomplete / "
    "Needed or a nom path outside the complete combinators, and whether the nom::Err::Incomplete arm of error.rs is a "
    "panic macro; whether the body of CountMatrix::new in lightmotif/src/pwm/mod.rs can fail); pinned by "
    "C15io.reader_skeleton_is_modelled, io_parsers_are_complete, count_matrix_new_is_total. Trusted: that these "
    "regular-expression readers read the Rust source the way rustc does",
    "hand-written OCaml driver ocaml/io/driver.ml (line parsing, chunk lists and fault-event lists from the chunk specs, "
    "calls of the extracted checkers check_c14 / check_c15 / no_panic / stop_prefix / end_final, of the extracted "
    "printers (IoPrint, IoPrintU, IoPrintG) and wf predicates and of the extracted reader+parser models incl. the "
    "polling models IoPoll.*_polls_e; FNV-64 comparison of the printed file; recognise_jaspar16 / recognise_uniprobe for "
    "the bundled files are hand-written but UNTRUSTED: their output is used only if the extracted printer re-prints it "
    "to exactly the bytes of the file and the extracted wf predicates accept it, otherwise the case is a DIFF)",
    "hand-written (non-extracted) PROPFAIL paths left in ocaml/io/driver.ml: (1) `hang-watchdog-expired`: the harness "
    "reported HANG for the case (a call into the reader did not return within the watchdog) - decided by the harness, "
    "no checker involved; (2) the labels `panic` / `hang-call-cap-reached` / `model-site=` attached to a rejection by "
    "the extracted no_panic are hand-written text, the decision is not; (3) a fallback for a `file=` case without "
    "expected records (bundled-file-not-read-to-END, record-count, differs-from-first-chunking; hand-written around "
    "check_c15): for JASPAR16 / UniPROBE it is only reached after the recogniser already set a DIFF, and the first "
    "verdict is kept, so it never decides; it could decide only for a bundled JASPAR (raw) file, and none is generated. "
    "Every other PROPFAIL (records-differ-from-written, bad-outcome-sequence, panic) is the extracted check_c14 / "
    "no_panic / check_c15 on the extracted stop_prefix of the observations",
    "Rust harness harness/src/bin/io.rs (record generators and mutators, printers compared through FNV-64 of the file "
    "with IoPrint.print_file / IoPrintG.print_file_g, BufReader capacities, a custom cyclic-chunk BufRead and a scripted "
    "failing BufRead (`ev:` fault scripts), catch_unwind, call cap and a per-case watchdog thread = hang; every record "
    "returned is also read through AsRef::as_ref and the consuming accessor (into_matrix / CountMatrix::from) and "
    "compared with matrix())",
    "modelled, not verified: lightmotif-io/src/{jaspar,jaspar16,uniprobe}/{mod,parse}.rs and error.rs as Gallina "
    "functions (IoJaspar.v, IoUniprobe.v; over failing streams IoErr.v; the consumer that keeps calling next() "
    "IoPoll.v); the nom 7.1.3 combinators used (IoNom.v; nom error kinds not compared; IoNom.pres has no Incomplete "
    "result: nom's `complete` parsers never return it, premise re-checked by io_parsers_are_complete, so the "
    "unreachable!() of error.rs has no Panic site in the model); "
    "std BufRead::read_until / read_line over fill_buf/consume (IoBase.read_until over a list of chunks; over event "
    "lists IoErr.read_until_e / read_line_e: an io::Error returned by read_until comes AFTER the bytes seen so far "
    "were appended and consumed, read_line keeps them only if the whole line is valid UTF-8, ErrorKind::Interrupted is "
    "retried - tied by the fault-script cases and by 11 facts of `io selftest` on a scripted failing BufRead), "
    "core::str::from_utf8 (IoBase.utf8_decode), str::trim / char::is_whitespace / is_ascii_whitespace "
    "(`io selftest` compares the tables with std over all scalar values); Vec::capacity() of the JASPAR readers' "
    "compaction test is an arbitrary oracle (caps) in the model (sound: compaction_transparent, "
    "reader_polls_capacity_independent_jaspar / _jaspar16)",
    "decimal -> f32 (UniPROBE): Rust's str::parse::<f32> is trusted; the harness prints the bits of every float token "
    "and the model takes them as the Section variable parse_f32; FrequencyMatrix::new's row-sum test is replayed "
    "bit-exactly with Flocq binary32 (LMBase.IEEE.F32)",
]

def _selftest(ctx):
    """`io selftest`: the tables the model states as plain definitions (char::is_whitespace, is_ascii_whitespace,
    to_digit, to_lowercase on the float tag letters, len_utf8) compared with std over all scalar values."""
    import subprocess
    hb = ctx.get("harness") or {}
    if not hb.get("ok"):
        return []
    try:
        p = subprocess.run([hb["path"], "selftest"], stdout=subprocess.PIPE, stderr=subprocess.STDOUT, timeout=300)
    except Exception as e:  # noqa
        return [("INFRA", "io selftest could not run: %r" % (e,), "")]
    out = p.stdout.decode("utf-8", "replace")
    if p.returncode != 0:
        return [("DIFF", "io selftest: std tables differ from the model's: " + out[-400:].replace("\n", " | "), "selftest")]
    ctx["notes"].append("io selftest: " + out.strip().splitlines()[-1])
    return [("EVAL", "1", "")]


def _signature(detail, obs_line):
    """known findings are matched on the PROPFAIL detail plus the format of the case"""
    f = _fields(obs_line.split(" => ")[0]) if obs_line else {}
    return "%s [fmt=%s]" % (detail, f.get("fmt", "?"))


_COMMON = dict(
    group="io",
    name="io",
    harness_bin="io",
    ml_modules=["io_model"],
    ocaml_packages=("str", "unix"),
    extra=_selftest,
    signature=_signature,
    translate=io_reader.translate_all,
)

C14_SPEC = dict(
    _COMMON,
    id="C14",
    props_file="C14io.v",
    module="LMIo.C14io",
    harness_args=["c14"],
    driver_args=["c14"],
    n={"quick": 160, "thorough": 2000},
    search_n={"quick": 300, "thorough": 3000},
    nontrivial=_nontrivial_c14,
    histogram=_hist_c14,
    rule="[JASPAR, JASPAR16, UniPROBE] files printed from random record lists (1..120 records quick, ..300 thorough; "
         "widths 1..40, 1 in 25 files a few matrices up to 120 (quick) / 400 (thorough) columns; identifiers up to 600 and "
         "descriptions up to 1500 characters now and then; counts 0..2^32-1 with leading zeros; JASPAR16/UniPROBE "
         "symbol lines in any order and any subset, DNA and protein; optional description; LF or CRLF; the one-separator "
         "blanks/tabs layout of IoPrint.style per record and, for 2 of 5 JASPAR / JASPAR16 records, the general layout "
         "of IoPrintG (own blanks before every count: right-aligned columns or ragged blanks/tabs; trailing blanks after "
         "an identifier without description); bytes before the first '>' and white space after the last record) by the "
         "canonical printers (= IoPrint.print_file / IoPrintG.print_file_g, compared through a hash of the file), plus "
         "the bundled benches/JASPAR2024.pwm (2346 records), tests/*.pfm and tests/*.uniprobe; each file read through "
         "BufReader capacities 1,2,3,5,17,64,8192, two custom BufReads with cyclic random chunk sizes and a 10th "
         "chunking with ErrorKind::Interrupted events only; 2 more requests after End in every case. Checked: what the "
         "generator printed meets the boolean hypotheses of the round-trip theorems (extracted wf_jaspar / wf_jaspar16 "
         "/ wf_jaspar_g / wf_jaspar16_g / wf_uniprobe + wf_prefix / wf_blank_prefix / wf_suffix); under every chunking "
         "the outcomes are exactly the written records (id, description, every cell = the token of its position in the "
         "line of its symbol, other columns 0: IoPrint.record_of, for the general layout of IoPrintG.src_of_g) then END "
         "(extracted check_c14, proved sound), and equal the extracted reader+parser model run on the same chunk list "
         "(polling model IoPoll.*_polls_e in full for the first chunking; for the others the prefix up to END = model "
         "and every later answer END, by reader_end_is_final_*). Bundled files are recognised as instances of "
         "print_file_g print_jaspar16_g / print_file print_uniprobe (the extracted printer re-prints the file byte for "
         "byte, the extracted wf accepts it; a file that is not recognised is a DIFF) and judged by check_c14 against "
         "the records WRITTEN in them (PROPFAIL records-differ-from-written). Non-trivial: distinct files with >= 2 "
         "records, or bundled files.",
    trusted_base=_TRUSTED,
    assumptions=[
        "proved (all chunkings, all compaction schedules, any number of records >= 1): reader_roundtrip_jaspar, "
        "reader_roundtrip_jaspar16 for every record list meeting the boolean predicates IoPrint.wf_jaspar / wf_jaspar16 "
        "(identifier: scalar values without ASCII white space or '>'; description: no LF, no '>', no leading/trailing "
        "white space; counts: digit strings < 2^32, leading zeros allowed; the layout of IoPrint.style: ONE blank "
        "string between the counts of a record; bytes without '>' before the first record, ASCII white space after the "
        "last)",
        "general layout (round 3, review C14 findings 1, 2, 5): reader_roundtrip_jaspar_general / "
        "reader_roundtrip_jaspar16_general, same conclusion, for IoPrintG.wf_jaspar_g / wf_jaspar16_g: own blank string "
        "before '[', before every count (first count: any blanks, the others >= 1 blank), before ']' and after it, "
        ">= 1 blank before a description, any blanks after an identifier without description (wf_hsep_g); the IoPrint "
        "layout is the special case style_layout_is_special_case_jaspar / _jaspar16; right-aligned real files "
        "(MA0017.3.pfm, JASPAR2024.pwm) are instances (Example general_layout_instance: first record of JASPAR2024.pwm)",
        "reader_roundtrip_polls_* (5 theorems): a consumer making n > #records requests sees exactly the written "
        "records, then End at EVERY further request; reader_polls_chunk_independent_{jaspar,jaspar16,uniprobe}: for ANY "
        "input (malformed ones too) the outcome of every request of the polling consumer is independent of the chunking "
        "(error-free streams with the same bytes, IoPollChunk.same_bytes)",
        "UniPROBE round trip (reader_roundtrip_uniprobe) is proved for frequency tokens of nom's decimal float grammar "
        "SIGN? (DIGITS ('.' DIGITS?)? | '.' DIGITS) ([eE] SIGN? DIGITS)? (IoPrintU.wf_dec) on which the float oracle is "
        "defined, names without CR/LF that trim() leaves unchanged and that do not look like a column line, rows passing "
        "FrequencyMatrix::new's tolerance (binary32, Flocq), any number of empty lines after each record, any white-space-only "
        "complete lines before the first record, any ASCII white space after the last; nan/inf spellings (such rows never pass the tolerance test) are covered "
        "by the correspondence check only",
        "the record list of the JASPAR round-trip theorems is non-empty; the empty list is reader_roundtrip_no_record "
        "(a file of white space only reads as End; a file without any '>' whose last byte is not white space yields "
        "one Err: documented behaviour of Reader::new)",
        "outside the claimed grammar (documented; each of the JASPAR items yields an Err, never a wrong record): '>' "
        "inside a JASPAR description, blank lines between JASPAR records, trailing blanks on a JASPAR (raw) count line, a "
        "last JASPAR line without newline. A last UniPROBE column line without final newline is ACCEPTED by the code "
        "(since 2d8f0f6: matrix_column ends with alt((line_ending, eof)), GenIoAbc.gen_uniprobe_col_eof = true; "
        "modelled, covered by the correspondence check) but outside reader_roundtrip_uniprobe, whose printer ends every "
        "line with a line ending (review C14 finding 4: not done)",
        "C14 quantifies over chunkings of a stream that DELIVERS the bytes: no io::Error (ErrorKind::Interrupted is "
        "invisible: C15io.reader_interrupted_invisible_*). Documented observation O-IO1 (notes/io.md; no violation of "
        "C14/C15 as stated, no known-findings entry): after a non-Interrupted I/O error in the middle of a JASPAR 2016 "
        "record the next request slices start..=start+n with n = the bytes of THAT call only; a prefix ending after a "
        "complete symbol line is a record of the grammar, so a silently TRUNCATED record is returned (pinned: Example "
        "C15io.polls_truncated_record_after_io_error; model and code agree)",
        "UniPROBE cells: the value of a decimal token is whatever Rust's str::parse::<f32> returns for it (oracle "
        "parse_f32, universally quantified in the theorems)",
    ],
)

C15_SPEC = dict(
    _COMMON,
    id="C15",
    props_file="C15io.v",
    module="LMIo.C15io",
    harness_args=["c15"],
    driver_args=["c15"],
    n={"quick": 3000, "thorough": 60000},
    search_n={"quick": 6000, "thorough": 60000},
    nontrivial=_nontrivial_c15,
    histogram=_hist_c15,
    rule="[JASPAR, JASPAR16, UniPROBE] malformed inputs: every prefix (thorough; a sample in quick) of valid generated "
         "files, 1-3 byte substitutions/deletions/insertions, structural damage (ragged matrices, header-only records, "
         "'>' in the description, duplicated/unknown symbols, overflowing / signed / fractional counts, float edge "
         "tokens nan/inf/infinity/1e/1e400, empty identifiers, missing separators, rows not summing to one, missing "
         "final newline, blank lines, trailing blanks, stray '>' / invalid UTF-8 before or after), invalid UTF-8 of 7 "
         "kinds (stray continuation, truncated 2/3/4-byte forms, overlong, 0xFF, surrogate) inserted / overwriting at "
         "every offset (thorough; 10 offsets quick) of multi-record files, multi-byte / white-space-like characters "
         "(NBSP, U+2003, U+85) at line starts, random bytes, fixed boundary inputs, the corpus of F15-F17 witnesses and "
         "corpus/C15/io_polls.txt; each under 3 chunkings (Cursor, BufReader capacities 1,2,3,5,17,8192, cyclic random "
         "chunk sizes) plus fault scripts (fill_buf fails with Other/UnexpectedEof/InvalidData/WouldBlock or is "
         "Interrupted at the k-th slice, k = 0 inside Reader::new, sometimes twice) under catch_unwind; after the first "
         "outcome that is not a record (error OR End) 3 more requests are made whatever they return (2 after End in "
         "every C14 case), call cap = len+2 (hang). Checked: no PANIC/CAP in any call and the outcomes up to the first "
         "error are records then one error or END (extracted no_panic / check_c15, proved sound and complete); the WHOLE "
         "outcome list (record contents, error kind io/nom/invalid-data, the requests after the first error / End) "
         "equals outcome by outcome the extracted polling model IoPoll.*_polls_e (fault scripts: over IoErr event "
         "streams), and after End only End (extracted end_final). Non-trivial: distinct non-empty inputs per format.",
    trusted_base=_TRUSTED,
    assumptions=[
        "streams are event lists (IoErr.v): non-empty data slices, io::Error, ErrorKind::Interrupted (retried inside "
        "std's read_until/read_line; reader_interrupted_invisible_*: deleting them changes no outcome); an end of input "
        "is final (fill_buf returns an empty slice for ever after the last event); reader_polls_total_* (a consumer "
        "that calls next() again any number of times after an error or End: every request returns Record | Error | "
        "End), reader_end_is_final_* and reader_total_faults_* hold for every such stream; fault_free_agree_* / "
        "polls_extend_read_*: on error-free streams, and up to the first non-record, these are the models of the "
        "reader_total_* / C14 theorems; the JASPAR statements are about the reader as the translator finds it (slice "
        "guard present - polls_unguarded_refuted is the reader before df3a2dd - and unwrap_or(U).saturating_sub(S) with "
        "U <= S)",
        "as coded and pinned by Examples, no C15 violation (every request returns): a JASPAR parse error is sticky "
        "(`start` only moves on success; polls_sticky_error: every later request returns the same error, End is never "
        "reached, so `for r in reader { if let Ok(r) = r {..} }` does not end on a malformed file); after an I/O error "
        "in the middle of a record the next request may return a parse error or, JASPAR 2016, a truncated record "
        "(observation O-IO1, see the C14 assumptions; polls_io_error_mid_record, polls_truncated_record_after_io_error)",
        "error.rs `nom::Err::Incomplete(_) => unreachable!()` has no Panic site in the model (IoNom.pres has no "
        "Incomplete); instead io_parsers_are_complete re-checks on every run that the three parse.rs use no streaming "
        "parser and no nom path outside the complete combinators (or that the arm no longer panics): a change there "
        "is a broken obligation, not a modelled panic. CountMatrix::new is taken as never failing "
        "(count_matrix_new_is_total, same mechanism)",
        "not modelled: allocation failure (DenseMatrix::new(rows) with rows from the input, Vec / String growth: the "
        "process aborts) and panics inside nom / std",
        "reader_total_* are stated for every stream with non-empty chunks (wf_stream; mk_stream drops empty chunks of "
        "any chunk list), every capacity oracle and every float oracle; alphabets only need aindex c = Some k -> k < K "
        "(proved for Dna and Protein: alphabets_ok)",
        "termination measure: unread bytes (pending part of the buffer + bytes left in the stream) strictly decrease "
        "with every record returned (next_step_jaspar; u_next_total for UniPROBE); the model's fuel len+2 is proved sufficient",
    ],
)
