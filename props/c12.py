"""C12 — TFM-PVALUE p-value ranges are consistent with the exact score distribution."""

from translate import tfm_const


def _fields(line):
    return dict(t.split("=", 1) for t in line.split(" => ")[0].split(" ")[1:] if "=" in t)


def nontrivial(line):
    # distinct (matrix, background, score) with the query strictly inside the attainable range
    f = _fields(line)
    if f.get("nt") == "1":
        return (f.get("mat"), f.get("bg"), f.get("q"))
    return None


def _scope(f):
    # the quantifier of the property, decided from the input alone (the driver decides the same with the extracted
    # wrows_of and answers `OK skipped:outside-the-quantifier`): finite symbol cells, wildcard cell finite or -inf, M >= 2
    try:
        rows = [[int(c) for c in r.split(",")] for r in f.get("mat", "").split("/") if r]
        if len(rows) < 2:
            return "scope:outside-quantifier(skipped)"
        for r in rows:
            for j, b in enumerate(r):
                nonfinite = ((b >> 23) & 0xFF) == 0xFF
                if nonfinite and not (j == len(r) - 1 and b == 0xFF800000):
                    return "scope:outside-quantifier(skipped)"
        return "scope:inside-quantifier"
    except ValueError:
        return "scope:?"


def histogram(line):
    f = _fields(line)
    return [_scope(f), "M=" + f.get("M", "?"), "abc:" + f.get("abc", "dna"), "ref:" + f.get("ref", "enum"), "matrix:" + f.get("mk", "?"), "background:" + f.get("bgk", "?"),
            "query:" + f.get("qk", "?"), "steps=" + f.get("steps", "?")]


def _e2e_stat_obligations():
    # the statistics-side composition theorems of coq/e2e (E2EStat.v: counts -> log-odds -> both p-value methods on one
    # exact tail; they use C12's final-bounds theorem) count as obligations of this property in the thorough tier
    # (requested by the e2e builder, round 3; see props/e2e.py STAT_EXTRA)
    from props import e2e
    return e2e.obligations_stat()


SPEC = dict(
    id="C12",
    group="tfm",
    props_file="C12.v",
    module="LMTfm.C12",
    translate=tfm_const.translate,
    more_props=[("C12Ext.v", "LMTfm.C12Ext"), ("C12Gen.v", "LMTfm.C12Gen"), ("C12Ext2.v", "LMTfm.C12Ext2")],
    extra_obligations={"thorough": _e2e_stat_obligations},
    extra_obligations_name="coq/e2e/E2EStat.v: composition of C09, C11, C12/C13, C10, C14 and the scanning pipeline of E2E.v",
    extra_obligations_cmd="make -C coq/e2e (and imported groups) + Print Assumptions audit of LME2E.E2EStat",
    harness_bin="tfm",
    harness_args=["c12"],
    driver_args=["c12"],
    ml_modules=["tfm_model"],
    n={"quick": 800, "thorough": 15000},
    search_n={"quick": 4000, "thorough": 40000},
    nontrivial=nontrivial,
    histogram=histogram,
    rule="7 matrices in 8: DNA scoring matrices of width M in 2..6; 1 in 8 (kinds prot / dnawide / protgrid / dnagrid): protein matrices (K=21) of width 2..3 with arbitrary cells, DNA of width 7..8, and wide motifs on a 1/4 grid (protein width 4..14, DNA width 9..22) whose exact reference is the convolution conv_dy (equal scores merged; proved to give the same checker verdict as the enumeration of all words: C12_check_conv) -- backgrounds for these: Background::uniform() (for proteins twenty 0.05f32 whose f64 sum exceeds 1), dyadic non-uniform, with wildcard mass; extra queries a few 1e-7..1e-9 below an attainable score (always 9..11 refinement steps) and far below the minimum. The DNA matrices are built with ScoringMatrix::new (cells on a fine 1/1024 grid, a coarse 1/4 grid with many ties, a decimal 0.1/0.01 grid, 8% 'cluster' matrices (close top words with rounding digits of opposite classes in high cells and row minima: the shape of the F13 witness), a 0.05 lattice of small rounded weights, or log-odds derived from random counts through CountMatrix::to_freq/to_scoring; wildcard column -inf, rarely finite; 1 matrix in 7 has an uninformative or nearly uninformative position = a row of equal cells), backgrounds uniform / dyadic non-uniform (sometimes with a zero frequency) / decimal [0.3,0.2,0.2,0.3] / ~6% with wildcard mass; per matrix 9-17 query scores: below the minimum, above the maximum, min, max, exactly attainable, attainable+-eps, random. One case = one (matrix, score): every Iteration of approximate_pvalue(s) for 3..6 (thorough 7) refinement steps -- 9..11 steps (granularity down to 1e-11) for one case in ten, one in three for lattice-valued matrices -- or until convergence (range, granularity, converged, score) plus the private state read through the verif-hooks accessors verif_state() / verif_window() (permutation, offsets, error_max, int_matrix, min/max rows, all Q-value rows with the iteration order of their hash maps), and pvalue(s) when the iteration converged within the cap; all under catch_unwind. PROPFAIL: extracted checker c12_check (proved equivalent to the five inequalities of the property, C12_check_sound) against the exact tails enumerated over all words in exact dyadic arithmetic (relative tolerance 2^-30 on the reported binary64 sums, widened by (1+|sum b - 1|)^M for backgrounds that are not exactly normalised), for every iteration and for the final pvalue(). A PROPFAIL on a case where the implementation also differs from the model carries the tag model-differs and is never attributed to a known finding. DIFF: the binary64 model is replayed in the hash-map iteration order the implementation reports; integer geometry, every Q-value row (checksum of all value bits), the last row, the reported range, converged, score and windows are compared bit for bit; only steps with more than 6000 table entries (order not printed) fall back to the 1e-9 relative comparison (and, for C13, the knife-edge skip); pvalue() / score() are compared bit for bit with the extracted final_of_run (TfmFinal.v). Corpus (must pass): the repaired defects F11 (double count), F25 (positive wildcard cell), F12 with -inf wildcard cells, F34 (range above 1 with the uniform protein background); corpus/C12/f35_huge_cell.txt reproduces the known finding F35 (reported as KNOWN-FINDING, signature huge-(cell|score); the release-profile replay ignores these cases). Round 3 query kinds: attfull (C12: exactly attainable score, 19 calls of next() - the iteration converges only at ~1e-16 - then pvalue()), edge4 / edge5 (C12: s = S(w) - (M+1) g - eps and s = S(w) + (M+2) g + eps for g in {0.1, 0.01}: the edges of clauses 4 and 5), hugeq (C12, 1 matrix in 10: |score| = 1e10 .. 1e38), closepair (C13: p between the tails of two attainable scores closer than 1e-5, run deep); matrix kinds bigcell (1 plain matrix in 25: one or two cells of magnitude 1e2..1e20) and flat (1 matrix in 15: M = 6..7, two informative rows + 4..5 rows of range 0.05..0.099 that are constant or straddle a bin boundary at g = 0.1; tight variant: the range of the constant row is drawn first, cells just below bin boundaries). Non-trivial: distinct (matrix, background, score) with the score strictly inside the attainable range of a matrix with >= 3 attainable scores. Theorems (coq/tfm/C12.v, all Qed, no hypothesis left): C12_int_score_error, C12_dist_exact (+C12_recompute_cells), C12_lookup_pvalue_sound, C12_pvalue_step_bounds, C12_pvalue_run_bounds, C12_granularity_decay, C12_pvalue_final_bounds, C12_pvalue_final_error, C12_lookup_pvalue_never_panics_25, C12_perm_ok_Permutation, C12_check_sound (clause 3 = pmax <= 1 exactly, no tolerance), C12_check_tail, C12_check_conv; coq/tfm/C12Ext.v (19, all Qed): C12_step_no_overflow, C12_step_no_overflow_f64, C12_recompute_no_overflow_f64, C12_converged_if_isolated, C12_run_stops_at, C12_run_length_gap, C12_tie_never_converges, C12_range_in_unit_interval_f64, C12_hash_order_irrelevant, C12_ord_model_generalises, C12_pvalue_step_bounds_any_order, C12_pvalue_run_bounds_any_order, C12_pvalue_step_bounds_wildcard_mass, C12_pvalue_run_bounds_wildcard_mass, C12_pvalue_final_bounds_wildcard_mass, C12_pvalue_step_bounds_full_tail, C12_pvalue_fuel_independent, C12_pvalue_bounds, C12_pvalue_terminates; coq/tfm/C12Gen.v (2): C12_source_constants, C12_source_constants_f64 (the 22 constants / loop bounds / comparison operators regenerated from lib.rs by translate/tfm_const.py equal those of the model).",
    trusted_base=['Coq 8.16.1 kernel (coqc); vm_compute only in the non-vacuity Examples and in the refutation witness (coq/tfm/TfmRefute.v); no native_compute; Print Assumptions of every theorem of the property files: closed under the global context except the `_f64` theorems of C12Ext.v / C13Ext.v / C12Gen.v, which are about the Flocq binary64 instance and depend on the classical axioms of the Reals library (allow-listed, DESIGN section 6)', 'translator translate/tfm_const.py (regex reader of lightmotif-tfmpvalue/src/lib.rs: 22 constants / loop bounds / comparison operators -> coq/tfm/GenTfm.v; a source it cannot parse is a broken obligation)', 'Flocq 4.1.0 BinarySingleNaN (binary64 replay instance of the model) through LMBase.IEEE', 'extraction: ExtrOcamlBasic only (nat, Z, positive kept as extracted inductives); OCaml 4.13.1', "hand-written OCaml driver ocaml/tfm/driver.ml (parsing, construction of the checker's rows from the f32 cells, replay of the binary64 model in the reported hash-map order with bit-for-bit comparison, 1e-9 relative comparison of f64 sums only for steps whose order is not printed, verdicts); the decision PROPFAIL itself is the extracted checker, proved equivalent to the property inequalities (C12_check_sound / C13_check_sound, C12_check_tail)", 'Rust harness harness/src/bin/tfm.rs (generator, catch_unwind; the private state is read through the `verif-hooks` accessors `verif_state()` / `verif_window()` of /repo 86badd0: no text parsing)', 'modelled, not verified: lightmotif-tfmpvalue/src/lib.rs itself (hand-written Gallina model TfmModel.v tied by the bit-exact replay of the binary64 instance); IEEE rounding of x/g, of score/g and of the probability sums (the theorems are about the exact-rational instance of the same model text; the slack of one integer unit on either side of the bounds is ~1e9 times the rounding error of the replayed cases); HashMap iteration order: an INPUT of the replayed model (TfmOrd.v, order reported by the hook, validated per step by ords_ok); proved irrelevant in exact arithmetic (C12_hash_order_irrelevant) and the theorems hold for the order-parameterised model (C12_pvalue_run_bounds_any_order, C13_score_run_bounds_any_order); the row permutation of TfmPvalue::new (input of the model, validated per case)'],
    assumptions=['theorems: exact rational arithmetic (NumQ instance of the model), M >= 2, K >= 2 cells per row, finite symbol cells, g > 0, symbol frequencies >= 0 summing to 1 and wildcard frequency 0 (no wildcard mass; the table theorem C12_dist_exact itself is proved for any wildcard mass, bg_mass; what is left of finding F12 needs a finite wildcard cell together with wildcard mass), wildcard cells arbitrary (no longer read by the code), perm a permutation of 0..M (Permutation perm (seq 0 M)); results are stated for the matrix as given (Ptail is invariant under the row permutation, TfmPerm.tailS_perm_cells)', "the row permutation of TfmPvalue::new (sort_unstable_by) is an input of the model; the check validates that the implementation's permutation is a decreasing-range order (perm_ok); the theorems hold for every permutation", 'Ok-results only: the theorems speak about steps where the model returns Ok (every Panic site of the model is an observable panic of the implementation and is reported as PROPFAIL by the check)', 'C12Ext/C13Ext: the `_f64` theorems are about the binary64 instance (Flocq; classical axioms of the Reals library); wildcard-mass theorems: matrix_okm (symbol frequencies sum to 1 - b_N, 0 <= b_N <= 1), for approximate_score additionally p <= (1 - b_N)^M', 'no-overflow theorems (C12_step_no_overflow, C13_step_no_overflow, ...): a stated bound on |cell| / g and |score| / g; outside it (|x| / g >= 2^52: integer rescaling inexact in binary64, >= 2^63: i64 overflow) the unchanged tree violates the property: known finding F35 huge-cell / huge-score (known_findings.d/tfm.json, corpus/C12/f35_huge_cell.txt)'],
)
