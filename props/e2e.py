"""e2e -- proof-only check of the cross-cutting group coq/e2e (logical name LME2E).

coq/e2e composes the per-property theorems of C05 (encode), C04 (stripe), C01 (score), C08 (disc),
C07 (maxi), C02/C03 (scan) into end-to-end statements about the whole scanning pipeline
(text -> encode -> stripe -> configure -> Scanner::new -> next()* / max()) and proves bridge lemmas
between the groups' hand-written models of the same Rust function.  There is no harness and no
driver: every model used here is tied to /repo by the check of the property that owns it.

A second property file, coq/e2e/E2EStat.v, composes the statistics side: C09 (counts -> frequencies -> weights ->
log-odds), C11 (MEME-style ScoreDistribution), C12 / C13 (TFM-PVALUE), C10 (reverse complement), C14 (a count
matrix through a JASPAR 2016 file) on one exact tail probability defined over C01's score_def, and joins it to the
scanning pipeline: thresholds obtained from a p-value by either method, handed to the binary32 scanner, select
exactly the positions whose exact tail brackets p up to explicit margins (binary32 summation error eps_f32,
discretisation dd / granularity d), and Scanner::max() returns the most significant position up to 2 eps_f32.
Its theorems are obligations of C09 / C11 / C12 / C13 in the thorough tier (STAT_EXTRA / obligations_stat).

    ./check e2e [--tier thorough]       ->  `OK group=e2e obligations=k/k ...` (exit 0)
                                            `FAIL group=e2e obligations=d/k ...` (exit 1)

For the per-property checks (C01, C02, C03, ...): `obligations()` returns
(ok, total, discharged, failures, axioms) so that the e2e theorems can be added to their own
obligation counts.  It builds coq/e2e and everything it imports (full .vo builds through
coq_makefile, `make -jN` with N = $VERIF_E2E_JOBS, default 6), scans all those sources for
forbidden constructs, and audits every Theorem/Lemma/Corollary of coq/e2e/E2E.v with
`Print Assumptions` against the allow-list of vlib.common.
"""
import json
import os
import re
import sys
import time

from vlib import common as C

GROUP = "e2e"
PROPS_FILE = "E2E.v"
MODULE = "LME2E.E2E"
JOBS = int(os.environ.get("VERIF_E2E_JOBS", "6"))

# which per-property theorems each end-to-end theorem composes (documentation + evidence)
COMPOSES = {
    "e2e_text_to_hits": ["C05_every_pipeline", "C05_accepts_exactly_alphabet", "C04_stripe_backend_independent",
                         "C04_stripe_generic_spec", "C04_configure_spec", "C02_concrete_scan_c08",
                         "C08 main clause (hypothesis c08_main_clause)", "score_def_bridge (C01's score_def)"],
    "e2e_text_to_hits_well_conditioned": ["e2e_text_to_hits", "C08_f32_main_well_conditioned_partial"],
    "e2e_text_to_hits_kernels": ["e2e_text_to_hits", "C08_avx2_eq_generic", "C07 dispatch_max_u8_ok",
                                 "C07 threshold_generic (dispatch_threshold)", "C01 score_position model"],
    "e2e_max": ["C03_concrete_max_c08", "the same chain as e2e_text_to_hits"],
    "e2e_max_well_conditioned": ["e2e_max", "C08_f32_main_well_conditioned_partial"],
    "e2e_max_after_prefix": ["C03_concrete_max_c08 (any k)"],
    "e2e_max_kernels_agree": ["kernel-parameterised max() = ScanModel.max_after", "C07 / C08 kernel theorems"],
    "e2e_kernels_agree_with_specs": ["C07_dispatch_u8 / C07_max_spec", "C08_avx2_eq_generic",
                                     "scan env_score_rows / env_score_position"],
    "e2e_revcomp_scan_reversed_sums": ["C10_revcomp_mirror_terms", "C10_revcomp_is_reversal_and_complement",
                                       "C10_complement_involutive", "e2e_syms_to_hits"],
    "e2e_revcomp_scan_partial": ["e2e_revcomp_scan_reversed_sums", "e2e_syms_to_hits"],
    "e2e_revcomp_scan_text_reversed_sums": ["encode_text_rc (C05 tables vs C10 complement table)", "e2e_text_to_hits"],
    "e2e_revcomp_scan_text_partial": ["e2e_revcomp_scan_text_reversed_sums", "e2e_text_to_hits"],
    "e2e_revcomp_scan_refuted": ["vm_compute witness"],
    "e2e_pipeline_history": ["C04_history_from_default", "C01_score_unstripe (through StripeBridge.striped_bridge)",
                             "C02_concrete_scan_c08", "C03_concrete_max_c08"],
    "e2e_scanner_equals_score_threshold": ["C01_history_backends", "e2e_pipeline_history"],
    "e2e_syms_to_hits": ["C04 + C02_concrete_scan_c08"],
}


COMPOSES_STAT = {
    "stat_bridge_tails": ["C11_tail_is_word_sum (tail_exact_cons)", "tfm wsum / Ptail", "C01 score_def on words"],
    "stat_chain_cells": ["C09_weight_cell", "C09_freq_cell", "abstract log2 (Hlog0, Hlogpos)"],
    "stat_motif_pipeline": ["stat_chain_cells", "C09_background_new_accepts_iff_exact (its right-hand side as hypothesis)",
                            "C11_build_total", "C11_pvalue_brackets_exact", "C12_pvalue_final_bounds", "stat_bridge_tails"],
    "stat_motif_pipeline_score": ["C13_approximate_score_bounds", "stat_bridge_tails"],
    "stat_threshold_scan_meme_link": ["C11_methods_total", "C11_score_pvalue_roundtrip", "C11_pvalue_brackets_exact",
                                         "E2E.e2e_text_to_hits (shape of the hit list)"],
    "stat_threshold_scan_tfm_link": ["C13_approximate_score_bounds", "E2E.e2e_text_to_hits (shape of the hit list)"],
    "stat_meme_score_minimal": ["dist bsearch / d_score / d_pvalue models (lower invariant of the binary search proved in "
                                "E2EStatMeme.v)", "C11_pvalue_brackets_exact", "sf_monotone_range_Q"],
    "stat_threshold_scan_meme": ["E2EProofs.text_to_hits (= e2e_text_to_hits_well_conditioned)", "C01_fsum_error_bound "
                                 "(fsum_error_tol, sums_finite_bound) transported to Q", "Flocq Bcompare_correct",
                                 "pwm f32_to_Q_B2R", "C11 round trip + brackets", "stat_meme_score_minimal",
                                 "GenAbc alphabet strings (NoDup by computation)"],
    "stat_threshold_scan_tfm": ["the same transport", "C13_approximate_score_bounds (both clauses)"],
    "stat_file_pipeline": ["stat_io_roundtrip", "stat_motif_pipeline"],
    "stat_threshold_scan_wildcards": ["E2EProofs.text_to_hits", "C01 neg_inf_absorbs + sums_finite_bound (a window with a wildcard "
                                      "scores -inf)", "the same transport for wildcard-free windows"],
    "stat_threshold_scan_meme_wildcards": ["stat_threshold_scan_wildcards", "C11 round trip + brackets (meme_threshold)"],
    "stat_threshold_scan_tfm_wildcards": ["stat_threshold_scan_wildcards", "C13_approximate_score_bounds (tfm_threshold)",
                                          "E2EStatScan.word_score_attain (a clean window is an attainable word of tfm)"],
    "stat_max_most_significant": ["E2EProofs.text_to_max (= e2e_max_well_conditioned)", "C01_fsum_error_bound transported to Q",
                                  "Flocq Bcompare_correct", "tail antitone (tfm Ptail_antitone through stat_bridge_tails)"],
    "stat_revcomp": ["C10_revcomp_is_reversal_and_complement", "dist tail_step_comm (tail_exact_cons)"],
    "stat_revcomp_pvalues": ["stat_revcomp", "C11_pvalue_brackets_exact"],
    "stat_io_roundtrip": ["C14 reader_roundtrip_jaspar16", "alphabets_wf", "GenIoAbc from_ascii tables (letters_ok by computation)"],
}

COMPOSES_PY = {
    "pycore_conf_total": ["C04_configure_spec (on a value that carries its Striped invariant)"],
    "pycore_conf_text": ["C04_configure_spec"],
    "pycore_conf_ok": ["C04_configure_spec (wrap' = max wrap (M-1))"],
    "pycore_score_text": ["StripeBridge.striped_bridge", "ScoreProofs.generic_score_striped / generic_score_short (C01)"],
    "pycore_scan_text": ["E2EProofs.e_env_c_env", "ConcreteProofs.env_R / env_Lm / env_score_position / env_score_rows / "
                         "env_cscore_spec / env_cdscore_spec (C02)", "E2EKernelScan.kcollect_eq (extensionality of collect)"],
    "pycore_scan_stable": ["pycore_scan_text", "C04_configure_spec"],
    "pycore_history_depends_on_text_only": ["C17.py_history_depends_on_text_only", "the five lemmas above"],
    "pycore_scanner_lazy_eq_eager": ["C17.py_scanner_lazy_eq_eager", "pycore_scan_stable"],
    "pycore_calculate_is_C01": ["C01_score_unstripe", "C04_configure_spec", "the glue model PyGlueModel.glue_calculate"],
    "pycore_scan_is_C02": ["E2EStretch.scan_buffer_spec (C02_concrete_scan_c08 + C08 main clause)", "PyGlueModel.glue_scan"],
    "pycore_guarded_fields_partial": ["C04_stripe_fresh_spec", "C04_configure_spec", "C01_score_unstripe", "scan_buffer_spec"],
    "pycore_guarded_partial": ["pycore_guarded_fields_partial", "hypothesis rest_total (the operations not instantiated)"],
    "pycore_call_no_panic_partial": ["C17.py_panic_only_from_core", "pycore_guarded_partial"],
}

TRUSTED_BASE = [
    "Coq 8.16.1 kernel (coqc, full .vo builds); vm_compute only in the Example lemmas of E2E.v",
    "the models of the composed groups are tied to /repo by THEIR checks (C01, C02, C03, C04, C05, C07, C08, C10); "
    "coq/e2e adds no model of Rust code except the assembly text of E2EPipeline.v (the order of the calls "
    "encode -> stripe_into -> configure -> Scanner::new -> next/max, and the kernel-parameterised copy "
    "knext_block/knext_loop/knext/kcollect of ScanModel.next_block/.., proved equal to the original)",
    "the Gen*.v files of the imported groups are regenerated from the current tree first (vlib.common.translate_deps)",
    "E2EStat.v: the models of coq/{pwm,dist,tfm,io} are tied to /repo by the checks of C09/C10, C11, C12/C13, C14",
    "E2EPyCore.v: the glue model coq/pyglue (PyGlueModel.v) is tied to lightmotif-py by the check of C17; E2EPyCoreDefs.v adds "
    "the assembly text of the instance (which model is plugged into which field of the core record, the guards outside the "
    "models' domain: CPanic for an ill-typed matrix, an empty matrix, fewer than M-1 look-ahead rows, block size 0) and an "
    "encoder by specification (symbol = index in the alphabet string)",
]

ASSUMPTIONS = [
    "numeric: property C08's main clause for the matrix (hypothesis c08_main_clause of e2e_text_to_hits / e2e_max), or, "
    "in the *_well_conditioned theorems, the executable predicate e2e_wc (finite non-wildcard cells, coq/disc's "
    "well_conditioned, <= 16384 rows, cond_A <= 2^126); ill-conditioned matrices (known finding F14) fail it",
    "the matrix has M >= 1 rows of exactly K cells with finite non-wildcard cells; block size >= 1",
    "kernel-level statements (e2e_text_to_hits_kernels, e2e_kernels_agree_with_specs (c)(d)): 32 columns, K <= 16 "
    "symbols (the Rust Scanner is an Iterator for Dna only), 16 <= K + padding bytes per discrete row",
    "statistics side (E2EStat.v): exact arithmetic (Q / Qc) for everything but the scanner; log2 is an abstract function with "
    "log2(0) = -inf and finite values on positive arguments; background with positive symbol frequencies and wildcard "
    "frequency 0 (the bridge dist = tfm needs it); M >= 2 rows for TFM-PVALUE; 1000*M < 2^31 for the MEME-style table",
    "stat_threshold_scan_meme / _tfm: text without the wildcard letter; matrix passes e2e_wc and the executable no_overflow "
    "(M <= 2^23, sum over rows of max |symbol cell| <= 2^126); the threshold given to the scanner is a finite binary32 number "
    "within eta of the exact threshold (eta is a parameter: the theorems do not model how `score(p) as f32` is rounded); "
    "the p-value tables are those of the binary32 matrix read as rationals, computed exactly (C11 / C13 are exact-arithmetic "
    "theorems; the binary64 tables of the code are tied to them by the replay of C11 / C12 / C13 with their tolerances)",
    "E2EPyCore.v (C17): values of the striped-sequence type carry their Striped invariant (C04) as ghost data; "
    "pycore_calculate_is_C01 / pycore_scan_is_C02 / pycore_guarded_fields_partial assume the typing premise `typed s q` (matrix "
    "rows have as many cells as the alphabet of the sequence - static in Rust, a label in the glue model); the scanner's value "
    "and totality statements assume finite non-wildcard cells and C08's main clause for the matrix; the history / lazy-scanner "
    "theorems (pycore_history_depends_on_text_only, pycore_scanner_lazy_eq_eager) assume nothing",
]


def _order():
    order = []

    def visit(g):
        for dep in C.coq_deps(g):
            visit(dep)
        if g not in order:
            order.append(g)
    visit(GROUP)
    return order


# groups of which coq/e2e needs only some files: the make targets to build instead of the whole group.  coq/pyglue: the model
# and lemma files that E2EPyCore.v imports -- NOT C17.v / GenPySig.v (regenerated from lightmotif-py by C17's translator; its tie
# theorems break, by design, when a signature of lightmotif-py changes: that must stay C17's report, never C01's or C09's)
MAKE_TARGETS = {"pyglue": "PyGlueProofs.vo PyGlueHistory.vo PyGlueLazyProofs.vo"}


def _make(group, timeout):
    d = C.coq_dir(group)
    with C.Lock("coq-" + group):
        mk = os.path.join(d, "Makefile")
        proj = os.path.join(d, "_CoqProject")
        if not os.path.exists(mk) or os.path.getmtime(mk) < os.path.getmtime(proj):
            C.sh("coq_makefile -f _CoqProject -o Makefile", cwd=d, check=True)
        return C.sh("make -j%d TIMED=0 %s 2>&1" % (JOBS, MAKE_TARGETS.get(group, "")), cwd=d, timeout=timeout)


def build(timeout=2400):
    """Full .vo build of coq/e2e and of every group it imports, dependencies first."""
    t0 = time.time()
    full = ""
    for g in _order():
        rc, out = _make(g, timeout)
        full += "== make coq/%s ==\n%s\n" % (g, out)
        if rc != 0:
            m = re.search(r'File "([^"]+)", line (\d+)', out)
            ffile = fline = fthm = None
            if m:
                ffile = m.group(1)
                if not os.path.isabs(ffile):
                    ffile = os.path.normpath(os.path.join(C.coq_dir(g), ffile))
                fline = int(m.group(2))
                fthm = C.enclosing_statement(ffile, fline)
            return dict(ok=False, log=full, failed_group=g, failed_file=ffile, failed_line=fline,
                        failed_theorem=fthm, wall=time.time() - t0)
    return dict(ok=True, log=full, wall=time.time() - t0)


# the two property-style files of the group: the scanning side and the statistics side
PROPS = {
    "scan": ("E2E.v", "LME2E.E2E"),
    "stat": ("E2EStat.v", "LME2E.E2EStat"),
    # C17 (added in round 3, wave 3): the `core` record of coq/pyglue instantiated with the stripe / score / scan models
    "py": ("E2EPyCore.v", "LME2E.E2EPyCore"),
    # C07 (added in round 3, wave 3 by group maxi): the padding clause of C07 composed with C01 -- from a striped
    # sequence and a scoring matrix with a -inf wildcard column to the answers of every arm (E2EPadding.v)
    "pad": ("E2EPadding.v", "LME2E.E2EPadding"),
}
ALL_KEYS = ["scan", "stat", "py", "pad"]


def theorems(which=None):
    """Theorem names of the property files (`which` in PROPS, or None for both, scan first)."""
    out = []
    for key in ([which] if which else ALL_KEYS):
        out.extend(C.theorems_of(os.path.join(C.coq_dir(GROUP), PROPS[key][0])))
    return out


# translators of imported groups that vlib.common.GROUP_TRANSLATORS does not list (added after it was
# written): without them the composition would be built on whatever Gen*.v the last run of the owning check
# left on disk (possibly against another tree).  module -> group
EXTRA_TRANSLATORS = {"translate.scan_skel": "scan", "translate.dist_skel": "dist", "translate.io_abc": "io"}


def _extra_translate():
    """Regenerate GenScan.v / GenDist.v / GenIoAbc.v from the current tree.  A translator that fails or raises
    is a note here (the owning property's check reports it as its own broken obligation); a changed Gen file
    is then picked up by the build below."""
    import importlib
    notes = []
    deps = set(_order())
    for modname, g in sorted(EXTRA_TRANSLATORS.items()):
        if g not in deps or g in getattr(C, "GROUP_TRANSLATORS", {}):
            continue
        try:
            with C.Lock("coq-" + g):
                r = importlib.import_module(modname).translate()
            if not r.get("ok", True):
                notes.append("translator of imported group %s: %s" % (g, "; ".join(r.get("errors", ["failed"]))))
        except Exception as e:
            notes.append("translator of imported group %s raised %r" % (g, e))
    return notes


AUDIT_WORKERS = int(os.environ.get("VERIF_E2E_AUDIT_JOBS", "4"))


def _audit_chunk(tag, module, thms, timeout):
    """One coqc process printing the assumptions of `thms` (same output format and parser as
    vlib.common.audit_theorems, but its own source file so that chunks can run concurrently)."""
    d = os.path.join(C.BUILD, "audit")
    os.makedirs(d, exist_ok=True)
    src = os.path.join(d, "Audit_%s.v" % tag)
    body = "Require Import %s.\n" % module
    for t in thms:
        body += 'Goal True. idtac "@@BEGIN %s". Abort.\nPrint Assumptions %s.\nGoal True. idtac "@@END %s". Abort.\n' % (t, t, t)
    open(src, "w").write(body)
    rc, out = C.sh("coqc -noglob %s %s" % (" ".join(C.qargs_for(GROUP)), src), cwd=d, timeout=timeout)
    res = {}
    for t in thms:
        m = re.search(r"@@BEGIN %s\n(.*?)@@END %s" % (re.escape(t), re.escape(t)), out, re.S)
        if not m:
            res[t] = None
            continue
        txt = m.group(1)
        if "Closed under the global context" in txt:
            res[t] = []
            continue
        res[t] = _axiom_names(txt)
    return res


def _axiom_names(txt):
    """Names listed by `Print Assumptions`: every line starting in column 0 with a qualified identifier followed
    by ':' or by the end of the line (Coq prints `name : type`, or `name` alone and `  : type` on the next
    line when the type is long -- the second form is missed by a `name\\s*:` pattern)."""
    axs = []
    for l in txt.splitlines():
        mm = re.match(r"^([\w.']+)\s*(:|$)", l)
        if mm and mm.group(1) not in ("Axioms", "Fetching", "Opaque", "Transparent", "Section"):
            axs.append(mm.group(1))
    return axs


def _audit_all(tag, module, thms, timeout):
    """FAST PATH: one `Print Assumptions` of the tuple of all theorems of a property file (the dependency graph is
    walked once: 4 s instead of 45 s).  Returns the list of axioms of the tuple (= the union over the theorems), or
    None when the file does not compile (a theorem is missing) or the output cannot be parsed."""
    d = os.path.join(C.BUILD, "audit")
    os.makedirs(d, exist_ok=True)
    src = os.path.join(d, "AuditAll_%s.v" % tag)
    body = "Require Import %s.\nDefinition audit_all := (%s).\n" % (module, ", ".join("@" + t for t in thms))
    body += 'Goal True. idtac "@@BEGIN ALL". Abort.\nPrint Assumptions audit_all.\nGoal True. idtac "@@END ALL". Abort.\n'
    open(src, "w").write(body)
    rc, out = C.sh("coqc -noglob %s %s" % (" ".join(C.qargs_for(GROUP)), src), cwd=d, timeout=timeout)
    m = re.search(r"@@BEGIN ALL\n(.*?)@@END ALL", out, re.S)
    if rc != 0 or not m:
        return None
    txt = m.group(1)
    if "Closed under the global context" in txt:
        return []
    if "Axioms:" not in txt:
        return None
    return _axiom_names(txt)


def _audit_parallel(per_file, timeout):
    """module -> {theorem -> axioms | None}.  `Print Assumptions` walks the whole proof term of every
    theorem (40 s for E2E.v alone), so the theorems of each property file are dealt round-robin into
    chunks, at most AUDIT_WORKERS coqc processes in total, run concurrently."""
    from concurrent.futures import ThreadPoolExecutor
    # fast path: the tuple of all theorems of each file; accepted only when every axiom it lists is allow-listed
    # (then every theorem's axioms are a subset of an allowed set).  Anything else -- a missing theorem, a
    # non-allowed axiom, unparsable output -- falls through to the per-theorem audit below, which attributes it.
    if os.environ.get("VERIF_E2E_AUDIT_FAST", "1") != "0":
        with ThreadPoolExecutor(max_workers=AUDIT_WORKERS) as ex:
            futs = [(module, thms, ex.submit(_audit_all, module.replace(".", "_"), module, thms, timeout))
                    for _f, module, thms in per_file]
            fast = [(module, thms, fu.result()) for module, thms, fu in futs]
        if all(ax is not None and all(C.axiom_ok(a) or C.is_primitive(a) for a in ax) for _m, _t, ax in fast):
            return {module: {t: list(ax) for t in thms} for module, thms, ax in fast}
    total = sum(len(t) for _, _, t in per_file) or 1
    jobs = []
    for _f, module, thms in per_file:
        n = max(1, min(len(thms), round(AUDIT_WORKERS * len(thms) / total)))
        for k in range(n):
            chunk = thms[k::n]
            if chunk:
                jobs.append(("%s_%d" % (module.replace(".", "_"), k), module, chunk))
    out = {module: {} for _f, module, _t in per_file}
    with ThreadPoolExecutor(max_workers=AUDIT_WORKERS) as ex:
        futs = [(module, ex.submit(_audit_chunk, tag, module, chunk, timeout)) for tag, module, chunk in jobs]
        for module, fu in futs:
            out[module].update(fu.result())
    return out


def obligations(timeout=2400, audit_timeout=1200, which=None):
    """(ok, total, discharged, failures, axioms): build + forbidden-construct scan + Print Assumptions
    audit of every theorem of coq/e2e/E2E.v AND coq/e2e/E2EStat.v (`which` = "scan" / "stat" restricts
    the audit to one of them; the build and the scan always cover the whole group).  `failures` is a
    list of strings naming what broke (empty iff ok); `axioms` the allow-listed standard-library
    axioms the theorems depend on."""
    keys = [which] if which else ALL_KEYS
    per_file = [(PROPS[k][0], PROPS[k][1], C.theorems_of(os.path.join(C.coq_dir(GROUP), PROPS[k][0]))) for k in keys]
    total = sum(len(t) for _, _, t in per_file)
    failures = []
    axioms = set()
    discharged = 0
    C.translate_deps(GROUP)
    _extra_translate()
    for f, _, t in per_file:
        if not t:
            failures.append("no theorem found in coq/e2e/%s" % f)
    if failures:
        return False, total, 0, failures, []
    forb = C.forbidden_scan(_order())
    if forb:
        failures.append("forbidden constructs: " + "; ".join(forb[:5]))
    b = build(timeout)
    if not b["ok"]:
        os.makedirs(C.BUILD, exist_ok=True)
        open(os.path.join(C.BUILD, "coq-e2e.log"), "w").write(b["log"])
        failures.append("coq build failed in coq/%s: %s line %s (%s)" % (
            b.get("failed_group"), b.get("failed_file"), b.get("failed_line"), b.get("failed_theorem")))
        return False, total, 0, failures, []
    audited = _audit_parallel(per_file, audit_timeout)
    for f, module, thms in per_file:
        res = audited[module]
        for t in thms:
            ax = res.get(t)
            if ax is None:
                failures.append("theorem %s.%s not found by the audit" % (module, t))
                continue
            bad = [a for a in ax if not C.axiom_ok(a) and not C.is_primitive(a)]
            if bad:
                failures.append("theorem %s depends on non-allowed axioms %s" % (t, bad))
                continue
            axioms.update(a for a in ax if C.axiom_ok(a))
            discharged += 1
    ok = not failures and discharged == total
    return ok, total, discharged, failures, sorted(axioms)


def obligations_scan(timeout=2400, audit_timeout=1200):
    """The scanning side only (coq/e2e/E2E.v): for C01 / C02 / C03."""
    return obligations(timeout, audit_timeout, which="scan")


def obligations_stat(timeout=2400, audit_timeout=1200):
    """The statistics side only (coq/e2e/E2EStat.v): for C09 / C11 / C12 / C13."""
    return obligations(timeout, audit_timeout, which="stat")


def obligations_py(timeout=2400, audit_timeout=1200):
    """The instance of the Python glue's core record only (coq/e2e/E2EPyCore.v): for C17."""
    return obligations(timeout, audit_timeout, which="py")


# what C17 merges into its SPEC:   SPEC = dict(..., **e2e.PY_EXTRA)
PY_EXTRA = dict(
    extra_obligations={"thorough": obligations_py},
    extra_obligations_name="coq/e2e/E2EPyCore.v: the core record of the glue model instantiated with the models of C04 (stripe, "
                           "configure), C01 (scoring pipeline) and C02 (concrete Scanner); the five history hypotheses and "
                           "scan_stable discharged",
    extra_obligations_cmd="make -C coq/e2e (and imported groups) + Print Assumptions audit of LME2E.E2EPyCore",
)


# what a statistics property (C09 / C11 / C12 / C13) merges into its SPEC to count the theorems of
# coq/e2e/E2EStat.v as obligations of its thorough tier:   SPEC = dict(..., **e2e.STAT_EXTRA)
STAT_EXTRA = dict(
    extra_obligations={"thorough": obligations_stat},
    extra_obligations_name="coq/e2e/E2EStat.v: composition of C09 (conversion chain), C11 / C12 / C13 (both p-value methods "
                           "on one exact tail), C10, C14 (counts through a file) and the scanning pipeline of E2E.v",
    extra_obligations_cmd="make -C coq/e2e (and imported groups) + Print Assumptions audit of LME2E.E2EStat",
)


def obligations_pad(timeout=2400, audit_timeout=1200):
    """The padding clause of C07 composed with C01 only (coq/e2e/E2EPadding.v): for C07."""
    return obligations(timeout, audit_timeout, which="pad")


# what C07 merges into its SPEC (thorough tier):   SPEC = dict(..., **e2e.PAD_EXTRA)
PAD_EXTRA = dict(
    extra_obligations={"thorough": obligations_pad},
    extra_obligations_name="coq/e2e/E2EPadding.v: the padding clause of C07 composed with C01 -- from a configured striped "
                           "sequence and a scoring matrix with a -inf wildcard column to the score matrix of every scoring "
                           "backend and the max / argmax / threshold of every arm; witness that the wildcard-padding "
                           "premise is needed",
    extra_obligations_cmd="make -C coq/e2e (and imported groups) + Print Assumptions audit of LME2E.E2EPadding",
)


def _translators():
    """Regenerate the Gen*.v files the composed groups depend on (what their own checks do first)."""
    errs = []
    import importlib
    for pid in ("c04", "c01", "c07", "c05"):
        try:
            mod = importlib.import_module("props." + pid)
            spec = getattr(mod, "SPEC", None)
            tr = spec.get("translate") if spec else None
            if tr:
                r = tr()
                if not r.get("ok", True):
                    errs.append("%s translator: %s" % (pid.upper(), "; ".join(r.get("errors", ["failed"]))))
        except Exception as e:  # a source the translator can no longer parse
            errs.append("%s translator raised %r" % (pid.upper(), e))
    return errs


def main(tier="quick", seed=1, replay=None):
    t0 = time.time()
    notes = []
    failures = []
    # regenerate the Gen*.v files of the imported groups from the current tree (vlib.common.translate_deps),
    # so that what is built never depends on what an earlier run against another tree left on disk
    notes.extend(C.translate_deps(GROUP))
    notes.extend(_extra_translate())
    ok, total, discharged, fl, axioms = obligations()
    failures.extend(fl)
    if ok and tier == "thorough" and os.environ.get("VERIF_E2E_COQCHK", "1") != "0":
        for _f, module in PROPS.values():
            try:
                ck = C.coqchk(GROUP, module, timeout=3000)
                if not ck["ok"]:
                    failures.append("coqchk rejected %s: %s" % (module, ck["tail"][-400:]))
                else:
                    bad = [a for a in ck["axioms"] if not C.axiom_ok(a.split()[0]) and not C.is_primitive(a.split()[0])]
                    if bad:
                        failures.append("coqchk reports non-allowed axioms in the context of %s: %s" % (module, bad[:5]))
                    notes.append("coqchk -o %s: ok" % module)
            except Exception as e:
                notes.append("coqchk of %s not completed: %r" % (module, e))
    wall = time.time() - t0
    ev = dict(group=GROUP, modules=[m for _f, m in PROPS.values()], level="proof", tier=tier, obligations=total, discharged=discharged,
              theorems=theorems(), composes=dict(COMPOSES, **COMPOSES_STAT, **COMPOSES_PY), axioms=axioms, failures=failures, notes=notes,
              trusted_base=TRUSTED_BASE, assumptions=ASSUMPTIONS, wall_s=round(wall, 1),
              checker_cmd="make -C coq/e2e (and the groups it imports; coq_makefile, coqc 8.16.1 full .vo build) "
                          "+ coqc Print Assumptions audit of LME2E.E2E, LME2E.E2EStat and LME2E.E2EPyCore")
    try:
        os.makedirs(C.BUILD, exist_ok=True)
        json.dump(ev, open(os.path.join(C.BUILD, "e2e-evidence.json"), "w"), indent=1)
    except OSError:
        pass
    if failures or discharged != total:
        print("FAIL group=e2e obligations=%d/%d wall=%.0fs" % (discharged, total, wall))
        for f in failures:
            print("  broken: " + f)
        return 1
    print("OK group=e2e obligations=%d/%d axioms=%s wall=%.0fs" % (
        discharged, total, ",".join(axioms) or "<none>", wall))
    for n in notes:
        print("  note: " + n)
    return 0


if __name__ == "__main__":
    sys.path.insert(0, os.path.dirname(os.path.dirname(os.path.abspath(__file__))))
    sys.exit(main(os.environ.get("VERIF_TIER", "quick")))
