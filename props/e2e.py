"""e2e -- proof-only check of the cross-cutting group coq/e2e (logical name LME2E).

coq/e2e composes the per-property theorems of C05 (encode), C04 (stripe), C01 (score), C08 (disc),
C07 (maxi), C02/C03 (scan) into end-to-end statements about the whole scanning pipeline
(text -> encode -> stripe -> configure -> Scanner::new -> next()* / max()) and proves bridge lemmas
between the groups' hand-written models of the same Rust function.  There is no harness and no
driver: every model used here is tied to /repo by the check of the property that owns it.

    ./check e2e [--tier thorough]       ->  `OK group=e2e obligations=k/k ...` (exit 0)
                                            `FAIL group=e2e obligations=d/k ...` (exit 1)

For the per-property checks (C01, C02, C03, ...): `obligations()` returns
(ok, total, discharged, failures, axioms) so that the e2e theorems can be added to their own
obligation counts.  It builds coq/e2e and everything it imports (full .vo builds through
coq_makefile, `make -jN` with N = $VERIF_E2E_JOBS, default 6), scans all those sources for
forbidden constructs, and audits every Theorem/Lemma/Corollary of coq/e2e/E2E.v with
`Print Assumptions` against the allow-list of vlib.common.
"""
import json
import os
import re
import sys
import time

from vlib import common as C

GROUP = "e2e"
PROPS_FILE = "E2E.v"
MODULE = "LME2E.E2E"
JOBS = int(os.environ.get("VERIF_E2E_JOBS", "6"))

# which per-property theorems each end-to-end theorem composes (documentation + evidence)
COMPOSES = {
    "e2e_text_to_hits": ["C05_every_pipeline", "C05_accepts_exactly_alphabet", "C04_stripe_backend_independent",
                         "C04_stripe_generic_spec", "C04_configure_spec", "C02_concrete_scan_c08",
                         "C08 main clause (hypothesis c08_main_clause)", "score_def_bridge (C01's score_def)"],
    "e2e_text_to_hits_well_conditioned": ["e2e_text_to_hits", "C08_f32_main_well_conditioned_partial"],
    "e2e_text_to_hits_kernels": ["e2e_text_to_hits", "C08_avx2_eq_generic", "C07 dispatch_max_u8_ok",
                                 "C07 threshold_generic (dispatch_threshold)", "C01 score_position model"],
    "e2e_max": ["C03_concrete_max_c08", "the same chain as e2e_text_to_hits"],
    "e2e_max_well_conditioned": ["e2e_max", "C08_f32_main_well_conditioned_partial"],
    "e2e_max_after_prefix": ["C03_concrete_max_c08 (any k)"],
    "e2e_max_kernels_agree": ["kernel-parameterised max() = ScanModel.max_after", "C07 / C08 kernel theorems"],
    "e2e_kernels_agree_with_specs": ["C07_dispatch_u8 / C07_max_spec", "C08_avx2_eq_generic",
                                     "scan env_score_rows / env_score_position"],
    "e2e_revcomp_scan_reversed_sums": ["C10_revcomp_mirror_terms", "C10_revcomp_is_reversal_and_complement",
                                       "C10_complement_involutive", "e2e_syms_to_hits"],
    "e2e_revcomp_scan_partial": ["e2e_revcomp_scan_reversed_sums", "e2e_syms_to_hits"],
    "e2e_revcomp_scan_text_reversed_sums": ["encode_text_rc (C05 tables vs C10 complement table)", "e2e_text_to_hits"],
    "e2e_revcomp_scan_text_partial": ["e2e_revcomp_scan_text_reversed_sums", "e2e_text_to_hits"],
    "e2e_revcomp_scan_refuted": ["vm_compute witness"],
    "e2e_pipeline_history": ["C04_history_from_default", "C01_score_unstripe (through StripeBridge.striped_bridge)",
                             "C02_concrete_scan_c08", "C03_concrete_max_c08"],
    "e2e_scanner_equals_score_threshold": ["C01_history_backends", "e2e_pipeline_history"],
    "e2e_syms_to_hits": ["C04 + C02_concrete_scan_c08"],
}


COMPOSES_STAT = {
    "stat_bridge_tails": ["C11_tail_is_word_sum (tail_exact_cons)", "tfm wsum / Ptail", "C01 score_def on words"],
    "stat_chain_cells": ["C09_weight_cell", "C09_freq_cell", "abstract log2 (Hlog0, Hlogpos)"],
    "stat_motif_pipeline": ["stat_chain_cells", "C09_background_new_accepts_iff_exact (its right-hand side as hypothesis)",
                            "C11_build_total", "C11_pvalue_brackets_exact", "C12_pvalue_final_bounds", "stat_bridge_tails"],
    "stat_motif_pipeline_score": ["C13_approximate_score_bounds", "stat_bridge_tails"],
    "stat_threshold_scan_meme_partial": ["C11_methods_total", "C11_score_pvalue_roundtrip", "C11_pvalue_brackets_exact",
                                         "E2E.e2e_text_to_hits (shape of the hit list)"],
    "stat_threshold_scan_tfm_partial": ["C13_approximate_score_bounds", "E2E.e2e_text_to_hits (shape of the hit list)"],
    "stat_revcomp": ["C10_revcomp_is_reversal_and_complement", "dist tail_step_comm (tail_exact_cons)"],
    "stat_revcomp_pvalues": ["stat_revcomp", "C11_pvalue_brackets_exact"],
    "stat_io_roundtrip": ["C14 reader_roundtrip_jaspar16", "alphabets_wf"],
}

TRUSTED_BASE = [
    "Coq 8.16.1 kernel (coqc, full .vo builds); vm_compute only in the Example lemmas of E2E.v",
    "the models of the composed groups are tied to /repo by THEIR checks (C01, C02, C03, C04, C05, C07, C08, C10); "
    "coq/e2e adds no model of Rust code except the assembly text of E2EPipeline.v (the order of the calls "
    "encode -> stripe_into -> configure -> Scanner::new -> next/max, and the kernel-parameterised copy "
    "knext_block/knext_loop/knext/kcollect of ScanModel.next_block/.., proved equal to the original)",
    "the Gen*.v files of coq/{stripe,score,maxi,encode} are taken as found on disk (regenerated by ./check C04/C01/C07/C05)",
]

ASSUMPTIONS = [
    "numeric: property C08's main clause for the matrix (hypothesis c08_main_clause of e2e_text_to_hits / e2e_max), or, "
    "in the *_well_conditioned theorems, the executable predicate e2e_wc (finite non-wildcard cells, coq/disc's "
    "well_conditioned, <= 16384 rows, cond_A <= 2^126); ill-conditioned matrices (known finding F14) fail it",
    "the matrix has M >= 1 rows of exactly K cells with finite non-wildcard cells; block size >= 1",
    "kernel-level statements (e2e_text_to_hits_kernels, e2e_kernels_agree_with_specs (c)(d)): 32 columns, K <= 16 "
    "symbols (the Rust Scanner is an Iterator for Dna only), 16 <= K + padding bytes per discrete row",
]


def _order():
    order = []

    def visit(g):
        for dep in C.coq_deps(g):
            visit(dep)
        if g not in order:
            order.append(g)
    visit(GROUP)
    return order


def _make(group, timeout):
    d = C.coq_dir(group)
    with C.Lock("coq-" + group):
        mk = os.path.join(d, "Makefile")
        proj = os.path.join(d, "_CoqProject")
        if not os.path.exists(mk) or os.path.getmtime(mk) < os.path.getmtime(proj):
            C.sh("coq_makefile -f _CoqProject -o Makefile", cwd=d, check=True)
        return C.sh("make -j%d TIMED=0 2>&1" % JOBS, cwd=d, timeout=timeout)


def build(timeout=2400):
    """Full .vo build of coq/e2e and of every group it imports, dependencies first."""
    t0 = time.time()
    full = ""
    for g in _order():
        rc, out = _make(g, timeout)
        full += "== make coq/%s ==\n%s\n" % (g, out)
        if rc != 0:
            m = re.search(r'File "([^"]+)", line (\d+)', out)
            ffile = fline = fthm = None
            if m:
                ffile = m.group(1)
                if not os.path.isabs(ffile):
                    ffile = os.path.normpath(os.path.join(C.coq_dir(g), ffile))
                fline = int(m.group(2))
                fthm = C.enclosing_statement(ffile, fline)
            return dict(ok=False, log=full, failed_group=g, failed_file=ffile, failed_line=fline,
                        failed_theorem=fthm, wall=time.time() - t0)
    return dict(ok=True, log=full, wall=time.time() - t0)


# the two property-style files of the group: the scanning side and the statistics side
PROPS = {
    "scan": ("E2E.v", "LME2E.E2E"),
    "stat": ("E2EStat.v", "LME2E.E2EStat"),
}


def theorems(which=None):
    """Theorem names of the property files (`which` in PROPS, or None for both, scan first)."""
    out = []
    for key in ([which] if which else ["scan", "stat"]):
        out.extend(C.theorems_of(os.path.join(C.coq_dir(GROUP), PROPS[key][0])))
    return out


def obligations(timeout=2400, audit_timeout=1200, which=None):
    """(ok, total, discharged, failures, axioms): build + forbidden-construct scan + Print Assumptions
    audit of every theorem of coq/e2e/E2E.v AND coq/e2e/E2EStat.v (`which` = "scan" / "stat" restricts
    the audit to one of them; the build and the scan always cover the whole group).  `failures` is a
    list of strings naming what broke (empty iff ok); `axioms` the allow-listed standard-library
    axioms the theorems depend on."""
    keys = [which] if which else ["scan", "stat"]
    per_file = [(PROPS[k][0], PROPS[k][1], C.theorems_of(os.path.join(C.coq_dir(GROUP), PROPS[k][0]))) for k in keys]
    total = sum(len(t) for _, _, t in per_file)
    failures = []
    axioms = set()
    discharged = 0
    C.translate_deps(GROUP)
    for f, _, t in per_file:
        if not t:
            failures.append("no theorem found in coq/e2e/%s" % f)
    if failures:
        return False, total, 0, failures, []
    forb = C.forbidden_scan(_order())
    if forb:
        failures.append("forbidden constructs: " + "; ".join(forb[:5]))
    b = build(timeout)
    if not b["ok"]:
        os.makedirs(C.BUILD, exist_ok=True)
        open(os.path.join(C.BUILD, "coq-e2e.log"), "w").write(b["log"])
        failures.append("coq build failed in coq/%s: %s line %s (%s)" % (
            b.get("failed_group"), b.get("failed_file"), b.get("failed_line"), b.get("failed_theorem")))
        return False, total, 0, failures, []
    for f, module, thms in per_file:
        res, out = C.audit_theorems(GROUP, module, thms, timeout=audit_timeout)
        for t in thms:
            ax = res.get(t)
            if ax is None:
                failures.append("theorem %s.%s not found by the audit" % (module, t))
                continue
            bad = [a for a in ax if not C.axiom_ok(a) and not C.is_primitive(a)]
            if bad:
                failures.append("theorem %s depends on non-allowed axioms %s" % (t, bad))
                continue
            axioms.update(a for a in ax if C.axiom_ok(a))
            discharged += 1
    ok = not failures and discharged == total
    return ok, total, discharged, failures, sorted(axioms)


def obligations_scan(timeout=2400, audit_timeout=1200):
    """The scanning side only (coq/e2e/E2E.v): for C01 / C02 / C03."""
    return obligations(timeout, audit_timeout, which="scan")


def obligations_stat(timeout=2400, audit_timeout=1200):
    """The statistics side only (coq/e2e/E2EStat.v): for C09 / C11 / C12 / C13."""
    return obligations(timeout, audit_timeout, which="stat")


def _translators():
    """Regenerate the Gen*.v files the composed groups depend on (what their own checks do first)."""
    errs = []
    import importlib
    for pid in ("c04", "c01", "c07", "c05"):
        try:
            mod = importlib.import_module("props." + pid)
            spec = getattr(mod, "SPEC", None)
            tr = spec.get("translate") if spec else None
            if tr:
                r = tr()
                if not r.get("ok", True):
                    errs.append("%s translator: %s" % (pid.upper(), "; ".join(r.get("errors", ["failed"]))))
        except Exception as e:  # a source the translator can no longer parse
            errs.append("%s translator raised %r" % (pid.upper(), e))
    return errs


def main(tier="quick", seed=1, replay=None):
    t0 = time.time()
    notes = []
    failures = []
    # regenerate the Gen*.v files of the imported groups from the current tree (vlib.common.translate_deps),
    # so that what is built never depends on what an earlier run against another tree left on disk
    notes.extend(C.translate_deps(GROUP))
    ok, total, discharged, fl, axioms = obligations()
    failures.extend(fl)
    if ok and tier == "thorough" and os.environ.get("VERIF_E2E_COQCHK", "1") != "0":
        for _f, module in PROPS.values():
            try:
                ck = C.coqchk(GROUP, module, timeout=3000)
                if not ck["ok"]:
                    failures.append("coqchk rejected %s: %s" % (module, ck["tail"][-400:]))
                else:
                    bad = [a for a in ck["axioms"] if not C.axiom_ok(a.split()[0]) and not C.is_primitive(a.split()[0])]
                    if bad:
                        failures.append("coqchk reports non-allowed axioms in the context of %s: %s" % (module, bad[:5]))
                    notes.append("coqchk -o %s: ok" % module)
            except Exception as e:
                notes.append("coqchk of %s not completed: %r" % (module, e))
    wall = time.time() - t0
    ev = dict(group=GROUP, modules=[m for _f, m in PROPS.values()], level="proof", tier=tier, obligations=total, discharged=discharged,
              theorems=theorems(), composes=dict(COMPOSES, **COMPOSES_STAT), axioms=axioms, failures=failures, notes=notes,
              trusted_base=TRUSTED_BASE, assumptions=ASSUMPTIONS, wall_s=round(wall, 1),
              checker_cmd="make -C coq/e2e (and the groups it imports; coq_makefile, coqc 8.16.1 full .vo build) "
                          "+ coqc Print Assumptions audit of LME2E.E2E and LME2E.E2EStat")
    try:
        os.makedirs(C.BUILD, exist_ok=True)
        json.dump(ev, open(os.path.join(C.BUILD, "e2e-evidence.json"), "w"), indent=1)
    except OSError:
        pass
    if failures or discharged != total:
        print("FAIL group=e2e obligations=%d/%d wall=%.0fs" % (discharged, total, wall))
        for f in failures:
            print("  broken: " + f)
        return 1
    print("OK group=e2e obligations=%d/%d axioms=%s wall=%.0fs" % (
        discharged, total, ",".join(axioms) or "<none>", wall))
    for n in notes:
        print("  note: " + n)
    return 0


if __name__ == "__main__":
    sys.path.insert(0, os.path.dirname(os.path.dirname(os.path.abspath(__file__))))
    sys.exit(main(os.environ.get("VERIF_TIER", "quick")))
