"""C06 — no safe API call reads or writes outside the memory it owns (PARTIAL: footprint model).

Flow (main): build the harness a second time with AddressSanitizer (nightly,
`-Zsanitizer=address --cfg lm_asan`, own target dir), hand its path to the harness'
`run` orchestrator through LM_FP_ASAN_BIN, then the generic flow of vlib/runner.py.
`footprint run` executes every case in two child processes (ASan build, plain debug
build); a child that dies (ASan report, signal) is restarted and the death is blamed on
the case (and op) it had begun, so a memory error is one PROPFAIL with a replay, never
a crash of the check.
"""
import os
import re
import time

from translate import footprint_exec, footprint_src
from vlib import common as C
from vlib import runner

ASAN_TARGET = os.path.join(C.BUILD, "cargo-asan") if C.ALT is None else os.path.join(C.BUILD, C.ALT, "cargo-asan")
ASAN_TRIPLE = "x86_64-unknown-linux-gnu"
ASAN_BIN = os.path.join(ASAN_TARGET, ASAN_TRIPLE, "debug", "footprint")
ASAN_REL_BIN = os.path.join(ASAN_TARGET, ASAN_TRIPLE, "release", "footprint")
ASAN_CMD = ("RUSTFLAGS='-Zsanitizer=address --cfg lm_asan' cargo +nightly build --offline --target %s "
            "--target-dir %s --bin footprint [--release]" % (ASAN_TRIPLE, ASAN_TARGET))

MSAN_TARGET = os.path.join(C.BUILD, "cargo-msan") if C.ALT is None else os.path.join(C.BUILD, C.ALT, "cargo-msan")
MSAN_BIN = os.path.join(MSAN_TARGET, ASAN_TRIPLE, "debug", "footprint")
MSAN_CMD = ("RUSTFLAGS='-Zsanitizer=memory --cfg lm_msan' cargo +nightly build -Zbuild-std --offline --target %s "
            "--target-dir %s --bin footprint" % (ASAN_TRIPLE, MSAN_TARGET))

# plain build at opt-level 0 (the guard-page children): harness/Cargo.toml has opt-level 1 for the dev profile, and
# the optimiser deletes loads whose value is never used (seeded change C06/5: a software-pipelined kernel fetching
# one row too many is invisible at opt-level >= 1); the profile is overridden through the environment, own target dir
O0_TARGET = os.path.join(C.BUILD, "cargo-o0") if C.ALT is None else os.path.join(C.BUILD, C.ALT, "cargo-o0")
O0_BIN = os.path.join(O0_TARGET, "debug", "footprint")
O0_CMD = "CARGO_PROFILE_DEV_OPT_LEVEL=0 cargo build --offline --target-dir %s --bin footprint" % O0_TARGET

_state = {"asan": None, "msan": None, "o0": None}


def build_o0(timeout=1800):
    """Plain (uninstrumented, guard-page allocator) build of the harness and the library at opt-level 0."""
    if _state["o0"] is not None:
        return _state["o0"]
    t0 = time.time()
    hb = C.build_harness("footprint")
    if not hb["ok"]:
        _state["o0"] = dict(ok=False, log="plain harness build failed:\n" + hb["log"][-3000:], path=O0_BIN, wall=0)
        return _state["o0"]
    env = dict(C.ENV)
    env.pop("CARGO_TARGET_DIR", None)
    env["CARGO_PROFILE_DEV_OPT_LEVEL"] = "0"
    cmd = "cargo build --offline --target-dir %s --bin footprint" % O0_TARGET
    with C.Lock("cargo-o0" if C.ALT is None else "cargo-o0-" + C.ALT):
        rc, out = C.sh(cmd, cwd=C.harness_dir(), timeout=timeout, env=env)
    ok = rc == 0 and os.path.exists(O0_BIN)
    _state["o0"] = dict(ok=ok, log=out, path=O0_BIN, wall=time.time() - t0)
    return _state["o0"]


def build_msan(timeout=2400):
    """Third instrumented build: MemorySanitizer (initialisation tracking) with an instrumented std
    (-Zbuild-std: nightly + rust-src, works offline)."""
    if _state["msan"] is not None:
        return _state["msan"]
    t0 = time.time()
    env = dict(C.ENV)
    env.pop("CARGO_TARGET_DIR", None)
    env["RUSTFLAGS"] = "-Zsanitizer=memory --cfg lm_msan"
    cmd = "cargo +nightly build -Zbuild-std --offline --target %s --target-dir %s --bin footprint" % (ASAN_TRIPLE, MSAN_TARGET)
    with C.Lock("cargo-msan" if C.ALT is None else "cargo-msan-" + C.ALT):
        rc, out = C.sh(cmd, cwd=C.harness_dir(), timeout=timeout, env=env)
    ok = rc == 0 and os.path.exists(MSAN_BIN)
    _state["msan"] = dict(ok=ok, log=out, path=MSAN_BIN, wall=time.time() - t0)
    return _state["msan"]


def build_asan(timeout=1800):
    """Second build of the harness binary, instrumented with AddressSanitizer."""
    if _state["asan"] is not None:
        return _state["asan"]
    t0 = time.time()
    # the plain build first: it also puts Cargo.lock in place (and copies the crate for VERIF_REPO runs)
    hb = C.build_harness("footprint")
    if not hb["ok"]:
        _state["asan"] = dict(ok=False, log="plain harness build failed:\n" + hb["log"][-3000:], path=ASAN_BIN, wall=0)
        return _state["asan"]
    env = dict(C.ENV)
    env.pop("CARGO_TARGET_DIR", None)
    env["RUSTFLAGS"] = "-Zsanitizer=address --cfg lm_asan"
    cmd = "cargo +nightly build --offline --target %s --target-dir %s --bin footprint" % (ASAN_TRIPLE, ASAN_TARGET)
    # the dev-profile sanitizer build is made at opt-level 0 (every load of the source is executed and
    # instrumented: dead loads into poisoned spare capacity are reports); the optimised code is the --release build
    env0 = dict(env)
    env0["CARGO_PROFILE_DEV_OPT_LEVEL"] = "0"
    with C.Lock("cargo-asan" if C.ALT is None else "cargo-asan-" + C.ALT):
        rc, out = C.sh(cmd, cwd=C.harness_dir(), timeout=timeout, env=env0)
        # ... and once more in release mode (opt-level 3, no overflow checks, no debug assertions)
        rc2, out2 = C.sh(cmd + " --release", cwd=C.harness_dir(), timeout=timeout, env=env)
    ok = rc == 0 and os.path.exists(ASAN_BIN) and rc2 == 0 and os.path.exists(ASAN_REL_BIN)
    _state["asan"] = dict(ok=ok, log=out + out2, path=ASAN_BIN, rel_path=ASAN_REL_BIN, wall=time.time() - t0)
    return _state["asan"]


def setup_extra():
    m = build_msan() if build_asan()["ok"] else dict(ok=False, wall=0, log="not attempted")
    C.log("harness footprint (MemorySanitizer, build-std): %s (%.0fs)" % ("ok" if m["ok"] else "FAILED", m["wall"]))
    r = build_asan()
    C.log("harness footprint (AddressSanitizer): %s (%.0fs)" % ("ok" if r["ok"] else "FAILED", r["wall"]))
    if not r["ok"]:
        raise RuntimeError(r["log"][-2000:])
    o = build_o0()
    C.log("harness footprint (plain, opt-level 0): %s (%.0fs)" % ("ok" if o["ok"] else "FAILED", o["wall"]))
    if not o["ok"]:
        raise RuntimeError(o["log"][-2000:])


GEN_PY_VIEWS = os.path.join(C.VERIF, "coq", "footprint", "GenPyViews.v")


def _translate():
    """Source tie of the footprint model (pinned statements) + coq/footprint/GenPyViews.v: the shape / strides
    formulas of the 2-d `__getbuffer__`s of lightmotif-py (StripedSequence, ScoringMatrix, StripedScores), read from
    lib.rs by translate/pyidx_slots.py (C18's translator, reused as a library: its output GenSlots.v is parsed for the
    six `gen_*_shape` / `gen_*_strides` definitions, so that coq/footprint does not depend on the build of coq/pyidx).
    C06b.v's fp_py_*_view_inside_rows speak about these generated formulas."""
    r = footprint_src.translate()
    try:
        from translate import pyidx_slots
        t = pyidx_slots.translate()
        r.setdefault("notes", []).extend("pyidx translator: " + n for n in t.get("notes", []))
        if not t.get("ok", True):
            r["ok"] = False
            r.setdefault("errors", []).extend("pyidx translator (shape/strides of the buffer views): " + e
                                              for e in t.get("errors", ["failed"]))
        else:
            gen = open(pyidx_slots.OUT).read()
            defs = re.findall(r"^Definition gen_(?:striped|scoring|scores)_(?:shape|strides) .*$", gen, re.M)
            if len(defs) != 6:
                r["ok"] = False
                r.setdefault("errors", []).append("GenPyViews: %d of the 6 shape/strides definitions found in GenSlots.v" % len(defs))
            else:
                text = ("(* GENERATED by props/c06.py (_translate) from lightmotif-py/lightmotif/lib.rs through "
                        "translate/pyidx_slots.py — do not edit. *)\nFrom Coq Require Import ZArith.\n\n"
                        + "\n".join(defs) + "\n")
                try:
                    old = open(GEN_PY_VIEWS).read()
                except OSError:
                    old = None
                if old != text:
                    with open(GEN_PY_VIEWS, "w") as f:
                        f.write(text)
                    r.setdefault("notes", []).append("GenPyViews.v regenerated")
    except Exception as e:      # cannot parse lib.rs: a broken obligation, never a crash
        r["ok"] = False
        r.setdefault("errors", []).append("pyidx translator raised %r" % (e,))
    return r


def _extra(ctx):
    """Reports the state of the sanitizer build (an unusable ASan build is machinery failure,
    not a verdict about /repo) and the sanitizer self-test."""
    out = []
    r = build_asan()
    if not r["ok"]:
        out.append(("INFRA", "AddressSanitizer build of the harness failed:\n" + r["log"][-3000:], ""))
        return out
    ctx["notes"].append("ASan build: %s (%.1fs)" % (ASAN_CMD, r["wall"]))
    m = build_msan()
    if not m["ok"]:
        out.append(("INFRA", "MemorySanitizer build of the harness failed:\n" + m["log"][-3000:], ""))
    else:
        ctx["notes"].append("MSan build: %s (%.1fs)" % (MSAN_CMD, m["wall"]))
    o = build_o0()
    if not o["ok"]:
        out.append(("INFRA", "opt-level 0 build of the harness failed:\n" + o["log"][-3000:], ""))
    else:
        ctx["notes"].append("plain opt-level 0 build (guard-page children): %s (%.1fs)" % (O0_CMD, o["wall"]))
    # self-test: the instrumented binary must report a deliberate heap over-read / misaligned
    # load made by the HARNESS itself (otherwise `asan=CLEAN` would mean nothing)
    env = dict(C.ENV)
    env["LM_FP_ASAN_BIN"] = r["path"]
    env["LM_FP_O0_BIN"] = o["path"] if o["ok"] else ""
    rc, o = C.sh("%s selftest" % ctx["harness"]["path"], timeout=300, env=env)
    if rc != 0:
        out.append(("INFRA", "sanitizer self-test failed (rc=%d): %s" % (rc, o[-1500:]), ""))
    else:
        ctx["notes"].append("sanitizer self-test: " + o.strip().replace("\n", "; ")[-400:])
    out.extend(_source_footprints(ctx))
    return out


def _source_footprints(ctx):
    """Access lists derived from the kernels' SOURCE by translate/footprint_exec.py on a parameter grid,
    compared by the driver (`srcfp` mode) with the extracted Coq model and checked by all_ok."""
    out = []
    drv = ctx.get("driver")
    if not drv or not drv.get("ok"):
        return out
    try:
        lines, errors = footprint_exec.lines(ctx["tier"])
    except Exception as e:      # the interpreter itself must never crash the check
        return [("DIFF", "source interpreter raised %r" % (e,), "")]
    for e in errors[:4]:
        out.append(("DIFF", "source-derived footprint: " + e, ""))
    if lines:
        rc, ver, err = C.run_sharded("ulimit -s unlimited 2>/dev/null; " + drv["path"] + " srcfp", lines, timeout=1800)
        by_id = {l.split(" ", 1)[0]: l for l in lines}
        bad = [v for v in ver if v.split(" ")[1:2] != ["OK"]]
        if rc != 0 or len(ver) != len(lines):
            out.append(("INFRA", "driver srcfp exited %d (%d of %d verdicts): %s" % (rc, len(ver), len(lines), err[-800:]), ""))
        diffs = [v for v in bad if v.split(" ")[1:2] != ["PROPFAIL"]]
        fails = [v for v in bad if v.split(" ")[1:2] == ["PROPFAIL"]]
        # PROPFAIL here = a statically derived violation (kernels that cannot run on this host: NEON): the model's
        # wrapper lets the call through, model and source-derived footprint agree, and check_C06 rejects an access
        for kind, vs in (("DIFF", diffs[:5]), ("PROPFAIL", fails[:4])):
            for v in vs:
                p = v.split(" ", 2)
                inp = by_id.get(p[0], "")
                out.append((kind, p[2] if len(p) > 2 else v, inp if len(inp) < 200000 else ""))
        out.append(("EVAL", str(len(ver)), ""))
        ctx["notes"].append("source-derived footprints: %d (kernel, parameter) cases of %d kernels interpreted from the "
                            "source and compared with the model, %d differ, %d statically derived violations (NEON)" % (
                                len(lines), len(footprint_exec.KERNELS), len(diffs), len(fails)))
    return out


# ------------------------------------------------------------------ evidence helpers

def _fields(line):
    return dict(t.split("=", 1) for t in line.split(" => ")[0].split(" ")[1:] if "=" in t)


_KERNEL_OPS = ("enc", "encuse", "stripe", "score", "rows", "uscore", "urows", "max", "argmax", "umax", "uargmax",
               "smax", "sargmax", "scan", "gibbs", "sample")


def nontrivial(line):
    """distinct histories that reach an unsafe kernel: an API history on a SIMD arm (s/a/ds/da) or the
    native dispatcher (encode/to_striped/Scores::max/Scanner/Sampler) with a kernel-entering op, the
    SSE2 other-width cases, dense histories with from_rows/fill/clone (uninitialised constructor / raveled
    slices)."""
    f = _fields(line)
    body = line.split(" ", 1)[1] if " " in line else line
    kind = f.get("kind", "api")
    if kind == "sse2c":
        return body
    ops = [o.split(":")[0] for o in f.get("ops", "").split(";") if o]
    if kind == "dense":
        return body if any(o in ("from", "fill", "clone", "sum") for o in ops) else None
    if f.get("be") in ("g", "dg"):
        # only the dispatcher-level entry points (how=2 / smax / scan / gibbs) leave the generic arm
        return body if any(o in ("scan", "gibbs", "smax", "sargmax", "sample") for o in ops) else None
    return body if any(o in _KERNEL_OPS for o in ops) else None


def histogram(line):
    f = _fields(line)
    kind = f.get("kind", "api")
    keys = ["kind=" + kind]
    if kind == "api":
        keys += ["abc=" + f.get("abc", "?"), "be=" + f.get("be", "?")]
        ops = [o for o in f.get("ops", "").split(";") if o]
        keys.append("ops<=%d" % (5 * ((len(ops) + 4) // 5)))
        for o in ops:
            p = o.split(":")
            keys.append("op:" + p[0])
            if p[0] == "enc":
                n = int(p[1])
                keys.append("L:" + ("0" if n == 0 else "<32" if n < 32 else "<993" if n < 993 else
                                    ">=993,mod32=0" if n % 32 == 0 else ">=993,mod32!=0"))
    elif kind == "dense":
        keys += ["T=" + f.get("T", "?"), "C=" + f.get("C", "?")]
        for o in f.get("ops", "").split(";"):
            if o:
                keys.append("dop:" + o.split(":")[0])
    else:
        keys += ["abc=" + f.get("abc", "?"), "C=" + f.get("C", "?")]
    return keys


def signature(detail, obs_line):
    return detail


SPEC = dict(
    id="C06",
    group="footprint",
    props_file="C06.v",
    module="LMFootprint.C06",
    harness_bin="footprint",
    ml_modules=["footprint_model"],
    n={"quick": 2000, "thorough": 25000},
    search_n={"quick": 6000, "thorough": 30000},
    nontrivial=nontrivial,
    histogram=histogram,
    signature=signature,
    more_props=[("C06b.v", "LMFootprint.C06b")],
    translate=_translate,
    extra=_extra,
    setup_extra=setup_extra,
    rule="Cases: corpus/C06 (witnesses of the repaired over-reads F08/F09/F25 and boundary cases) + generated: 80% histories of "
         "safe public API calls on one set of buffers (encode/encode_raw/encode_into incl. one invalid letter and a destination of "
         "the wrong length, EncodedSequence::encode, stripe/stripe_into/to_striped, StripedSequence::sample, "
         "StripedSequence::new(DenseMatrix::new(n), L) (caller-built matrix without spare rows), configure/"
         "configure_wrap, score_into/score_rows_into f32 and u8 with row ranges inside the sequence rows, reaching into the "
         "look-ahead rows, past the matrix, empty and inverted, StripedScores::resize, max/argmax/threshold through the pipeline "
         "and through StripedScores, Scanner (collect/max/mixed, block sizes 1..1000, own and caller-owned score buffer), Gibbs "
         "Sampler, count_symbols, exact-capacity clones, re-encoding and re-striping into the same buffers; 25% of the API histories "
         "end with an exact-allocation tail: a new sequence (sample / new(DenseMatrix) / stripe), configure for exactly the motif, "
         "clone (75%), then 1-3 scoring / scanning calls that read the last look-ahead row), alphabets DNA/protein, "
         "pipelines generic/SSE2/AVX2 and the dispatcher forced to each arm; lengths 0..40, around multiples of 16/32, "
         "993..4200 with L mod 32 != 0, around 1024k; motif widths 0..80; 10% SSE2 pipeline with C in 16/32/48; 10% DenseMatrix "
         "histories (new/with_capacity/resize/reserve/fill/clone/from_rows incl. ragged/Index incl. out of range/iterators) for "
         "u8/u32/f32 x C in 5,7,16,21,32,48. Every case runs in five child processes: two AddressSanitizer builds (dev profile at "
         "opt-level 0 -- every load of the source is executed, dead ones included -- and --release; spare Vec capacity of read-only "
         "arguments poisoned), twice in a plain build at opt-level 0 (CARGO_PROFILE_DEV_OPT_LEVEL=0, build/cargo-o0; debug_assert "
         "alignment checks, misaligned-pointer checks) with a guard-page allocator that fills every DenseMatrix allocation with a "
         "canary byte (end-aligned: over-runs fault; start-aligned: under-runs fault; rows between rows() and capacity() of a matrix "
         "allocated or reallocated inside a call must still hold the canary), and a MemorySanitizer build (-Zbuild-std) that asks "
         "after every op whether every logical cell of every buffer was written (cells filled only by non-temporal stores are "
         "invisible to it: reported as a broken tie, not as a violation); each child is "
         "restarted after a death (blamed on the op that was running) and killed after 90 s without progress (HANG). Per op the harness records the parameter tuple the kernel is entered with "
         "(L, rows, capacity, wrap, M, strides, row range; rows / capacity of the destination before and after the call, also after a "
         "panicking scoring call) and the outcome; the driver evaluates the extracted wrapper + footprint "
         "model on that tuple. For C06 the run-time VERDICT is the sanitizers': every run-time PROPFAIL is produced by hand-written "
         "code in ocaml/footprint/driver.ml -- prefix matching on the verdict strings of the five children (ASAN(..), "
         "MSAN(never-written-cell), CRASH(sigN / exit97): SIGSEGV on a guard page, abort, damaged canary found by a plain child) and "
         "on records of the harness (damaged canary in the spare capacity of a destination, rows() > capacity() after a scoring "
         "call, symbol code >= K left in a caller buffer, from_rows exposing unwritten rows). The extracted, proved-sound check_C06 "
         "decides a PROPFAIL only in the static source-footprint path (NEON wrappers). What Coq certifies: the model footprints are "
         "inside the owned rows and aligned under the guards (C06.v), the guards as computed in usize agree with the modelled Z "
         "guards (C06b.v part D), an invariant (rows <= capacity for the sequence matrix and both score matrices, shape of the "
         "sequence matrix) is preserved along every history and every access is inside the allocation as it is at that step (C06b.v "
         "part A: C06_histories_invariant_partial, C06_histories_from_fresh_partial; C06_histories_allocation_partial is the WEAKER "
         "corollary with the extent widened to the capacity), every readable cell is covered by a write of the footprint (C06b.v "
         "part B: fp_init_*), the extents of the Python buffer views lie inside the owned rows (part C: fp_py_*, on the shape / "
         "strides formulas generated from lib.rs). C06_histories_partial holds from any non-negative state (conjunction of the "
         "per-kernel theorems, no invariant); the inductive statement is C06_histories_invariant_partial; the transitions of the "
         "history model are tied per op by the driver (DIFF), not by a theorem about the Rust code. What the run ties (DIFF, decided "
         "with the extracted model): guard outcome (panic / early return / rows written / rows after a panic) or stride differs "
         "from the model; the usize guard (FpUsize.score_guard_usize, dev and release profile) and the Z guard fall into different "
         "outcome classes; the extracted history / capacity model (FpHistory.hstep, FpCap.cstep: a clone is an exact allocation, a "
         "configure_wrap or resize that fits keeps the allocation, a reallocation holds the rows) replayed on the observed pre-state "
         "of the op gives another post-state / kernel entry / capacity than the implementation; a rejection by check_C06 of an "
         "access of the MODEL's footprint on the parameters the kernel was entered with is reported as "
         "`DIFF model-access-outside-owned-rows:<kernel>:<access>` (by the theorems of C06.v impossible for the kernel and extents "
         "the guards admit, so the driver picked another kernel / extent than the code: broken tie; never seen on the unchanged "
         "tree), `DIFF model-predicts-access-past-the-allocation-sanitizer-clean` when the model access is past the allocation and "
         "no child reported; MSan reports on cells written only by non-temporal stores (`DIFF initialisation-not-confirmed`); "
         "missing verdicts, hangs, unreadable numbers (`driver-exception`, the driver never replaces a number by 0). "
         "Source tie: 750 memory-relevant statements of the 69 functions the model was transcribed from (neon.rs, the "
         "lightmotif-py `__getbuffer__`s, Scanner::__init__ (transmute) and struct Scanner included) are compared with their pinned "
         "text, and every `unsafe` / `transmute` token of the four crates (lightmotif, lightmotif-py, lightmotif-io, "
         "lightmotif-tfmpvalue) must lie inside them. Source-derived "
         "footprints: an interpreter of the kernels' control flow and pointer arithmetic derives the access list of each of the 15 "
         "kernels (12 x86 + 3 NEON) on a parameter grid (294 quick / 385 thorough cases) from the source text; the driver compares it "
         "with the extracted model (as sets) and runs check_C06 on it; for the NEON kernels (cannot run on this host) also the "
         "wrappers' guards are interpreted, and a call the wrapper lets through whose footprint check_C06 rejects is a statically "
         "derived PROPFAIL (this is how finding F26 — no row-range check in the NEON wrappers, repaired in 9cd9b52 — showed; its "
         "witness stays in the grid as a must-pass case). Corpus additions of round 3: x1-x15 exact-allocation histories (clone / "
         "new(DenseMatrix) / sample, u8 + f32, every arm), y1-y10 reuse histories of 40, 7, 50 and 3, 1, 9 rows on every SIMD score "
         "wrapper, u1-u6 row ranges next to usize::MAX (all panic in every child, as modelled). Non-trivial: distinct histories with an op that enters an "
         "unsafe kernel (SIMD arm or native dispatcher), all SSE2-width cases, dense histories with from_rows/fill/clone/iterators.",
    trusted_base=[
        "Coq 8.16.1 kernel (coqc; coqchk in the thorough tier on LMFootprint.C06 only, C06b is audited by Print Assumptions); "
        "vm_compute only in the refuted / non-vacuity / Example witness statements of C06.v and C06b.v; no native_compute",
        "extraction: ExtrOcamlBasic only (its Extract Inductive directives for bool, option, list, prod, unit, sumbool, sumor); no other "
        "Extract Inductive, no Extract Constant (nat, Z, positive stay extracted inductives); OCaml 4.13.1",
        "hand-written OCaml driver ocaml/footprint/driver.ml (parsing incl. the decimal parser into Z, selection of the kernel model "
        "per (pipeline, arm, element size, K) -- the dispatch.rs arm table is hand-written there --, comparison of guard outcomes, "
        "post-states and capacities; the in-bounds/alignment test of a model footprint is the extracted all_ok / check_C06, proved "
        "sound, but its rejection is a DIFF, not the verdict)",
        "hand-written PROPFAIL paths of ocaml/footprint/driver.ml = EVERY run-time PROPFAIL: verdict-string prefixes ASAN / MSAN / "
        "CRASH of the five children (`memory-error`, `uninitialised-memory`) and the harness Invariant records (damaged canary = "
        "write-past-the-owned-rows(inside-capacity), rows-exceed-capacity, symbol-invariant-broken, "
        "from_rows-exposes-unwritten-rows); the only PROPFAIL decided by the extracted check_C06 is the static srcfp path "
        "(neon-wrapper-lacks-the-row-range-guard)",
        "Rust harness harness/src/bin/footprint.rs (op interpreter over the public API, catch_unwind, child-process orchestration, "
        "poisoning of spare capacity through __asan_poison_memory_region, the guard-page / canary-filling global allocator of the "
        "plain children, the MemorySanitizer child's cell_check of every logical cell after every op and its blessing of padding); "
        "its sanitizer self-test (incl. dead-load-oob in the opt-level 0 binary, canary, stream-oob) runs on every check",
        "cargo profile override CARGO_PROFILE_DEV_OPT_LEVEL=0 (harness/Cargo.toml has opt-level 1 for dev): the guard-page "
        "children and the dev-profile ASan child run unoptimised code so that loads the optimiser would delete are executed; the "
        "optimised code runs in the ASan --release child and the MSan child",
        "non-temporal stores (_mm256_stream_*, _mm_stream_ps: every score row and every striped block) are inline assembly in "
        "std::arch and NOT seen by AddressSanitizer (self-test `stream-oob` survives under ASan): for them the plain build uses a "
        "guard-page global allocator (every allocation of alignment >= 32, i.e. every DenseMatrix, ends at an inaccessible page) "
        "and the harness keeps a canary/snapshot in the spare capacity of destination matrices (stripe_into, score_*_into)",
        "AddressSanitizer of the nightly toolchain (rustc -Zsanitizer=address, compiler-rt): shadow memory, redzones of the "
        "instrumented allocator; only lightmotif, its dependencies and the harness are instrumented (std is not rebuilt)",
        "MemorySanitizer of the nightly toolchain (-Zsanitizer=memory, -Zbuild-std: instrumented std); blind to non-temporal "
        "stores (inline assembly) like AddressSanitizer: reports on score / striped cells after scoring / striping ops are named "
        "not-seen-written and become a DIFF; it does not run the scan / gibbs ops",
        "translate/footprint_src.py (brace-matching reader of the Rust sources of the four crates; pinned text "
        "translate/footprint_pinned.json: 69 functions, 750 statements), translate/footprint_exec.py (interpreter of the kernels' "
        "control flow and pointer arithmetic and of the NEON wrappers' guards: derives the access lists of the 15 kernels from the "
        "source text), translate/pyidx_slots.py (C18's translator run as a library by props/c06.py: the six gen_*_shape / "
        "gen_*_strides formulas of the lightmotif-py buffer views are copied into coq/footprint/GenPyViews.v, used by "
        "fp_py_*_view_inside_rows; coq/footprint does not import coq/pyidx)",
        "modelled, not verified: that the kernels perform exactly the accesses listed in FpModel.v (hand transcription of the "
        "pointer arithmetic, tied by the sanitizer run and the source tie); extents rows*stride*size_of<T> and 32-byte row "
        "alignment come from the dense layout model (C19) and are compared with .stride() on every op; semantics of the "
        "load/store/stream/gather intrinsics (width, alignment requirement); gather lanes are symbol codes < K",
        "NOT covered (said in DESIGN 3/C06): allocator and compiler correctness, allocation failure (abort), data races, "
        "Miri-level aliasing rules; reads of uninitialised memory are covered at model level (C06b.v part B: every readable cell "
        "is covered by a write of the footprint) and dynamically by the MemorySanitizer child, except cells written only by "
        "non-temporal stores; the NEON kernels are modelled and tied to the source text but never executed (no Arm host); the "
        "raw pointers / lifetimes of the Python module (FpPy.v) are model + pinned text only (the dynamic side is C17 / C18's)",
        "no footprint theorem (safe code over the kernels; covered by the sanitizer children only, ops scan / gibbs / thr / count / "
        "sum / exact): Scanner, Sampler, threshold, count_symbols, iterators, clone",
    ],
    assumptions=[
        "host is x86_64 with AVX2 (Dispatch arms Generic/Sse2/Avx2; native dispatch = AVX2); the NEON arm is tied to the source "
        "statically only (pinned text + interpreter), never executed",
        "every stored symbol code is < K (type invariant of A::Symbol; checked by the harness on caller-owned buffers after encode_into)",
        "a DenseMatrix<T,C> owns rows()*stride()*size_of::<T>() bytes starting at a 32-byte aligned address (C19 layout model; "
        "the allocator honours the alignment of Row); slices and stack arrays have no alignment guarantee",
        "in-contract = safe public API only (DenseMatrix::uninitialized/ravel/ravel_mut are `unsafe fn` and outside the contract)",
        "usize_ok (FpUsizeProofs.v): arguments are usize values, a StripedSequence has wrap() <= rows(), its matrix is one "
        "allocation (<= isize::MAX bytes), a score row has >= 32 bytes; allocation failure (abort) is outside the model (no "
        "generated range reaches a resize of more than ~2^12 rows)",
        "PARTIAL: the theorems are about the footprint MODEL under the guards; C06_histories_partial carries no invariant "
        "(holds from any non-negative state), the inductive one is C06_histories_invariant_partial; capacity is tracked for the "
        "sequence matrix and the two score matrices only (symbol vector and scoring matrices are exact by construction in the "
        "harness); base alignment of a DenseMatrix is assumed, offset alignment derived from C19's stride formula",
    ],
)


def _refresh_replay(replay):
    """A replay file may hold source-derived footprint lines (broken source tie).  Their access lists are
    re-derived from the CURRENT source, so that the replay says whether the tie holds now."""
    import json
    try:
        rp = json.load(open(replay))
    except (OSError, ValueError):
        return replay
    ins = rp.get("inputs", [])
    if not any(" kernel=" in l for l in ins):
        return replay
    out = []
    for l in ins:
        if " kernel=" not in l:
            out.append(l)
            continue
        f = _fields(l)
        kernel = f.pop("kernel", "")
        f.pop("accs", None)
        try:
            p = {k: int(v) for k, v in f.items()}
            out.append(footprint_exec.fmt(0, kernel, p, footprint_exec.derive(kernel, p)).replace("s0 ", l.split(" ", 1)[0] + " ", 1))
        except Exception as e:      # cannot be interpreted any more: keep the recorded line
            out.append(l)
    rp["inputs"] = out
    path = os.path.join(C.BUILD if C.ALT is None else os.path.join(C.BUILD, C.ALT), "C06-replay-refreshed.json")
    os.makedirs(os.path.dirname(path), exist_ok=True)
    json.dump(rp, open(path, "w"), indent=1)
    return path


def main(tier, seed, replay):
    if replay:
        replay = _refresh_replay(replay)
    o = build_o0()
    # (a failed build gives dbg=NOASAN verdicts: reported as a broken tie, and as INFRA by _extra)
    C.ENV["LM_FP_O0_BIN"] = o["path"] if o["ok"] else "/nonexistent/footprint-o0"
    r = build_asan()
    if r["ok"]:
        # read by `footprint run` (vlib.common.run_sharded passes C.ENV to the children)
        C.ENV["LM_FP_ASAN_BIN"] = r["path"]
        C.ENV["LM_FP_ASAN_REL_BIN"] = r["rel_path"]
        m = build_msan()
        # (a failed MSan build gives msan=NOMSAN verdicts: reported as a broken tie, and as INFRA by _extra)
        C.ENV["LM_FP_MSAN_BIN"] = m["path"] if m["ok"] else "/nonexistent/footprint-msan"
    else:
        # `run` then prints asan=NOASAN for every case: the driver reports the missing verdict as a
        # broken tie and _extra() names the build failure
        C.ENV["LM_FP_ASAN_BIN"] = "/nonexistent/footprint-asan"
        C.ENV["LM_FP_ASAN_REL_BIN"] = "/nonexistent/footprint-asan-release"
    return runner.run_property(SPEC, tier, seed, replay)
