"""C06 — no safe API call reads or writes outside the memory it owns (PARTIAL: footprint model).

Flow (main): build the harness a second time with AddressSanitizer (nightly,
`-Zsanitizer=address --cfg lm_asan`, own target dir), hand its path to the harness'
`run` orchestrator through LM_FP_ASAN_BIN, then the generic flow of vlib/runner.py.
`footprint run` executes every case in two child processes (ASan build, plain debug
build); a child that dies (ASan report, signal) is restarted and the death is blamed on
the case (and op) it had begun, so a memory error is one PROPFAIL with a replay, never
a crash of the check.
"""
import os
import re
import time

from vlib import common as C
from vlib import runner

ASAN_TARGET = os.path.join(C.BUILD, "cargo-asan") if C.ALT is None else os.path.join(C.BUILD, C.ALT, "cargo-asan")
ASAN_TRIPLE = "x86_64-unknown-linux-gnu"
ASAN_BIN = os.path.join(ASAN_TARGET, ASAN_TRIPLE, "debug", "footprint")
ASAN_CMD = ("RUSTFLAGS='-Zsanitizer=address --cfg lm_asan' cargo +nightly build --offline --target %s "
            "--target-dir %s --bin footprint" % (ASAN_TRIPLE, ASAN_TARGET))

_state = {"asan": None}


def build_asan(timeout=1800):
    """Second build of the harness binary, instrumented with AddressSanitizer."""
    if _state["asan"] is not None:
        return _state["asan"]
    t0 = time.time()
    # the plain build first: it also puts Cargo.lock in place (and copies the crate for VERIF_REPO runs)
    hb = C.build_harness("footprint")
    if not hb["ok"]:
        _state["asan"] = dict(ok=False, log="plain harness build failed:\n" + hb["log"][-3000:], path=ASAN_BIN, wall=0)
        return _state["asan"]
    env = dict(C.ENV)
    env.pop("CARGO_TARGET_DIR", None)
    env["RUSTFLAGS"] = "-Zsanitizer=address --cfg lm_asan"
    cmd = "cargo +nightly build --offline --target %s --target-dir %s --bin footprint" % (ASAN_TRIPLE, ASAN_TARGET)
    with C.Lock("cargo-asan" if C.ALT is None else "cargo-asan-" + C.ALT):
        rc, out = C.sh(cmd, cwd=C.harness_dir(), timeout=timeout, env=env)
    ok = rc == 0 and os.path.exists(ASAN_BIN)
    _state["asan"] = dict(ok=ok, log=out, path=ASAN_BIN, wall=time.time() - t0)
    return _state["asan"]


def setup_extra():
    r = build_asan()
    C.log("harness footprint (AddressSanitizer): %s (%.0fs)" % ("ok" if r["ok"] else "FAILED", r["wall"]))
    if not r["ok"]:
        raise RuntimeError(r["log"][-2000:])


def _extra(ctx):
    """Reports the state of the sanitizer build (an unusable ASan build is machinery failure,
    not a verdict about /repo) and the sanitizer self-test."""
    out = []
    r = build_asan()
    if not r["ok"]:
        out.append(("INFRA", "AddressSanitizer build of the harness failed:\n" + r["log"][-3000:], ""))
        return out
    ctx["notes"].append("ASan build: %s (%.1fs)" % (ASAN_CMD, r["wall"]))
    # self-test: the instrumented binary must report a deliberate heap over-read / misaligned
    # load made by the HARNESS itself (otherwise `asan=CLEAN` would mean nothing)
    env = dict(C.ENV)
    env["LM_FP_ASAN_BIN"] = r["path"]
    rc, o = C.sh("%s selftest" % ctx["harness"]["path"], timeout=300, env=env)
    if rc != 0:
        out.append(("INFRA", "sanitizer self-test failed (rc=%d): %s" % (rc, o[-1500:]), ""))
    else:
        ctx["notes"].append("sanitizer self-test: " + o.strip().replace("\n", "; ")[-400:])
    return out


# ------------------------------------------------------------------ evidence helpers

def _fields(line):
    return dict(t.split("=", 1) for t in line.split(" => ")[0].split(" ")[1:] if "=" in t)


_KERNEL_OPS = ("enc", "encuse", "stripe", "score", "rows", "uscore", "urows", "max", "argmax", "umax", "uargmax",
               "smax", "sargmax", "scan", "gibbs", "sample")


def nontrivial(line):
    """distinct histories that reach an unsafe kernel: an API history on a SIMD arm (s/a/ds/da) or the
    native dispatcher (encode/to_striped/Scores::max/Scanner/Sampler) with a kernel-entering op, the
    SSE2 other-width cases, dense histories with from_rows/fill/clone (uninitialised constructor / raveled
    slices)."""
    f = _fields(line)
    body = line.split(" ", 1)[1] if " " in line else line
    kind = f.get("kind", "api")
    if kind == "sse2c":
        return body
    ops = [o.split(":")[0] for o in f.get("ops", "").split(";") if o]
    if kind == "dense":
        return body if any(o in ("from", "fill", "clone", "sum") for o in ops) else None
    if f.get("be") in ("g", "dg"):
        # only the dispatcher-level entry points (how=2 / smax / scan / gibbs) leave the generic arm
        return body if any(o in ("scan", "gibbs", "smax", "sargmax", "sample") for o in ops) else None
    return body if any(o in _KERNEL_OPS for o in ops) else None


def histogram(line):
    f = _fields(line)
    kind = f.get("kind", "api")
    keys = ["kind=" + kind]
    if kind == "api":
        keys += ["abc=" + f.get("abc", "?"), "be=" + f.get("be", "?")]
        ops = [o for o in f.get("ops", "").split(";") if o]
        keys.append("ops<=%d" % (5 * ((len(ops) + 4) // 5)))
        for o in ops:
            p = o.split(":")
            keys.append("op:" + p[0])
            if p[0] == "enc":
                n = int(p[1])
                keys.append("L:" + ("0" if n == 0 else "<32" if n < 32 else "<993" if n < 993 else
                                    ">=993,mod32=0" if n % 32 == 0 else ">=993,mod32!=0"))
    elif kind == "dense":
        keys += ["T=" + f.get("T", "?"), "C=" + f.get("C", "?")]
        for o in f.get("ops", "").split(";"):
            if o:
                keys.append("dop:" + o.split(":")[0])
    else:
        keys += ["abc=" + f.get("abc", "?"), "C=" + f.get("C", "?")]
    return keys


def signature(detail, obs_line):
    return detail


SPEC = dict(
    id="C06",
    group="footprint",
    props_file="C06.v",
    module="LMFootprint.C06",
    harness_bin="footprint",
    ml_modules=["footprint_model"],
    n={"quick": 1500, "thorough": 40000},
    search_n={"quick": 4000, "thorough": 40000},
    nontrivial=nontrivial,
    histogram=histogram,
    signature=signature,
    extra=_extra,
    setup_extra=setup_extra,
    rule="TODO",
    trusted_base=[],
    assumptions=[],
)


def main(tier, seed, replay):
    r = build_asan()
    if r["ok"]:
        # read by `footprint run` (vlib.common.run_sharded passes C.ENV to the children)
        C.ENV["LM_FP_ASAN_BIN"] = r["path"]
    else:
        # `run` then prints asan=NOASAN for every case: the driver reports the missing verdict as a
        # broken tie and _extra() names the build failure
        C.ENV["LM_FP_ASAN_BIN"] = "/nonexistent/footprint-asan"
    return runner.run_property(SPEC, tier, seed, replay)
