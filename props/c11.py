"""C11 — MEME-style score distribution agrees with the exact tail within its resolution."""
from translate import dist_skel


def _fields(line):
    head = line.split(" => ", 1)[0]
    return dict(t.split("=", 1) for t in head.split(" ")[1:] if "=" in t)


def nontrivial(line):
    # distinct (matrix, background) pairs inside the property's domain on which the exact tail
    # is enumerated: kinds with finite non-wildcard cells, width <= 8
    f = _fields(line)
    if f.get("kind") in ("special", "empty", "allninf"):   # NaN/inf cells; no finite cell at all (M = 0, only -inf): outside the domain
        return None
    try:
        # `long`: 27..48 columns of integer cells, exact tails on the integer grid of the scores
        if int(f.get("M", "0")) > 8 and f.get("kind") != "long":
            return None
    except ValueError:
        return None
    return (f.get("abc", "dna"), f.get("m"), f.get("bgm"), f.get("bg"))


def histogram(line):
    f = _fields(line)
    keys = ["kind=" + f.get("kind", "?"), "M=" + f.get("M", "?"), "bg=" + f.get("bgm", "?"), "abc=" + f.get("abc", "dna")]
    keys.append("probes<=%d" % (20 * ((len(f.get("pr", "").split(",")) + 19) // 20)))
    return keys


def _e2e_stat_obligations():
    # the statistics-side composition theorems of coq/e2e (E2EStat.v: counts -> log-odds -> both p-value methods
    # bracket one exact tail; thresholds from p-values used for scanning) count as obligations of this property
    # in the thorough tier (wired by the e2e builder, round 3; see props/e2e.py STAT_EXTRA)
    from props import e2e
    return e2e.obligations_stat()


def _judged_summary(ctx):
    """Nothing fails open: the driver appends one line per judged case to c11-judged.log (what the verdict of the case
    rests on); this step counts them into the evidence notes and removes the file.  Last line per case id wins (the
    release-profile replay judges the same ids again)."""
    import os
    path = os.path.join(os.path.dirname(ctx["driver"]["path"]), "c11-judged.log")
    try:
        lines = open(path).read().splitlines()
        os.remove(path)
    except OSError:
        ctx["notes"].append("judged-log: none written (C11_JUDGED_LOG=0 or the driver did not run)")
        return []
    last = {}
    for l in lines:
        t = l.split(" ")
        if len(t) >= 2:
            last[t[0]] = dict(x.split("=", 1) for x in t[1:] if "=" in x)
    n = len(last)
    cnt = {}

    def bump(k):
        cnt[k] = cnt.get(k, 0) + 1
    probes_j = probes_f = 0
    out = []
    for i, f in sorted(last.items()):
        bump("domain=" + f.get("domain", "?"))
        if f.get("domain") == "in":
            bump("build=" + f.get("build", "not-reached"))
            if "bracket" in f:
                bump("bracket=" + f["bracket"])
                a, _, b = f.get("judged", "0/0").partition("/")
                probes_j += int(a)
                probes_f += int(b or 0)
            if f.get("build") == "ok":
                bump("binary64-table-theorem-applies=" + f.get("f64hyp", "?"))
                bump("binary64-monotone-theorem-applies=" + ("yes" if f.get("f64hyp") == "yes" and f.get("scalepred") == "yes" else "no"))
                bump("binary64-monotone-without-scale-hypothesis(f32_matrix_ok_any)=" + ("yes" if f.get("f64hyp") == "yes" and f.get("f32ok") == "yes" else "no"))
        if "unjudged" in f:
            out.append(("DIFF", "case %s: bracket probes could not be judged (kind 8)" % i, ""))
    ctx["notes"].append("what the %d verdicts rest on (nothing is skipped silently): %s; bracket-checked probes %d of %d finite "
                        "score probes of the in-domain cases (the rest: no exact table within 70000 words / 20000 grid points, "
                        "or beyond the 2.5e6 budget)"
                        % (n, ", ".join("%s: %d" % kv for kv in sorted(cnt.items())), probes_j, probes_f))
    return out


SPEC = dict(
    extra=_judged_summary,
    extra_obligations={"thorough": _e2e_stat_obligations},
    extra_obligations_name="coq/e2e/E2EStat.v: composition of C09, C11, C12/C13, C10, C14 and the scanning pipeline of E2E.v",
    extra_obligations_cmd="make -C coq/e2e (and imported groups) + Print Assumptions audit of LME2E.E2EStat",
    id="C11",
    group="dist",
    props_file="C11.v",
    module="LMDist.C11",
    harness_bin="dist",
    release_n=30,   # release-profile replay: corpus + the first generated cases (no overflow-dependent site is left in dist.rs)
    translate=dist_skel.translate,
    ml_modules=["dist_model"],
    n={"quick": 88, "thorough": 1000},
    search_n={"quick": 240, "thorough": 1000},
    nontrivial=nontrivial,
    histogram=histogram,
    rule="DNA (K=5) scoring matrices of width 1..8 (all 4^M / 5^M words enumerable; kind `large`: width 9..12 quick / 9..16 thorough, "
         "structural checks and bit-exact replay only) and protein (K=21) matrices of width 1..3 (20^M / 21^M words; widths 4..6, thorough ..8: replay only) "
         "in 20 rotating kinds: random f32 cells, cells quantised to "
         "1/8..1 (ties, exact half steps), count matrices -> frequencies -> log-odds through the library, finite "
         "wildcard column, constant matrices, `roundup` (width 6..8, integer offset/scale, every row maximum placed just "
         "above a half step so that all row maxima round up), `skew` (width 5..7, thorough ..8: one or two symbols of probability 2^-11..2^-20 carry the best cell of every row, best words down to 2^-160), `long` (width 27..40, thorough ..48, integer cells, a third of them with such a skewed background; exact tails on the integer grid of the scores), `widerow` (width 2..6, range above 1000 caused by one wide entry in the first / a middle row), narrow range on a large offset, range around/above 1000 (fractional scale "
         "..2), huge cells (offset beyond i32), wildcard-mass backgrounds, NaN/+inf/-inf cells (replay only); "
         "backgrounds: uniform, dyadic non-uniform (exact sum 1, sometimes a zero symbol), from_counts and decimal "
         "(f32 sum 1, real sum 1 +- 1e-7), wildcard mass. Per matrix ~75 scores probed with pvalue (attainable "
         "word scores, their f32 neighbours, +-half a step, +-d, below the minimum (for the best word also next_down((best - d) as f32) "
         "and best - 1.5 d), above the maximum, +-1e30, "
         "+-inf, NaN) and ~45 p-values probed with score and pvalue(score(p)) (grid, j/4^M, exact table entries and "
         "their f64 neighbours, 0, 1, outside [0,1], NaN). Observables: every entry of sf() as a bit pattern, "
         "min_pvalue, every pvalue/score/round-trip result as a bit pattern, scale(score) of every pvalue probe and unscale(i) of 0, 1, len-1, len and the probed table indices (the two public helpers called directly), panics. PROPFAIL = the extracted Coq "
         "checker check_C11_strict_fails (= check_C11_fails on the domain for K >= 2: C11_strict_checker_eq; sound: "
         "check_C11_strict_sound, which also exhibits the positive exact scale whenever bracket probes were judged) returns a "
         "failure of kind 1..7 on the implementation's observations "
         "of a case inside the property's domain (c11_in_scope: at least one row, finite non-wildcard cells, wildcard finite "
         "or -inf; with K >= 2 this implies a finite cell. Matrices without any finite cell - M = 0 or only -inf cells - are "
         "outside the property: d = (M/2+1) discretisation steps is undefined without a range of finite cells; there "
         "to_score_distribution panics (min_by(..).unwrap(), dist.rs:139 = model Panic 1: C11_no_finite_cell_panics, "
         "C11_empty_matrix_panics), replayed by corpus e0/e1: OK iff both sides panic, the model at site 1): "
         "table non-increasing in [0,1] (exact IEEE compare); "
         "P(S>=s+d)*(1-2^-30)-delta <= pvalue(s) <= P(S>=s-d)*(1+2^-30)+delta with the exact tails from the "
         "integer word table of the dyadic matrix (= tail_exact by C11_tail_dyadic_correct / C11_dyadic_values) or, when smaller (at "
         "most 20000 entries: long motifs, quantised cells), from the table with one entry per distinct word score "
         "(DistGridModel.conv_tableZ; the checker through it is check_C11_fails as a function, C11_grid_checker_eq; weights without "
         "their common power of two: C11_red_checker_eq; "
         "delta = |1-(sum b)^M|, 0 for dyadic backgrounds; the checker's d is the rational (M/2 + 1)/scale - for odd M half a "
         "step wider than the integer reading floor(M/2)+1 of the property text; it absorbs the binary64 rounding of the "
         "probe's scaled score at exact half-step ties; the half step of the word is attained: C11_discretisation_error; "
         "theorems: d = (M+1)/2 steps (C11_pvalue_brackets_tight) and the text's integer d (C11_pvalue_brackets_integer_d); "
         "not judged for more than 70000 words and more than 20000 grid points, or beyond a per-case "
         "budget of 2.5e6 word visits: such cases and probes are COUNTED - the driver logs per case what its verdict rests "
         "on (domain, exact table used, bracket-judged probes / finite probes, hypotheses of the binary64 theorems) and the "
         "evidence notes carry the totals; failure kind 8 (probes handed over, exact scale not established; unreachable for "
         "K >= 2: C11_bracket_always_judged) is a DIFF `cannot-judge`, never OK); "
         "p-values non-increasing over all probe pairs; pvalue(score(p)) <= p exactly (IEEE compare), else <= "
         "p*(1+2^-30)+delta, for p in (0,1) - the tolerance branch is weaker than C11_roundtrip_binary64 (exact under "
         "f64_roundtrip_pred) and on the unchanged tree is reached only by known-finding cases; or a panic of to_score_distribution/pvalue/score(p in (0,1)) inside the domain, also when the model does not panic "
         "(reported by the driver). DIFF: any bit of the sf table, min_pvalue, pvalue, score or round trip differing from the "
         "extracted binary64 model (Flocq), or a panic on one side only. Non-trivial: distinct (matrix, background) "
         "inside the property's domain with width <= 8, or of kind `long` (kinds empty / allninf are not counted). corpus/C11/"
         "witnesses.txt: 23 lines incl. e0 (M = 0), e1 (only -inf cells), x1 (constant cells 2^60: scale = +inf). 51 theorems "
         "in coq/dist/C11.v.",
    trusted_base=[
        "Coq 8.16.1 kernel (coqc); vm_compute in the Example/_refuted lemmas only; no native_compute",
        "Flocq 4.1.0 (BinarySingleNaN) as the meaning of IEEE binary32/binary64 arithmetic (LMBase.IEEE)",
        "extraction: ExtrOcamlBasic only (its Extract Inductive directives for bool, option, list, prod, unit, sumbool, "
        "sumor); no other Extract Inductive, no Extract Constant (nat, Z, positive, Q kept as extracted inductives); OCaml "
        "4.13.1",
        "hand-written OCaml driver ocaml/dist/driver.ml (parsing, bit-pattern comparison with the model, choice of "
        "which probes are handed to check_C11_strict_fails for the bracket check under the time budget, reporting of panics "
        "inside the domain, labelling of failures for the known-findings match - the label unscale-inexact of a kind-7 "
        "failure is decided by the extracted f64_unscale_exact_on evaluated on the model of the case; evaluates the "
        "hypotheses of the binary64 theorems (f64_bg_ok, f64_dims_ok, f64_scale_pred, f32_matrix_ok_any) on every case with "
        "the self-check f32ok -> scalepred (DIFF model-selfcheck otherwise); appends one line per case to "
        "build/ocaml/dist/c11-judged.log (what the verdict rests on), props/c11.py sums it into the evidence notes; choice between the word table and the grid table by an "
        "upper bound of the number of distinct scores (both give tail_exact: C11_tail_dyadic_correct, C11_tail_grid_correct); runs "
        "build_fast (= build: C11_build_fast_eq))",
        "PROPFAIL decisions of ocaml/dist/driver.ml that are NOT the extracted checker (all are `panic inside the domain`, "
        "stricter additions, none replaces the checker): build-panic (to_score_distribution panicked on a matrix inside "
        "c11_in_scope, with or without the model), pvalue-panic probe#i, score-panic (p in (0,1)), sample-panic. Every VALUE "
        "verdict is check_C11_strict_fails (kinds 1..7 -> PROPFAIL with a hand-written message per kind, kind 8 -> DIFF). "
        "Outside the domain (no finite cell) the driver checks `no finite cell <-> model Panic 1` and panic on both sides "
        "(DIFF otherwise)",
        "translator translate/dist_skel.py (regex / brace-matching reader of dist.rs: CDF_RANGE, the statement skeleton "
        "of From<ScoringMatrix> for ScoreDistribution and of the methods, loop bounds, clip sites, skip marker, rounding "
        "function; it never guesses: an unreadable source is a broken obligation)",
        "Rust harness harness/src/bin/dist.rs (generator, calls of to_score_distribution/sf/pvalue/score/min_pvalue "
        "under catch_unwind, dev profile with overflow checks)",
        "std's slice::binary_search_by as read from the installed toolchain source (branch-free loop), re-validated "
        "by the bit-exact comparison of score(p) on every run",
        "the specification of probability: tail_words (DistInst.v) = sum over all K^M words of the product of the "
        "background weights of their symbols, restricted to the words scoring >= t; the recursive form tail_exact "
        "used in the theorems and (for dyadic inputs, as an integer word table) in the checker is proved equal to it "
        "(C11_tail_is_word_sum, C11_tail_dyadic_correct); tailD / pmfD (distribution of the discretised score) are "
        "defined by the same recursion over the rows",
        "modelled, not verified: dist.rs itself (hand-written Gallina model DistModel.v, tied by the bit-exact "
        "correspondence run on every case); the zip formulation of the inner k-loop is proved equal to the direct "
        "rendering of the Rust loop for every carrier (C11_kloop_is_rust_loop)",
    ],
    assumptions=[
        "the theorems are about the exact-rational instance of the model (probabilities, cells and scores are "
        "rationals; f64::round/floor/`as i32` are exact half-away rounding, floor and saturation): the binary64 code "
        "is tied to them only by the bit-exact replay plus the stated tolerances (relative 2^-30, absolute "
        "|1-(sum b)^M|) of the correspondence run; IEEE rounding error of the table values is modelled, not verified "
        "(C11_table_binary64: the table of every distribution built by the binary64 model is non-increasing, in [0,1] and "
        "finite - binary64 itself (Flocq), for a background of finite doubles in [0,1] (f64_bg_ok: the invariant of "
        "`Background`; nothing about its sum) and c*M <= 1023 with c = ceil(log2(K+1)) (f64_dims_ok: M <= 341 DNA, M <= 204 "
        "protein); no hypothesis about the pdf is left: C11_pdf_binary64; C11_table_length_structural: M*1000+1 entries for "
        "every carrier)",
        "C11_sf_monotone_range, C11_pvalue_monotone: non-negative weights (any sum); C11_sf_is_tail, "
        "C11_pvalue_brackets_exact, C11_score_pvalue_roundtrip: non-negative weights of total mass <= 1 (an f32 "
        "background whose real sum exceeds 1 by 1e-7 is covered by the checker's tolerance delta, not by the theorems) "
        "and 1000*M < 2^31-1",
        "C11_score_pvalue_roundtrip has an exact unscale (rational model); the f32 unscale of the code is inexact for "
        "narrow ranges on large offsets: known finding C11-unscale-inexact (C11_unscale_inexact_refuted)",
        "the model follows dist.rs after the repairs 4832e71 (last entry clipped), de0a5ac (sf[0] below min_score), "
        "d6e308b (fractional scale), 5ab0464 (f64 offset); every panic site of the code is an explicit Panic of the "
        "model, compared with the implementation on every case; C11_build_total: no panic site is reachable in build "
        "inside the domain (exact arithmetic)",
        "C11_max_score_is_best_word, C11_min_pvalue_is_best, C11_best_score_tail, C11_score_below_min_pvalue, C11_no_word_lost: "
        "exact-rational instance, non-negative weights of total mass <= 1 (C11_score_below_min_pvalue also 1000*M < 2^31-1)",
        "C11_scale_monotone_binary64, C11_pvalue_monotone_binary64_f32: binary64 itself (Flocq); p-values of the bit-exact "
        "model are non-increasing for all doubles s1 <= s2 for every matrix of f32 cells without NaN that has two different "
        "non-infinite cells or is constant with |cell| <= 2^52 (f32_matrix_ok_any, computable on the bit patterns), background "
        "of finite doubles in [0,1] (f64_bg_ok), c*M <= 1023 (f64_dims_ok): hypotheses on the INPUTS only, evaluated by the "
        "driver on every case (104 of 105 built in-domain cases in the quick tier, 970 of 971 thorough); the remaining "
        "in-domain matrices - constant with |cell| > 2^52 - have scale = +inf from 2^53 on (C11.ex_scale_pred_not_derivable, "
        "corpus x1) and are covered only by C11_pvalue_monotone_binary64_built under the evaluated predicate f64_scale_pred d "
        "(w*offset finite, scale finite > 0; the table part of the older f64_mono_pred is derived: C11_mono_pred_built)",
        "matrices without any finite cell (M = 0, only -inf cells) are outside the property; the construction panics there "
        "(C11_no_finite_cell_panics, C11_empty_matrix_panics; a robustness remark, not a C11 violation), lightmotif-py "
        "raises ValueError (a1b1f91)",
        "binary64 totality of build inside the domain (no Panic 3) and a relative error bound of the table values are not "
        "proved: the bracket inequality for the binary64 code rests on the checker's 2^-30 / delta tolerances",
        "C11_max_score_structural, C11_min_pvalue_structural: every numeric carrier (binary64 included), no arithmetic assumption",
        "a best-word probability below 2^-1074 (e.g. 60 columns with a 2^-20 consensus symbol) is not representable: the generator "
        "keeps e*M <= 960",
    ],
)
